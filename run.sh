#!/bin/bash
# usage: ./run.sh <id> quick|thorough   |   ./run.sh <id> --replay <file>
# Rebuilds the harness against /repo's current working tree, then runs it.
set -u
cd "$(dirname "$0")"
V="$(pwd)"
export GOFLAGS=-mod=mod GOPROXY=off GOSUMDB=off GOTOOLCHAIN=local
export GOCACHE="$V/.cache/go-build"
export VERIF_DIR="$V"
mkdir -p "$V/bin" "$V/.cache"
id="$1"; shift
# VERIF_REPO / VERIF_OUT are for self-tests of the machinery (tools/seedcheck.sh) only: the checks are built against
# a scratch copy of the library and write evidence/replays to a scratch directory. Registered commands never set them.
if [ -n "${VERIF_OUT:-}" ]; then
  mkdir -p "$VERIF_OUT"; cp "$V/known_findings.txt" "$VERIF_OUT/"; export VERIF_DIR="$VERIF_OUT"
fi
if [ "$id" = "C20" ]; then
  if [ -n "${VERIF_REPO:-}" ]; then export C20_SRC="$VERIF_REPO"; fi
  if [ -n "${VERIF_OUT:-}" ]; then export C20_OUT="$VERIF_OUT"; fi
  exec "$V/c20.sh" "$@"
fi
if [ -n "${VERIF_REPO:-}" ]; then
  alt="$V/.cache/alt-$$"; mkdir -p "$alt"
  sed "s|=> /repo|=> $VERIF_REPO|" "$V/mc/go.mod" > "$alt/go.mod"; cp "$VERIF_REPO/go.sum" "$alt/go.sum"
  ( cd "$V/mc" && go build -modfile="$alt/go.mod" -o "$alt/check" ./cmd/check ) || { rm -rf "$alt"; echo "BUILD-FAILED: harness does not build against $VERIF_REPO" >&2; exit 2; }
  "$alt/check" "$id" "$@"; rc=$?
  rm -rf "$alt"; exit $rc
fi
( cd "$V/mc" && cp /repo/go.sum go.sum 2>/dev/null; go build -o "$V/bin/check" ./cmd/check ) || { echo "BUILD-FAILED: harness does not build against /repo" >&2; exit 2; }
exec "$V/bin/check" "$id" "$@"
