#!/bin/bash
# usage: ./run.sh <id> quick|thorough   |   ./run.sh <id> --replay <file>
# Rebuilds the harness against /repo's current working tree, then runs it.
set -u
cd "$(dirname "$0")"
V="$(pwd)"
export GOFLAGS=-mod=mod GOPROXY=off GOSUMDB=off GOTOOLCHAIN=local
export GOCACHE="$V/.cache/go-build"
export VERIF_DIR="$V"
mkdir -p "$V/bin" "$V/.cache"
id="$1"; shift
if [ "$id" = "C20" ]; then
  exec "$V/c20.sh" "$@"
fi
( cd "$V/mc" && cp /repo/go.sum go.sum 2>/dev/null; go build -o "$V/bin/check" ./cmd/check ) || { echo "BUILD-FAILED: harness does not build against /repo" >&2; exit 2; }
exec "$V/bin/check" "$id" "$@"
