#!/bin/bash
# C20: usage  ./c20.sh quick|thorough  |  ./c20.sh --replay <file>
# Generates the instrumented overlay from /repo's current working tree, builds the
# explorer against it, runs it, then runs the free-running -race pass over the same bodies.
set -u
cd "$(dirname "$0")"
V="$(pwd)"
export GOFLAGS=-mod=mod GOPROXY=off GOSUMDB=off GOTOOLCHAIN=local
export GOCACHE="$V/.cache/go-build"
mkdir -p "$V/bin" "$V/.cache" "$V/evidence" "$V/replays/C20"
OV="$V/mc/overlay"
rm -rf "$OV"; mkdir -p "$OV"
cd "$V/mc"
cp /repo/go.sum go.sum 2>/dev/null
go build -o "$V/bin/instr" ./cmd/instr || { echo "BUILD-FAILED: instrumenter" >&2; exit 2; }
# C20_SRC is for the self-tests of the machinery (tools/c20controls.sh) only: a scratch copy of the library
# that is mapped onto /repo's paths; the registered commands never set it.
"$V/bin/instr" /repo "$OV" "$V/mc/verifrt_src" ${C20_SRC:+"$C20_SRC"} || { echo "BUILD-FAILED: instrumentation of /repo failed" >&2; exit 2; }
go build -tags verif -overlay "$OV/overlay.json" -o "$V/bin/c20" ./cmd/c20 || { echo "BUILD-FAILED: instrumented build of /repo failed" >&2; exit 2; }
if [ "${1:-quick}" = "--replay" ]; then
  case "$2" in
    *-race.txt)
      go build -race -o "$V/bin/c20race" ./cmd/c20race || { echo "BUILD-FAILED: -race build" >&2; exit 2; }
      exec "$V/bin/c20race" thorough ;;
  esac
  exec "$V/bin/c20" --replay "$2"
fi
tier="${1:-quick}"
OUT="${C20_OUT:-$V}"
mkdir -p "$OUT/evidence" "$OUT/replays/C20"
rm -f "$OUT/replays/C20/$tier"-*
"$V/bin/c20" "$tier"
rc=$?
if [ $rc -ne 0 ]; then exit $rc; fi
# free-running pass under the race detector (real goroutines, plain build of the current tree)
go build -race -overlay "$OV/plain.json" -o "$V/bin/c20race" ./cmd/c20race || { echo "BUILD-FAILED: -race build" >&2; exit 2; }
"$V/bin/c20race" "$tier"
exit $?
