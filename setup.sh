#!/bin/bash
# Builds the framework offline from files on disk and warms the build cache.
set -e
cd "$(dirname "$0")"
V="$(pwd)"
export GOFLAGS=-mod=mod GOPROXY=off GOSUMDB=off GOTOOLCHAIN=local
export GOCACHE="$V/.cache/go-build"
mkdir -p "$V/bin" "$V/.cache" "$V/evidence" "$V/replays"
( cd "$V/mc" && cp /repo/go.sum go.sum && go vet ./engine >/dev/null 2>&1 || true; go build -o "$V/bin/check" ./cmd/check )
( cd "$V/mc" && go test -count=1 ./engine )
echo setup ok
