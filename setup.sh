#!/bin/bash
# Builds the framework offline from files on disk and warms the build cache.
set -e
cd "$(dirname "$0")"
V="$(pwd)"
export GOFLAGS=-mod=mod GOPROXY=off GOSUMDB=off GOTOOLCHAIN=local
export GOCACHE="$V/.cache/go-build"
mkdir -p "$V/bin" "$V/.cache" "$V/evidence" "$V/replays"
( cd "$V/mc" && cp /repo/go.sum go.sum && go vet ./engine >/dev/null 2>&1 || true; go build -o "$V/bin/check" ./cmd/check )
( cd "$V/mc" && go test -count=1 ./engine )
# C20: instrumenter, instrumented explorer and the -race pass (warms the race-enabled standard library)
OV="$V/mc/overlay"; rm -rf "$OV"; mkdir -p "$OV"
( cd "$V/mc" && go build -o "$V/bin/instr" ./cmd/instr && "$V/bin/instr" /repo "$OV" "$V/mc/verifrt_src" \
  && go build -tags verif -overlay "$OV/overlay.json" -o "$V/bin/c20" ./cmd/c20 \
  && go build -race -overlay "$OV/plain.json" -o "$V/bin/c20race" ./cmd/c20race )
echo setup ok
