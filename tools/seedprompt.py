#!/usr/bin/env python3
"""Writes the prompt given to a fresh sub-agent that is asked for two seeded changes.

usage: seedprompt.py <prop> <letter1> <letter2> <worktree> <outdir>

The prompt contains only the text of the property (from properties.jsonl) and one-line titles of the
changes already kept for it (so that the new ones differ); nothing else from /verif.
"""
import json, os, sys, glob, re

V = os.path.dirname(os.path.dirname(os.path.abspath(__file__)))
prop, l1, l2, wt, out = sys.argv[1:6]
rec = None
for line in open(os.path.join(V, "properties.jsonl")):
    r = json.loads(line)
    if r["id"] == prop:
        rec = r
assert rec, prop

have = []
for d in sorted(glob.glob(os.path.join(V, "seeded", prop + "-?"))):
    name = os.path.basename(d)
    title = ""
    try:
        for ln in open(os.path.join(d, "NOTES.md")):
            if ln.startswith("#"):
                title = re.sub(r"^#+\s*", "", ln.strip())
                title = re.sub(r"^C\d+\s*(/|-|change)?\s*[a-z]\s*(—|:|-)\s*", "", title)
                break
    except OSError:
        pass
    have.append("- %s / %s — %s" % (prop, name[-1], title))

print(f"""You are helping to evaluate a verification harness for the Go library tdewolff/parse (streaming lexers/parsers for CSS, HTML, JS, JSON, XML plus buffer and strconv helpers). Your job: produce TWO independent, realistic source changes ("seeded defects") to the library, each of which BREAKS the semantic property quoted below while the library STILL COMPILES and its EXISTING TEST SUITE STILL PASSES.

Your private scratch copy of the library is the git worktree at {wt} (work ONLY there; never touch /repo or /verif, and do not read anything under /verif). Put your results in {out}.

Every shell call needs: export GOFLAGS=-mod=mod GOPROXY=off GOSUMDB=off GOTOOLCHAIN=local   (there is no network). Run the test suite with: cd {wt} && go test -vet=off -count=1 ./...   Always wrap long commands in `timeout 300`. The machine is busy: be patient with slow builds, do not run anything in parallel yourself.

THE PROPERTY:
{prop} — {rec['title']}

{rec['statement']}

Quantified over: {rec['quantifier']['text']}

{len(have)} changes were already made by other people for this property; yours must be different from all of them in code site and mechanism. Read the property text clause by clause and the code function by function, and pick clauses, input shapes, configurations and functions that none of them touches. If, while reading the code, you notice that the UNMODIFIED library already violates the property for some input, say so at the end of your report (with the input).
""" + "\n".join(have) + f"""


Requirements for each of the two changes (call them {l1} and {l2}; they must use different mechanisms / touch different code sites):
1. It is a small, plausible edit a developer could make (an off-by-one, a wrong comparison, a dropped guard, a reordered statement, a hoisted buffer, a "performance optimisation", a refactoring slip) in NON-test .go files of the library. Do not edit or add *_test.go files of the library as part of the change, do not add build tags.
2. With the change applied the library compiles and `go test -vet=off -count=1 ./...` passes completely (run it and confirm).
3. The change violates the quoted property, but NOT in a way ordinary use exposes at once: it should need something specific to manifest — a particular input shape, an unusual configuration, a multi-step sequence of operations, a particular chunking/fault of the reader, a boundary value, or two cooperating sites that each look fine alone. Prefer subtle over blatant; most inputs must still behave correctly.
4. Provide a demonstration: a standalone Go test file (package of your choice inside the worktree, e.g. {wt}/demo_{l1}_test.go placed in the package it tests) that FAILS with the change applied and PASSES on the unmodified worktree (save your diff with `git diff > file`, then `git checkout -- .` / `git apply file` to verify both directions; do NOT use `git stash`, it is shared with other worktrees). The demonstration must test the property's observable behaviour through the public API only; name every test function in it TestDemo<Something>. If the demonstration needs `go test -race` to fail, say so in the first line of NOTES.md.

Deliverables in {out} :
- {l1}/patch.diff : `git diff` of change {l1} only (library files only, applies with `git apply` to a clean worktree at the same commit)
- {l1}/demo_test.go : the demonstration test (state in a comment at its top which directory/package it must be copied to and the `go test -run` command)
- {l1}/NOTES.md : first line `# {prop} / {l1} — <one-line title of the change>`; then which clause of the property it breaks, what is needed for it to manifest, the commands you ran and their results (suite passes with change; demo fails with change; demo passes without)
- the same under {l2}/
Before finishing, restore the worktree to a clean state (git checkout -- . ; remove untracked demo files) — the patches in {out} are what counts. Report briefly what the two changes are.""")
