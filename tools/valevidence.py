#!/usr/bin/env python3
import json,sys,glob,jsonschema
sch=json.load(open('/root/.vp/EVIDENCE.schema.json'))
for f in sorted(glob.glob('/verif/evidence/*.json')):
    try:
        e=json.load(open(f)); jsonschema.validate(e,sch); c=e['coverage']
        print(f.split('/')[-1], 'ok', e['tier'], e['level'], 'eval=%s dn=%s exh=%s wall=%.0fs viol=%s'%(c.get('evaluations'),c.get('distinct_nontrivial'),c.get('exhaustive'),e['wall_s'],e.get('violations')))
    except Exception as ex:
        print(f,'INVALID',str(ex)[:300])
