#!/bin/bash
# Self-test of the C20 machinery: applies each control change under seeded/C20-controls/ to a scratch copy of the
# library (never to /repo), runs the C20 quick check against that copy and compares with the expectation:
#   silent            the property holds observably (correctly synchronised state) -> the check must stay quiet
#   alarm:<clause>    the property is broken -> the check must report that clause
# Evidence and replays of these runs go to a scratch directory, not to /verif/evidence.
set -u
V=/verif
WT=/tmp/c20ctl
OUT=/tmp/c20ctl-out
fail=0
for d in $V/seeded/C20-controls/${1:-*}/; do
  name=$(basename "$d"); expect=$(cat "$d/expect")
  git -C /repo worktree remove --force $WT >/dev/null 2>&1
  git -C /repo worktree add --detach $WT HEAD >/dev/null 2>&1 || { echo "cannot create worktree"; exit 2; }
  if ! git -C $WT apply "$d/patch.diff"; then echo "$name: patch does not apply"; fail=1; continue; fi
  rm -rf $OUT; mkdir -p $OUT
  log=$(C20_SRC=$WT C20_OUT=$OUT timeout 1200 $V/c20.sh quick 2>&1); rc=$?
  sched=$(echo "$log" | grep -o "[0-9]* executions ([0-9]* with scheduling points, max [0-9]* schedules)" | head -1)
  case "$expect" in
    silent)
      if [ $rc -eq 0 ] && ! echo "$log" | grep -q "VIOLATION"; then echo "ok   $name: silent as expected; $sched"; else echo "FAIL $name: expected silence, rc=$rc"; echo "$log" | tail -15; fail=1; fi ;;
    alarm:*)
      clause=${expect#alarm:}
      if [ $rc -eq 1 ] && echo "$log" | grep -q "^C20 $clause"; then echo "ok   $name: reported $clause; $sched"; else echo "FAIL $name: expected $clause, rc=$rc"; echo "$log" | tail -15; fail=1; fi ;;
  esac
done
git -C /repo worktree remove --force $WT >/dev/null 2>&1
rm -rf $OUT
exit $fail
