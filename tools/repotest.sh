#!/bin/bash
# Runs the repository's own test suite (guard off) in the given tree (default /repo).
export GOFLAGS=-mod=mod GOPROXY=off GOSUMDB=off GOTOOLCHAIN=local
cd "${1:-/repo}" && go test -vet=off -count=1 -timeout 25m ./... 
