#!/bin/bash
# usage: tools/runall.sh [quick|thorough] [ids...]   runs the registered checks one after the other and summarises
tier="${1:-quick}"; shift
ids="${*:-C01 C02 C03 C04 C05 C06 C07 C08 C09 C10 C11 C12 C13 C14 C15 C16 C17 C18 C19 C20}"
cd /verif
bad=0
for id in $ids; do
  s=$(date +%s)
  out=$(timeout 14400 ./run.sh $id $tier 2>&1); rc=$?
  e=$(( $(date +%s) - s ))
  nv=$(echo "$out" | grep -c '^VIOLATION'); nk=$(echo "$out" | grep -c '^KNOWN-FINDING')
  echo "$id $tier exit=$rc violations=$nv known=$nk ${e}s"
  if [ $rc -ne 0 ]; then bad=1; echo "$out" | tail -15; fi
done
exit $bad
