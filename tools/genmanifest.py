#!/usr/bin/env python3
"""Regenerates /verif/MANIFEST.json from the table below and validates it."""
import json, os, sys

V = os.path.dirname(os.path.dirname(os.path.abspath(__file__)))
ALL = ["C%02d" % i for i in range(1, 21)]

# id -> (category, technique, text, note)
CHECKS = {
 "C01": ("exploration",
         "bounded-exhaustive enumeration of atom sequences, edit balls and nesting templates on the real lexers/parsers with invariant oracles",
         "Every atom sequence up to the per-language bound, every single-edit neighbour and truncation of ~300 seed constructs, and ~90 nesting templates at depths up to 10^6 (child processes with a bounded stack) are driven through every entry point and configuration past the first error to the repeating terminal report and three calls beyond; invariants: no panic/fatal, offset in [0,len], call count linear, end report sticky, every slice handed out lies inside the input. Exhaustive within the stated bounds on the real code.",
         "Bounds per alphabet in evidence; 'terminal report' = the next call repeats token, Err() text and offset; stack exhaustion decided by running depth 10^6 inside a 64 MB stack (bounded recursion needs <4 MB, unbounded >100 MB)."),
 "C02": ("exploration",
         "bounded-exhaustive enumeration of atom sequences and edit balls on the real lexers with tiling/aliasing/re-lex oracles after every Next",
         "For every enumerated input and every token position: the token is input[offset-len:offset] by pointer identity and equals a pristine copy modulo the two documented rewrites; tokens strictly ordered, non-overlapping, non-empty; css/js tokens tile the consumed bytes; html/xml gaps are whitespace before a tag closer; Text/AttrKey/AttrVal lie inside the token; append(token) cannot write into the input; each css/js token re-lexes to itself; the set of bytes altered in place is exactly the documented one. Exhaustive within the bounds.",
         "Bounds per alphabet in evidence (css 4 atoms full alphabet, html/js 3-4, xml 4; one more in thorough); JS restricted to valid UTF-8 as the property says; template middle/tail re-lexed after the prefix `${."),
 "C03": ("exploration",
         "exhaustive generation of derivation trees of an ES2022 generator grammar up to a size bound, each rendered to source in several legal spellings together with its expected AST.String() known by construction; exhaustive single-bracket mutations, forbidden operator sequences and lexical redeclarations as negatives",
         "All expression trees with one operator over 14 leaf kinds, with two and with three operators over ~70 operator forms (every binary/assignment/prefix/update operator, conditional, comma, member, optional chain, call, new, tagged template, arrow, yield) in every shape are spelled with minimal parentheses from an independent ECMA-262 precedence table, fully parenthesised, with one redundant pair at each node and with whitespace/comments, and must parse to exactly the expected String(); likewise every statement kind x sub-statements x expressions to nesting depth 2, ~300 declaration/class/parameter/import/export forms, all ordered pairs of 48 statements x 5 separators and 45 ASI situations x 5 line-terminator kinds, under all four Options (WhileToFor: the equivalent for-loop). Negatives that must return an error: every single bracket deletion/insertion of the one-operator programs, sampled statement programs and declaration forms; every forbidden operator sequence alone and at every operand position; every ordered pair of let/const/class declarations of one name in 12 scope kinds with nothing or any of 16 statements between them.",
         "Trusted base: the renderer (transcription of the String() layout of js/ast.go, precedence table). Representation conventions encoded in the expectation and listed in DESIGN.md: loop bodies are blocks, 'new a()' drops the empty argument list, an empty statement directly after another statement on the same line and trailing elisions of binding patterns are not represented."),
 "C04": ("exploration",
         "exhaustive enumeration of scope skeletons up to a node bound with a textbook resolver as reference model; the parser's resolution is observed through the rename-print-relex differential the property itself states",
         "All programs built from up to 3 nodes over 34 statement forms (declarations of every kind, uses, blocks, loops with lexical/var/const heads, try/catch, named/anonymous function expressions, arrows of three shapes, methods, parameter defaults referring to parameters or outer/body names, destructuring, switch, arrow-head look-alikes, labels, class expressions) x names {a,b} in every order, 4 nodes over a 10-19 form core and 5 (6) nodes over a 6-10 form core: a reference resolver labels every identifier occurrence with its binding or as global and predicts lexical redeclarations (which must be rejected). For accepted programs every Var in every Scope.Declared gets a fresh name, the tree is printed with JS(), the output is re-lexed with the C06 reference lexer and re-parsed: occurrences of one binding must carry one fresh name, different bindings different names, globals their original name, and every Var.Uses must equal the number of times its name is printed.",
         "Skipped as ambiguous (counted): programs invalid for other reasons than a lexical redeclaration or on which function-hoisting and ES2022 block scoping disagree. A function-expression name that is fully shadowed in its own body may share the shadowing Var. Two known findings (class-expression names are bound nowhere; head/body of loops and parameter lists share one Var per name) are reported as KNOWN-FINDING and identified by construct and name."),
 "C05": ("exploration",
         "bounded-exhaustive enumeration of accepted programs (atom sequences, edit balls, seed pairs, a literal/indentation family) x Options through the real parse -> print -> parse -> print loop with tree comparison",
         "For every input js.Parse accepts among: all valid-UTF-8 strings up to 4 (5) atoms over the JS core alphabet and 2 (3) over the full one, all single-edit neighbours of ~150 seed programs, ordered pairs of seeds joined by newline/semicolon/space, and a family of 13 literals with line breaks or escapes x 11 syntactic positions x 8 block wrappers x nesting depth 0..3 (indentation 0..12) - under all four Options - the printed text must parse, print identically again, yield the same String() tree after removing GroupExpr nodes from both trees, and contain every string/template/regexp/numeric literal, kept comment and directive byte for byte.",
         "GroupExpr removal is a reflection rewrite of interface-typed fields; literal bytes come from the first tree's nodes, which alias the source."),
 "C06": ("model_checking",
         "exhaustive enumeration of token-spelling pairs/triples x separators x template/brace wrappers and of all short strings, each lexed by the real js.Lexer and by an independent ECMA-262 lexical-grammar reference lexer, traces compared token by token",
         "A vocabulary of ~250 spellings (every reserved/contextual word, every punctuator, identifiers with Unicode/escapes, private names, all numeric literal forms, strings with all escapes and line continuations, templates with nesting, every comment, whitespace and line-terminator kind, regexp literals) is combined exhaustively: all ordered pairs x 7 separators, pairs inside template/brace wrappers (nesting depth up to 3), all triples over a 60-spelling core x separators; plus all strings up to 3 atoms over a 107-atom alphabet (4-5 over the core) and edit balls around the JS seeds. Where the reference lexer accepts the input, js.Lexer must return exactly its (type,text) list, with RegExp() called where the generator placed a regexp literal; canonical spelling of every keyword/operator/punctuator token and the Keywords table are checked entry by entry.",
         "Reference = hand-written longest-match lexer for ECMA-262 section 12 + Annex B comments; whitespace runs and line-terminator runs are single tokens as in the library. Not compared: inputs outside the lexical grammar, '-->' after a delimited comment on the same line (library behaviour pinned by its own tests), unbalanced parentheses inside template substitutions."),
 "C07": ("model_checking",
         "exhaustive enumeration of token-spelling pairs/triples x separators and of all short byte strings, each lexed by the real css.Lexer and by a transcription of the CSS Syntax 3 tokenizer (reference model), traces compared token by token",
         "A vocabulary of ~170 spellings covering every token class and look-ahead of CSS Syntax 3 is combined exhaustively (all singles, all ordered pairs x 4 separators, all triples over a 46-spelling core x separators) and every byte string up to 4 atoms over a 61-atom alphabet (5 over the core) is enumerated; the real lexer's (type,text) list must equal the reference tokenizer's wherever the reference reports neither a spec parse error nor a documented ambiguity; malformed inputs are compared up to the malformed construct and for the BadString / one-BadURL-to-the-matching-paren clauses. IsIdent/IsURLUnquoted are compared with the library's own lexer on every enumerated string, incl. that the argument's array is untouched.",
         "Reference = CSS Syntax 3 CR-2014 tokenizer (+ comments as tokens, --x as custom-property-name). Skipped as ambiguous: NUL / invalid UTF-8, url( spelled with hex escapes, number followed by --, unicode-range with >6 digits or a dangling '-' (library behaviour pinned by its own tests)."),
 "C08": ("exploration",
         "exhaustive generation of well-formed stylesheets from a grammar with the expected unit stream by construction, Values() judged against the C07 reference tokenizer, and bounded-exhaustive byte strings for the nesting/conservation clauses with a shadow stack",
         "Every single item and every ordered pair of ~330 top-level items (rulesets x selectors x declaration lists, nested rulesets, at-rules of every kind and spelling x preludes x bodies, unknown at-rules, statement at-rules, custom properties, comments, CDO/CDC) x 3 separators, plus inline declaration lists, is parsed in the matching mode: unit types and lower-cased names must equal the construction; Values() minus whitespace must equal the source's component tokens; whitespace tokens must be single, non-adjacent, only where the source has whitespace and present where it separates compound selectors / word-like value tokens; custom-property values are the exact source text. On every byte string up to 3-4 atoms (4-5 over the core) and all single-edit neighbours of the CSS seeds, in both modes: End units match the shadow stack of Begin units, no Begin is left open at the end-of-input report unless a parse error was reported, every token reported through data or Values() occurs in the input in source order, the stream ends with io.EOF.",
         "Values() is judged only for the units the documentation names (AtRule, BeginAtRule, BeginRuleset, Declaration, CustomProperty). The leading whitespace token of an at-rule prelude (pinned by the library's tests) is accepted; the IE '*' hack joins two tokens."),
 "C09": ("exploration",
         "exhaustive generation of documents from a construct catalogue with expected tokens by construction, exhaustive raw-text contents against a transcription of the HTML tokenizer's raw-text/script states, exhaustive template-region placements, and bounded-exhaustive byte strings for structural invariants",
         "Every sequence of <=3 constructs from a ~75-construct catalogue is lexed (plain, and <=2 constructs under three dialects) and the list of (type, data, Text/AttrKey lower-cased, AttrVal verbatim, HasTemplate) must equal the list known by construction; for each of the 7 raw-text elements every content of <=4 (script: 5) fragments x 3 tails x 2 start-tag spellings must come back as one text token ending exactly where a reference transcription of the RCDATA/RAWTEXT/script-data double-escape states ends it; six dialects x 10 region bodies (quotes, escaped quotes, fake end delimiters) x 10 placements (text, attribute name, unquoted/quoted values, between attributes, raw text) have expected tokens incl. HasTemplate; on every byte string up to the bound x dialects Attribute tokens occur only between a start tag and its closer.",
         "Bounds in the evidence. 'Matching end tag' = name followed by whitespace, '/' or '>' (appropriate end tag token); inputs cut directly after a look-alike tag name are not judged. html.ToHash is covered by C16."),
 "C10": ("model_checking",
         "exhaustive generation of valid documents and unpruned token/byte sequences on the real parser, lock-step shadow stack and encoding/json as reference",
         "Every valid JSON document up to the token bound (all escape forms incl. backslash runs before the closing quote, all number forms) x whitespace at every token boundary is parsed and re-joined through State(), and must equal json.Compact byte for byte; on every token sequence and byte string up to the bound a shadow container stack checks End units and State(); a strict reference tokenizer + grammar walk locates the four named error classes, which must surface as ErrorGrammar with a non-EOF error before any unit past the offending token. Abstract parser states/transitions reached are reported.",
         "Bounds: documents <=7 (quick) / <=9 (thorough) tokens over 30 token spellings; token sequences <=5/6 over 12 tokens; byte strings <=4/5 atoms over 30 atoms; encoding/json trusted as judge."),
 "C11": ("exploration",
         "exhaustive generation of well-formed documents from a construct grammar with expected tokens by construction, differential comparison with encoding/xml, and bounded-exhaustive byte strings for the structural clauses",
         "All documents made of 8 prologs x a root element x every sequence of <=2 (3) children from 34 constructs (also nested one level deeper), and every whitespace plan at the four in-tag positions (incl. CR or tab directly after the tag name) x 14 attribute shapes x second attributes x closers, are lexed: the (type, Text, AttrVal) list must equal the list known by construction, and element names, attribute names and entity-free values must equal encoding/xml Decoder.RawToken. On every byte string up to 5 atoms over a 30-atom alphabet and all single-edit neighbours of the XML seeds: Attribute tokens only between a start tag / PI target and its closer, an embedded NUL is reported as the unexpected-NULL *parse.Error, and no token extends past the NUL.",
         "Attribute values compared after the tab/newline->space normalisation; documents encoding/xml rejects (about 8 percent, e.g. '<' inside attribute values) are compared with the constructed expectation only."),
 "C12": ("model_checking",
         "explicit-state search to a fix-point over the real cursor objects in lock-step with a reference cursor",
         "All reachable (start,pos) states of parse.Input and buffer.Lexer are enumerated (BFS to a fix-point, successor = fresh object + shortest history + one operation) for every byte string up to the bound over an alphabet holding every truncated UTF-8 shape, for 11 constructors incl. failing readers; every observer and mutator result is compared with a reference cursor, the caller's array is compared before/after Restore. Exhaustive within the bound; nothing is sampled.",
         "Bound: inputs of <=4 (quick) / <=5 (thorough) atoms; contract-respecting operations only; reflection reads private start/pos/buf/err to justify state merging."),
 "C13": ("model_checking",
         "explicit-state, deviation-bounded search over operation histories and reader answers on the real StreamLexer with a lock-step reference cursor and a ledger of returned slices",
         "For each case (data, initial buffer size incl. 0 and default, reader ending with EOF or failing at offset f, start state initial or after 1-4 canonical token-loop iterations) a BFS explores every contract-respecting history up to the depth bound; each Read call of the environment is a choice point (fill, zero-length, 1, 2, all-but-one, error/EOF together with the last bytes) within a deviation bound; states are de-duplicated on a reflective key of the private state. After every step all results are compared with a cursor over the completely read input, Err() against the three clauses, ShiftLen against shifted+skipped, and every unfreed slice returned by Shift/Lexeme against its bytes. Periodic streams check that held capacity does not grow between 128 and 256 tokens.",
         "Bounds: depth 7 (quick) / 9 (thorough) operations beyond the start state, <=2/3 reader deviations, data <=10 bytes. Known finding: Lexeme() slices of the unfinished token are not preserved across a refill (see known_findings.txt)."),
 "C14": ("exploration",
         "bounded-exhaustive enumeration of numeric strings and of boundary value families x precision/format configurations against strconv and math/big",
         "Parsers: every string of <=7 (8) characters over {+ - 0 1 5 9 . e E x} and every single-edit neighbour of ~90 boundary numerals (int64/uint64 limits, 19-21 digit runs, exponent windows, subnormals, 300-digit literals) is compared with strconv on the longest syntactic prefix (exact for integers, 1e-14 relative for floats). Formatters: AppendInt/LenInt on all +-(10^k+d), +-(2^k+d); AppendNumber->ParseNumber round trip on that family x dec 0..18 x groupSize 0..6 x ordered pairs of distinct 1-4 byte symbols; AppendFloat on m*10^e (e in [-330,310], both signs) x prec -1..18 checked with big.Float for well-formedness, sign and distance to the argument; AppendDecimal x dec 0..18 against big.Rat rounding half away from zero; prefix bytes preserved at cap==len and with room.",
         "Bounds: m<=99 quick / 999 thorough. Tolerances stated in the evidence: subnormal results within 2 units of the last place or 1e-14 relative; AppendFloat within one unit of the requested last digit plus 8 ulp of float64 scaling; AppendDecimal accepted within half a unit of the last decimal plus 8 ulp when 17+ digits are requested."),
 "C15": ("exploration",
         "bounded-exhaustive enumeration of texts x offsets, of an elision family, and of valid documents x token boundaries x illegal characters, against an independent line/column reference and context-shape invariants",
         "Position is compared on every text up to 5 (7) atoms over the five line-break kinds, multi-byte, non-printable and NUL characters x every offset in [-1,len+1] with a reference that counts breaks and code points; the context is checked by invariants (line prefix, contiguous piece of the line, non-graphic as middle dot, at most ~60 characters, ellipses consistent, caret exactly under the character at the offset) on an elision family of long lines with distinct characters, special characters at every cut point and up to 100000 preceding lines. Every JS seed program (alone and joined pairwise by each line-break kind) and every generated JSON document gets each of {@, backslash, #, U+2019, NUL} inserted at every token boundary: the *parse.Error must carry exactly that line/column/context. Every *parse.Error raised on the enumerated C01 input spaces must equal Position(input, o) for an o inside the input (the cursor offset for xml/html/json).",
         "CRLF and multi-byte characters are indivisible units. Token boundaries come from the reference lexers of C06/C10; documents with '/' or template substitutions are not used for insertion (goal-symbol ambiguity). Known finding: xml.Lexer computes positions on its rewritten buffer."),
 "C16": ("exploration",
         "bounded-exhaustive enumeration of argument strings per helper against independent reference definitions (regexp, net/url, encoding/base64, mime, bytes, a plain map built from the hash constants in the current source)",
         "Every string up to the bound over an alphabet built around each helper's syntax boundaries (and all 256 byte values for the byte-indexed tables) is fed to Number, Dimension, EncodeURL (both tables, three capacities), DecodeURL, DataURI (generated URIs with exact expected payload/type, and arbitrary fragment soups), Mediatype (fragment soups and every spacing of up to 2-3 distinct parameters), EqualFold, ToLower, TrimWhitespace, IsAllWhitespace, IsWhitespace, IsNewline and css/html ToHash (every constant, case variants, all single-edit neighbours, all short strings over the tables' letters); results must equal the reference; arguments must not be modified; any panic is a violation.",
         "Bounds in the evidence rule (e.g. Number: all 10^8 strings of <=8 over 10 bytes). Mediatype is compared with mime.ParseMediaType only on inputs matching type/subtype(;key=value)* with optional blanks, because mime is more lenient than 'well-formed'."),
 "C17": ("exploration",
         "bounded-exhaustive enumeration of fragment sequences for the in-place rewriters and of attribute values x configurations for the escapers, with semantic oracles (regexp reference, html.UnescapeString, read-back through the real lexers)",
         "ReplaceMultipleWhitespace equals a regexp reference on all strings <=8 over the five whitespace bytes and two letters; ReplaceEntities on all sequences <=5 over 25 entity fragments x 3 reverse maps never lengthens, is idempotent, returns a prefix of its argument and leaves html.UnescapeString unchanged; the combined function equals the sequence of the two; html/xml EscapeAttrVal on all values up to 4/5 atoms x original quote x mustQuote x 3 buffer sizes are read back by the corresponding lexer as one attribute whose unquoted value decodes to the same text, with the documented quoting policy and the cheaper quote; EscapeCDATAVal declines or round-trips.",
         "Entity maps are HTML-consistent by construction; NUL references are excepted as the property says; values containing NUL are not passed to the escapers."),
 "C18": ("exploration",
         "exhaustive visitor stop policies over every tree of the enumerated program spaces, compared with a reflection walk of the same tree",
         "For every tree js.Parse returns on the JS seed catalogue and 14 programs covering class members, object methods, templates and meta-properties (x 4 Options), on every accepted string of the enumerated JS alphabets and on every accepted single-edit neighbour of the seeds: Walk is run with a recording visitor under the policies 'descend everywhere', 'return nil at the i-th Enter' for every i (trees up to 48 Enter calls) and every pair (i,j) (up to 16). A reflection walk over the tree (interface, pointer, struct and slice fields; scope tables and Var.Link excluded) gives the node occurrences and the ancestor relation: every statement/expression/binding/identifier occurrence must be entered as often as it occurs unless cut, nothing outside the tree is entered, every Enter happens inside an ancestor, Exit comes exactly once per non-nil Enter in stack order, cut subtrees are not entered. The evidence lists the node types seen and fails if a node type of ast.go never occurs.",
         "Required nodes are values held in IStmt/IExpr/IBinding fields, *Var and BlockStmt; auxiliary structs may be entered but need not be. Shared *Var and zero-size nodes are compared by occurrence counts (they are leaves)."),
 "C19": ("model_checking",
         "exhaustive enumeration of write histories x byte order x backend/environment behaviour x truncation, and of all (position, offset, whence) / (position, length) pairs, against encoding/binary, bytes.Reader and the io contracts",
         "Every history of <=3 typed writes over 27 op/value pairs (both byte orders) is compared with encoding/binary and read back on 15 backends or environment behaviours (memory, Bytes() reader, ReadSeeker incl. 1-byte chunks and EOF-with-data, ReaderAt with nil/EOF on exact fit, plain readers, *os.File, mmap) with the data truncated at every byte: values, Pos, Len, Err before/after the first over-run, stability of returned byte strings. Seek from every position x every offset x whence 0..3 and Read/ReadAt for every (pos,len) on L<=6 bytes are compared with bytes.Reader and the io.Reader/io.ReaderAt clauses; all bit strings <=17 bits and all buffers <=2 bytes go through the bitmap types.",
         "Bounds: histories <=3 writes (4 over a 12-op core in thorough), file-backed backends <=2 writes, L<=6; legal reader behaviours (EOF with data, EOF on exact fit) are environment choices; targets of Seek outside [0,Len] may be rejected or accepted."),
}

NOT_YET = "check not yet implemented at this commit (planned in DESIGN.md section 3); not claimed"

def main():
    checks = []
    for pid in ALL:
        if pid not in CHECKS:
            continue
        cat, tech, text, note = CHECKS[pid]
        checks.append({
            "property_id": pid,
            "quick_cmd": "./run.sh %s quick" % pid,
            "thorough_cmd": "./run.sh %s thorough" % pid,
            "evidence_file": "/verif/evidence/%s.json" % pid,
            "replay_cmd_template": "./run.sh %s --replay {path}" % pid,
            "engine": "mc",
            "level_claimed": {"category": cat, "text": text, "design_ref": "DESIGN.md section 3, " + pid},
            "level_note": note,
            "technique": tech,
        })
    m = {
        "version": 1,
        "setup_cmd": "./setup.sh",
        "hooks": {
            "guard": "verif",
            "enable": "no source hooks are committed in /repo: instrumentation (C20) is generated into a go build -overlay from the current tree at check time; private state is read by reflection",
            "baseline_off_cmd": "cd /repo && GOFLAGS=-mod=mod GOPROXY=off GOSUMDB=off go test -vet=off -count=1 ./...",
            "source_commits": [],
            "add_only": True,
        },
        "engines": [{
            "name": "mc",
            "path": "/verif/mc",
            "serves_properties": sorted(CHECKS.keys()),
            "kind_free_text": "hand-written bounded-exhaustive explorer in Go: sharded enumeration of atom sequences / operation histories / environment answers / schedules on the real code with lock-step reference models, deterministic replay and minimisation",
        }],
        "checks": checks,
        "not_applicable": [{"property_id": p, "reason": NOT_YET} for p in ALL if p not in CHECKS],
        "notes": "Every check rebuilds bin/check from /verif/mc with `replace github.com/tdewolff/parse/v2 => /repo`, so it always runs against /repo's working tree. Known findings: /verif/known_findings.txt.",
    }
    path = os.path.join(V, "MANIFEST.json")
    json.dump(m, open(path, "w"), indent=1)
    try:
        import jsonschema
        jsonschema.validate(m, json.load(open("/root/.vp/MANIFEST.schema.json")))
        print("MANIFEST.json valid;", len(checks), "checks")
    except ImportError:
        print("jsonschema not available; written without validation")

if __name__ == "__main__":
    main()
