#!/bin/bash
# usage: tools/seedcheck.sh <src-dir with patch.diff, demo_test.go[, NOTES.md]> <demo-pkg-dir relative to repo root ('.' for root)> <name> <property> [checks to run, default: the property]
# 1. verifies the seeded change independently in a scratch worktree: suite passes with it, demo fails with it, demo passes without it
# 2. runs the listed quick checks against that scratch worktree (VERIF_REPO/VERIF_OUT), /repo is not touched
# 3. stores it under /verif/seeded/<name>/ with meta.json
set -u
SRC="$1"; PKG="$2"; NAME="$3"; PROP="$4"; shift 4
CHECKS="${*:-$PROP}"
export GOFLAGS=-mod=mod GOPROXY=off GOSUMDB=off GOTOOLCHAIN=local
V=/verif
WT=/tmp/seedwt-$NAME
rm -rf "$WT"; git -C /repo worktree prune
git -C /repo worktree add -q --detach "$WT" HEAD || exit 2
cleanup() { git -C /repo worktree remove --force "$WT" 2>/dev/null; }
trap cleanup EXIT
demo="$WT/$PKG/zz_seed_demo_test.go"
cp "$SRC/demo_test.go" "$demo"
( cd "$WT/$PKG" && timeout 600 go test ${SEED_RACE:+-race} -vet=off -count=1 -run 'Demo' . ) > /tmp/seed-$NAME-clean.log 2>&1; clean_rc=$?
rm -f "$demo"
git -C "$WT" apply "$SRC/patch.diff" || { echo "SEED $NAME: patch does not apply"; exit 2; }
( cd "$WT" && timeout 900 go test -vet=off -count=1 ./... ) > /tmp/seed-$NAME-suite.log 2>&1; suite_rc=$?
cp "$SRC/demo_test.go" "$demo"
( cd "$WT/$PKG" && timeout 600 go test ${SEED_RACE:+-race} -vet=off -count=1 -run 'Demo' . ) > /tmp/seed-$NAME-mut.log 2>&1; mut_rc=$?
echo "SEED $NAME: demo on clean tree rc=$clean_rc (want 0); suite with change rc=$suite_rc (want 0); demo with change rc=$mut_rc (want !=0)"
if [ $clean_rc -ne 0 ] || [ $suite_rc -ne 0 ] || [ $mut_rc -eq 0 ]; then
  echo "SEED $NAME: REJECTED"; tail -5 /tmp/seed-$NAME-clean.log /tmp/seed-$NAME-suite.log /tmp/seed-$NAME-mut.log; exit 3
fi
# run our checks against the scratch worktree with the change (never against /repo: other runs may be using it)
rm -f "$demo"
results=""
for ck in $CHECKS; do
  out=$( cd $V && VERIF_REPO="$WT" VERIF_OUT="/tmp/seedout-$NAME" timeout 1800 ./run.sh $ck quick 2>&1 ); rc=$?
  nv=$(echo "$out" | grep -c '^VIOLATION')
  echo "  check $ck on seeded tree: exit=$rc violations=$nv"
  echo "$out" | grep -A1 '^  clause' | head -6
  results="$results{\"check\":\"$ck\",\"exit\":$rc,\"violation_lines\":$nv},"
done
rm -rf "/tmp/seedout-$NAME"
mkdir -p $V/seeded/$NAME
cp "$SRC/patch.diff" "$SRC/demo_test.go" $V/seeded/$NAME/
[ -f "$SRC/NOTES.md" ] && cp "$SRC/NOTES.md" $V/seeded/$NAME/
needs=$(grep -i -m1 -A2 'manifest' "$SRC/NOTES.md" 2>/dev/null | tr '\n"\\' '   ' | cut -c1-400)
cat > $V/seeded/$NAME/meta.json <<EOF
{
 "property": "$PROP",
 "name": "$NAME",
 "base_commit": "$(git -C /repo rev-parse --short HEAD)",
 "demo_package_dir": "$PKG",
 "needs_to_manifest": "$needs",
 "verified": {"demo_passes_on_clean_tree": true, "suite_passes_with_change": true, "demo_fails_with_change": true,
   "commands": ["go test -vet=off -count=1 ./... (with change)", "go test -vet=off -count=1 -run Demo . in $PKG (with and without change)"]},
 "checks_run_quick": [${results%,}]
}
EOF
echo "SEED $NAME: stored in $V/seeded/$NAME"
