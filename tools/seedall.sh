#!/bin/bash
# Re-runs every stored seeded change against the current tree: the patch must still apply to /repo's HEAD (in a
# scratch worktree) and the quick check of its property must report a violation. usage: tools/seedall.sh [names...]
export GOFLAGS=-mod=mod GOPROXY=off GOSUMDB=off GOTOOLCHAIN=local
V=/verif
names="${*:-$(ls $V/seeded | grep -E '^C[0-9]+-[a-z]$')}"
bad=0
for n in $names; do
  prop=${n%-*}
  WT=/tmp/seedall-$n
  git -C /repo worktree remove --force $WT >/dev/null 2>&1
  git -C /repo worktree add -q --detach $WT HEAD || exit 2
  if ! git -C $WT apply $V/seeded/$n/patch.diff 2>/dev/null; then
    echo "$n STALE (patch no longer applies)"; bad=1
  else
    out=$(cd $V && VERIF_REPO=$WT VERIF_OUT=/tmp/seedall-out-$n timeout 1800 ./run.sh $prop quick 2>&1); rc=$?
    nv=$(echo "$out" | grep -c '^VIOLATION')
    if [ $rc -eq 1 ] && [ $nv -gt 0 ]; then echo "$n caught ($nv)"; else echo "$n MISSED exit=$rc"; bad=1; fi
    rm -rf /tmp/seedall-out-$n
  fi
  git -C /repo worktree remove --force $WT >/dev/null 2>&1
done
exit $bad
