package engine

import (
	"sort"
	"strconv"
)

func quote(b []byte) string { return strconv.Quote(string(b)) }

// Quote renders bytes as a Go string literal.
func Quote(b []byte) string { return quote(b) }

// Unquote is the inverse of Quote (returns nil on malformed text).
func Unquote(s string) []byte {
	u, err := strconv.Unquote(s)
	if err != nil {
		return []byte(s)
	}
	return []byte(u)
}

// Atoms builds an alphabet from strings.
func Atoms(ss ...string) [][]byte {
	r := make([][]byte, len(ss))
	for i, s := range ss {
		r[i] = []byte(s)
	}
	return r
}

// Alphabet supports canonical-segmentation tests so that the number of
// distinct byte strings among enumerated atom sequences can be counted exactly
// from below: a sequence is canonical iff greedy longest-match segmentation of
// its concatenation returns the sequence itself; every byte string has at
// most one canonical sequence.
type Alphabet struct {
	Atoms  [][]byte
	byLen  []int // atom indices sorted by decreasing length
	single bool  // all atoms are one byte: every sequence canonical
}

func NewAlphabet(atoms [][]byte) *Alphabet {
	a := &Alphabet{Atoms: atoms, single: true}
	seen := map[string]bool{}
	for i, at := range atoms {
		if len(at) != 1 {
			a.single = false
		}
		if seen[string(at)] {
			panic("duplicate atom " + quote(at))
		}
		seen[string(at)] = true
		a.byLen = append(a.byLen, i)
	}
	sort.SliceStable(a.byLen, func(i, j int) bool { return len(atoms[a.byLen[i]]) > len(atoms[a.byLen[j]]) })
	return a
}

func (a *Alphabet) Canonical(idx []int, in []byte) bool {
	if a.single {
		return true
	}
	p := 0
	for _, want := range idx {
		got := -1
		for _, ai := range a.byLen {
			at := a.Atoms[ai]
			if len(at) <= len(in)-p && string(in[p:p+len(at)]) == string(at) {
				got = ai
				break
			}
		}
		if got != want {
			return false
		}
		p += len(a.Atoms[want])
	}
	return true
}

// EnumSeq enumerates, level by level, every atom sequence of length
// minLen..maxLen and calls f on this shard's share. Sharding is by the first
// two atoms. The slice passed to f has spare capacity (cap > len) whose next
// byte is 0xEE, is owned by the callee for the duration of the call, and idx
// holds the atom indices. It returns the last completed level (maxLen unless
// the safety deadline expired between levels).
func (c *Ctx) EnumSeq(al *Alphabet, minLen, maxLen int, f func(in []byte, idx []int)) int {
	n := len(al.Atoms)
	completed := minLen - 1
	for L := minLen; L <= maxLen; L++ {
		if c.Expired() {
			c.CapHit("deadline before level " + strconv.Itoa(L))
			return completed
		}
		idx := make([]int, L)
		buf := make([]byte, 0, 64)
		var rec func(d int, buf []byte)
		rec = func(d int, buf []byte) {
			if d == L {
				tmp := make([]byte, len(buf), len(buf)+8)
				copy(tmp, buf)
				tmp[:len(buf)+1][len(buf)] = 0xEE
				f(tmp, idx)
				return
			}
			for i := 0; i < n; i++ {
				idx[d] = i
				if L >= 2 && d == 1 {
					if !c.Mine(idx[0]*n + i) {
						continue
					}
				} else if L < 2 && d == L-1 {
					if !c.Mine(i) {
						continue
					}
				}
				rec(d+1, append(buf, al.Atoms[i]...))
			}
		}
		if L == 0 {
			if c.Mine(0) {
				rec(0, buf)
			}
		} else {
			rec(0, buf)
		}
		completed = L
	}
	return completed
}

// SeqCount returns the number of sequences of length minLen..maxLen over n atoms.
func SeqCount(n, minLen, maxLen int) int64 {
	var t int64
	for L := minLen; L <= maxLen; L++ {
		p := int64(1)
		for i := 0; i < L; i++ {
			p *= int64(n)
		}
		t += p
	}
	return t
}

// EditBall calls f for every input within one edit (atom deletion at byte
// granularity, atom insertion/substitution at every byte position, and every
// truncation) of seed. Work is sharded by candidate number.
func (c *Ctx) EditBall(seed []byte, atoms [][]byte, f func(in []byte)) {
	k := 0
	emit := func(b []byte) {
		k++
		if !c.Mine(k) {
			return
		}
		tmp := make([]byte, len(b), len(b)+8)
		copy(tmp, b)
		tmp[:len(b)+1][len(b)] = 0xEE
		f(tmp)
	}
	emit(seed)
	for i := 0; i < len(seed); i++ { // truncations
		emit(seed[:i])
	}
	for i := 0; i < len(seed); i++ { // deletions
		emit(append(append([]byte{}, seed[:i]...), seed[i+1:]...))
	}
	for i := 0; i <= len(seed); i++ { // insertions, substitutions
		for _, a := range atoms {
			emit(append(append(append([]byte{}, seed[:i]...), a...), seed[i:]...))
			if i < len(seed) {
				emit(append(append(append([]byte{}, seed[:i]...), a...), seed[i+1:]...))
			}
		}
	}
}

// ByteSweep calls f for seed with every one of the 256 byte values substituted at, and (if insert) inserted before,
// every byte position: one representative of every byte class a hand-written scanner can distinguish, in every
// context the seed offers. Work is sharded by candidate number.
func (c *Ctx) ByteSweep(seed []byte, insert bool, f func(in []byte)) {
	k := 0
	emit := func(b []byte) {
		k++
		if !c.Mine(k) {
			return
		}
		tmp := make([]byte, len(b), len(b)+8)
		copy(tmp, b)
		tmp[:len(b)+1][len(b)] = 0xEE
		f(tmp)
	}
	buf := make([]byte, 0, len(seed)+1)
	for i := 0; i <= len(seed); i++ {
		for v := 0; v < 256; v++ {
			if i < len(seed) && byte(v) != seed[i] {
				buf = append(append(append(buf[:0], seed[:i]...), byte(v)), seed[i+1:]...)
				emit(buf)
			}
			if insert {
				buf = append(append(append(buf[:0], seed[:i]...), byte(v)), seed[i:]...)
				emit(buf)
			}
		}
	}
}
