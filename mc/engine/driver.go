package engine

import (
	"bufio"
	"bytes"
	"encoding/json"
	"fmt"
	"os"
	"os/exec"
	"path/filepath"
	"runtime"
	"sort"
	"strconv"
	"strings"
	"sync"
	"syscall"
	"time"
)

// Check describes one property's machinery.
type Check struct {
	ID          string
	Level       string // evidence level
	Rule        string
	Assumptions []string
	// Setup registers the spaces (also used by replay/minimise).
	Setup func(c *Ctx)
	// Work enumerates this shard's share of every space.
	Work func(c *Ctx)
	// Finish runs in the driver after merging: vacuity thresholds and
	// coverage keys. It may call c.Fail-free helpers only; return an error
	// string to mark the run as internally broken (never a violation).
	Finish func(c *Ctx, cov map[string]interface{}) string
	// Serial forces a single worker.
	Serial bool
	// Child is run for `check <id> --child args...` (helper sub-processes
	// that isolate fatal crashes); its return value is the exit status.
	Child func(args []string) int
}

var VerifDir = "/verif"

func init() {
	if d := os.Getenv("VERIF_DIR"); d != "" {
		VerifDir = d
	}
}

func usage() {
	fmt.Fprintln(os.Stderr, "usage: check <id> quick|thorough | check <id> --replay <file>")
	os.Exit(2)
}

// Main is the entry point of the check binary.
func Main(checks map[string]*Check) {
	if len(os.Args) < 3 {
		usage()
	}
	id := os.Args[1]
	ck := checks[id]
	if ck == nil {
		fmt.Fprintln(os.Stderr, "unknown property", id)
		os.Exit(2)
	}
	seed, _ := strconv.ParseInt(os.Getenv("VERIF_SEED"), 10, 64)
	switch os.Args[2] {
	case "--child":
		if ck.Child == nil {
			usage()
		}
		os.Exit(ck.Child(os.Args[3:]))
	case "--replay":
		if len(os.Args) < 4 {
			usage()
		}
		os.Exit(replay(ck, os.Args[3]))
	case "--worker":
		// check <id> --worker <tier> <k> <n> <out> [trace]
		tier := os.Args[3]
		k, _ := strconv.Atoi(os.Args[4])
		n, _ := strconv.Atoi(os.Args[5])
		out := os.Args[6]
		// a runaway allocation in the code under test must kill this worker (attributed to its current case), not the machine
		var lim syscall.Rlimit
		if syscall.Getrlimit(syscall.RLIMIT_AS, &lim) == nil {
			lim.Cur = 6 << 30
			syscall.Setrlimit(syscall.RLIMIT_AS, &lim)
		}
		c := NewCtx(id, tier, k, n)
		c.Seed = seed
		if len(os.Args) > 7 {
			c.SetTrace(os.Args[7])
		}
		budget := 900
		if tier == "thorough" {
			budget = 5400
		}
		if s := os.Getenv("VERIF_BUDGET_S"); s != "" {
			budget, _ = strconv.Atoi(s)
		}
		c.Deadline = time.Now().Add(time.Duration(budget) * time.Second)
		c.Watchdog(func() { c.WriteResult(out, false) })
		ck.Setup(c)
		ck.Work(c)
		c.curSpace = nil
		c.WriteResult(out, true)
		os.Exit(0)
	case "quick", "thorough":
		os.Exit(drive(ck, os.Args[2], seed))
	default:
		usage()
	}
}

func replay(ck *Check, path string) int {
	b, err := os.ReadFile(path)
	if err != nil {
		fmt.Fprintln(os.Stderr, err)
		return 2
	}
	var v Violation
	if err := json.Unmarshal(b, &v); err != nil {
		fmt.Fprintln(os.Stderr, err)
		return 2
	}
	c := NewCtx(ck.ID, "quick", 0, 1)
	ck.Setup(c)
	s := c.spaces[v.Case.Space]
	if s == nil {
		fmt.Fprintln(os.Stderr, "unknown space", v.Case.Space)
		return 2
	}
	in := Unquote(v.Case.Input)
	cp := append(make([]byte, 0, len(in)+1), in...)
	c.Exec(s, cp, v.Case.Args)
	if len(c.Viol) == 0 {
		fmt.Printf("replay: no violation on %s\n", path)
		return 0
	}
	for _, x := range c.Viol {
		fmt.Printf("replay: clause=%s site=%s detail=%s\n", x.Clause, x.Site, x.Detail)
	}
	fmt.Printf("VIOLATION property=%s replay=%s\n", ck.ID, path)
	return 1
}

func drive(ck *Check, tier string, seed int64) int {
	t0 := time.Now()
	evdir := filepath.Join(VerifDir, "evidence")
	os.MkdirAll(evdir, 0o755)
	os.Remove(filepath.Join(evdir, ck.ID+".json"))
	n := runtime.NumCPU()
	if n > 16 {
		n = 16
	}
	if s := os.Getenv("VERIF_WORKERS"); s != "" {
		n, _ = strconv.Atoi(s)
	}
	if ck.Serial || n < 1 {
		n = 1
	}
	tmp, err := os.MkdirTemp("", "verifmc-"+ck.ID+"-")
	if err != nil {
		fmt.Fprintln(os.Stderr, err)
		return 2
	}
	defer os.RemoveAll(tmp)

	c := NewCtx(ck.ID, tier, 0, 1)
	c.Seed = seed
	ck.Setup(c)

	type wres struct {
		r      *Result
		stderr string
		err    error
	}
	res := make([]wres, n)
	runWorker := func(k int, trace bool) wres {
		out := filepath.Join(tmp, fmt.Sprintf("w%d.json", k))
		os.Remove(out)
		args := []string{ck.ID, "--worker", tier, strconv.Itoa(k), strconv.Itoa(n), out}
		if trace {
			args = append(args, filepath.Join(tmp, fmt.Sprintf("t%d.json", k)))
		}
		cmd := exec.Command(os.Args[0], args...)
		cmd.Env = append(os.Environ(), "GOMAXPROCS=2", "GOTRACEBACK=single")
		var eb bytes.Buffer
		cmd.Stderr = &eb
		cmd.Stdout = &eb
		err := cmd.Run()
		var r Result
		b, rerr := os.ReadFile(out)
		if rerr == nil {
			if json.Unmarshal(b, &r) != nil {
				rerr = fmt.Errorf("bad result json")
			}
		}
		w := wres{stderr: tail(eb.String(), 1500), err: err}
		if rerr == nil {
			w.r = &r
		}
		return w
	}
	var wg sync.WaitGroup
	for k := 0; k < n; k++ {
		wg.Add(1)
		go func(k int) {
			defer wg.Done()
			res[k] = runWorker(k, false)
		}(k)
	}
	wg.Wait()

	internal := ""
	for k := 0; k < n; k++ {
		w := res[k]
		if w.r != nil && w.r.Done && w.err == nil {
			c.Merge(w.r)
			continue
		}
		if w.r != nil && !w.r.Done {
			// watchdog abort: result carries the hang/memory violation
			c.Merge(w.r)
			c.CapHit(fmt.Sprintf("worker %d aborted by watchdog", k))
			continue
		}
		// crash (fatal error, os.Exit by runtime): re-run this shard with a
		// trace file to attribute the crash to a case.
		w2 := runWorker(k, true)
		tb, _ := os.ReadFile(filepath.Join(tmp, fmt.Sprintf("t%d.json", k)))
		var cs Case
		if w2.r != nil && w2.r.Done && w2.err == nil {
			internal = fmt.Sprintf("worker %d crashed once (%v: %s) but not when re-run", k, w.err, w.stderr)
			c.Merge(w2.r)
			continue
		}
		if json.Unmarshal(tb, &cs) != nil || cs.Space == "" {
			internal = fmt.Sprintf("worker %d crashed outside any execution: %v\n%s", k, w.err, w.stderr)
			continue
		}
		site := "fatal"
		if i := strings.Index(w2.stderr, "fatal error:"); i >= 0 {
			line := w2.stderr[i:]
			if j := strings.IndexByte(line, '\n'); j >= 0 {
				line = line[:j]
			}
			site = strings.TrimSpace(line)
		}
		c.Viol = append(c.Viol, Violation{Property: ck.ID, Clause: "crash", Site: site, Detail: "worker process died: " + tail(w2.stderr, 400), Case: cs})
		c.ViolN++
		c.CapHit(fmt.Sprintf("worker %d crashed; its shard is incomplete", k))
	}

	// classify violations
	sort.SliceStable(c.Viol, func(i, j int) bool {
		a, b := &c.Viol[i], &c.Viol[j]
		if a.Clause != b.Clause {
			return a.Clause < b.Clause
		}
		if a.Site != b.Site {
			return a.Site < b.Site
		}
		if len(a.Case.Input) != len(b.Case.Input) {
			return len(a.Case.Input) < len(b.Case.Input)
		}
		return a.Case.Input < b.Case.Input
	})
	known := LoadKnown(filepath.Join(VerifDir, "known_findings.txt"), ck.ID)
	perKey := map[string]int{}
	seen := map[string]bool{}
	var final []Violation
	for i := range c.Viol {
		v := c.Viol[i]
		key, limit := v.Clause+"|"+v.Site, 4
		if kf := known.Match(&v); kf != "" {
			// a listed finding has its own key: it must not use up the room of other violations of the same clause
			key, limit = "known|"+kf, 1
		}
		if perKey[key] >= limit {
			continue
		}
		perKey[key]++
		if v.Clause != "crash" && v.Clause != "hang" && v.Clause != "memory" {
			always, never := c.Reproduce(&v, 5)
			if !always {
				if never {
					internal = fmt.Sprintf("violation %s on %s %s did not reproduce in the driver (0/5)", v.Clause, v.Case.Space, v.Case.Input)
				} else {
					internal = fmt.Sprintf("violation %s on %s %s is nondeterministic", v.Clause, v.Case.Space, v.Case.Input)
				}
				continue
			}
			c.MinimiseViolation(&v)
		}
		if seen[v.Sig()] {
			continue
		}
		seen[v.Sig()] = true
		final = append(final, v)
	}

	exit := 0
	reported := 0
	os.MkdirAll(filepath.Join(VerifDir, "replays"), 0o755)
	var knownHit []string
	for _, v := range final {
		if kf := known.Match(&v); kf != "" {
			dup := false
			for _, o := range knownHit {
				dup = dup || o == kf
			}
			if !dup {
				fmt.Printf("KNOWN-FINDING: %s\n", kf)
				knownHit = append(knownHit, kf)
			}
			continue
		}
		b, _ := json.MarshalIndent(v, "", " ")
		p := filepath.Join(VerifDir, "replays", fmt.Sprintf("%s-%016x.json", ck.ID, Hash64([]byte(v.Sig()))))
		os.WriteFile(p, b, 0o644)
		fmt.Printf("  clause=%s site=%s space=%s input=%s args=%s\n    %s\n", v.Clause, v.Site, v.Case.Space, v.Case.Input, argString(v.Case.Args), v.Detail)
		fmt.Printf("VIOLATION property=%s replay=%s\n", ck.ID, p)
		reported++
		exit = 1
	}

	cov := map[string]interface{}{}
	cov["evaluations"] = c.Counters["exec"]
	cov["distinct_nontrivial"] = c.Counters["distinct_nontrivial"]
	cov["rule"] = ck.Rule
	samples := make([]interface{}, 0)
	for _, s := range c.Samples {
		samples = append(samples, s)
	}
	cov["samples"] = samples
	cov["counters"] = c.Counters
	cov["distinct_observations"] = len(c.Obs)
	cov["abstract_states"] = len(c.States)
	cov["abstract_transitions"] = len(c.Trans)
	if len(c.States) > 0 && len(c.States) <= 400 {
		cov["abstract_state_list"] = SortedKeys(c.States)
	}
	cov["caps_hit"] = c.CapsHit
	cov["notes"] = c.Notes
	cov["exhaustive"] = len(c.CapsHit) == 0
	cov["workers"] = n
	cov["violating_executions"] = c.ViolN
	cov["known_findings_hit"] = knownHit
	if ck.Finish != nil {
		if msg := ck.Finish(c, cov); msg != "" {
			internal = msg
		}
	}
	ev := &Evidence{PropertyID: ck.ID, Tier: tier, Seed: seed, Level: ck.Level, Coverage: cov,
		Assumptions: ck.Assumptions, WallS: time.Since(t0).Seconds(), Violations: reported}
	if ev.Assumptions == nil {
		ev.Assumptions = []string{}
	}
	if err := WriteEvidence(evdir, ev); err != nil {
		fmt.Fprintln(os.Stderr, "evidence:", err)
		return 2
	}
	fmt.Printf("%s %s: executions=%d distinct_nontrivial=%d observations=%d states=%d transitions=%d violations=%d known=%d exhaustive=%v wall=%.1fs\n",
		ck.ID, tier, c.Counters["exec"], c.Counters["distinct_nontrivial"], len(c.Obs), len(c.States), len(c.Trans), reported, len(knownHit), cov["exhaustive"], time.Since(t0).Seconds())
	if internal != "" {
		fmt.Fprintln(os.Stderr, "INTERNAL-ERROR (not a violation):", internal)
		if exit == 0 {
			return 2
		}
	}
	return exit
}

func tail(s string, n int) string {
	if len(s) > n {
		return s[len(s)-n:]
	}
	return s
}

// ---- known findings ----

type Known struct {
	entries []map[string]string
	text    []string
}

// LoadKnown parses /verif/known_findings.txt. Lines:
//
//	finding: property=<id> clause=<c> site=<s> space=<sp> input=<quoted> — text
//	fixed: property=<id> <commit> text      (matches nothing)
func LoadKnown(path, prop string) *Known {
	k := &Known{}
	f, err := os.Open(path)
	if err != nil {
		return k
	}
	defer f.Close()
	sc := bufio.NewScanner(f)
	for sc.Scan() {
		line := strings.TrimSpace(sc.Text())
		if !strings.HasPrefix(line, "finding:") {
			continue
		}
		rest := strings.TrimSpace(strings.TrimPrefix(line, "finding:"))
		desc := ""
		if i := strings.Index(rest, " — "); i >= 0 {
			desc = rest[i+len(" — "):]
			rest = rest[:i]
		}
		m := parseKV(rest)
		if m["property"] != prop {
			continue
		}
		k.entries = append(k.entries, m)
		k.text = append(k.text, rest+" — "+desc)
	}
	return k
}

// parseKV splits `a=b c="quoted \" x" d=e` into a map.
func parseKV(s string) map[string]string {
	m := map[string]string{}
	i := 0
	for i < len(s) {
		for i < len(s) && s[i] == ' ' {
			i++
		}
		j := strings.IndexByte(s[i:], '=')
		if j < 0 {
			break
		}
		key := s[i : i+j]
		i += j + 1
		var val string
		if i < len(s) && s[i] == '"' {
			e := i + 1
			for e < len(s) {
				if s[e] == '\\' {
					e += 2
					continue
				}
				if s[e] == '"' {
					break
				}
				e++
			}
			if e >= len(s) {
				e = len(s) - 1
			}
			val = s[i : e+1]
			i = e + 1
		} else {
			e := strings.IndexByte(s[i:], ' ')
			if e < 0 {
				e = len(s) - i
			}
			val = s[i : i+e]
			i += e
		}
		m[key] = val
	}
	return m
}

func (k *Known) Match(v *Violation) string {
	for i, m := range k.entries {
		if m["clause"] != v.Clause {
			continue
		}
		if s, ok := m["site"]; ok && s != v.Site {
			continue
		}
		if s, ok := m["space"]; ok && s != v.Case.Space {
			continue
		}
		if s, ok := m["input"]; ok && s != v.Case.Input {
			continue
		}
		if s, ok := m["args"]; ok && s != argString(v.Case.Args) {
			continue
		}
		return k.text[i]
	}
	return ""
}
