// Package engine is the shared machinery of the bounded-exhaustive checks:
// sharded enumeration over worker sub-processes, violation collection with
// deterministic re-execution and minimisation, known-finding matching, and
// evidence files.
package engine

import (
	"encoding/json"
	"fmt"
	"hash/fnv"
	"os"
	"path/filepath"
	"runtime"
	"runtime/debug"
	"sort"
	"strings"
	"sync/atomic"
	"time"
)

// Case is one replayable execution: the space (harness) it belongs to, the
// input bytes and optional named arguments.
type Case struct {
	Space string            `json:"space"`
	Input string            `json:"input"` // Go-quoted (strconv.Quote) form of the bytes
	Args  map[string]string `json:"args,omitempty"`
}

// Violation is a failed oracle on one case.
type Violation struct {
	Property string `json:"property"`
	Clause   string `json:"clause"`
	Site     string `json:"site,omitempty"`
	Detail   string `json:"detail"`
	Case     Case   `json:"case"`
}

func (v *Violation) Sig() string {
	return v.Clause + "|" + v.Site + "|" + v.Case.Space + "|" + v.Case.Input + "|" + argString(v.Case.Args)
}

func argString(m map[string]string) string {
	if len(m) == 0 {
		return ""
	}
	ks := make([]string, 0, len(m))
	for k := range m {
		ks = append(ks, k)
	}
	sort.Strings(ks)
	var sb strings.Builder
	for _, k := range ks {
		fmt.Fprintf(&sb, "%s=%s;", k, m[k])
	}
	return sb.String()
}

// RunFunc executes one case of a space and reports failures through c.Fail.
type RunFunc func(c *Ctx, in []byte, args map[string]string)

// Space is a named harness.
type Space struct {
	Name string
	Run  RunFunc
	// NoMinimise disables byte-deletion minimisation (e.g. operation strings
	// with internal structure use their own minimiser).
	NoMinimise bool
	// Minimise optionally proposes smaller candidates for an input.
	Minimise func(in []byte) [][]byte
}

// Ctx is the per-worker state of a check run.
type Ctx struct {
	known   *Known
	Prop    string
	Tier    string
	Shard   int
	NShards int
	Seed    int64

	spaces map[string]*Space

	Counters map[string]int64
	States   map[string]struct{}
	Trans    map[string]struct{}
	Obs      map[uint64]struct{}
	Samples  []string
	Notes    []string
	CapsHit  []string
	Viol     []Violation
	violBy   map[string]int
	ViolN    int64

	// current execution, for the watchdog and for panics
	curSpace  *Space
	curIn     []byte
	curOrig   []byte
	curArgs   map[string]string
	execs     int64
	failedNow bool
	collect   bool // when false (replay/minimise mode) Fail only sets failedNow/lastFail
	lastFail  *Violation
	fails     map[string]*Violation // non-collect mode: clause|site -> first failure

	Deadline time.Time
	tracef   *os.File
}

const maxViolPerKey = 6
const maxViolTotal = 400

func NewCtx(prop, tier string, shard, nshards int) *Ctx {
	return &Ctx{Prop: prop, Tier: tier, Shard: shard, NShards: nshards,
		spaces:   map[string]*Space{},
		Counters: map[string]int64{}, States: map[string]struct{}{}, Trans: map[string]struct{}{},
		Obs: map[uint64]struct{}{}, violBy: map[string]int{}, collect: true}
}

func (c *Ctx) Thorough() bool { return c.Tier == "thorough" }

// Pick returns q for the quick tier and t for the thorough tier.
func (c *Ctx) Pick(q, t int) int {
	if c.Thorough() {
		return t
	}
	return q
}

func (c *Ctx) Register(s *Space) *Space {
	c.spaces[s.Name] = s
	return s
}

func (c *Ctx) SpaceByName(n string) *Space { return c.spaces[n] }

func (c *Ctx) Count(k string, n int64) { c.Counters[k] += n }

func (c *Ctx) State(s string) { c.States[s] = struct{}{} }
func (c *Ctx) Transition(s string) {
	c.Trans[s] = struct{}{}
}

// Observe records the hash of an observation (vacuity indicator).
func (c *Ctx) Observe(h uint64) {
	if len(c.Obs) < 1<<21 {
		c.Obs[h] = struct{}{}
	}
}

func Hash64(b []byte) uint64 {
	h := fnv.New64a()
	h.Write(b)
	return h.Sum64()
}

func (c *Ctx) Sample(s string) {
	if len(c.Samples) < 6 {
		c.Samples = append(c.Samples, s)
	}
}

func (c *Ctx) Note(s string) { c.Notes = append(c.Notes, s) }

func (c *Ctx) CapHit(s string) { c.CapsHit = append(c.CapsHit, s) }

// Expired reports whether the safety deadline has passed (checked between levels).
func (c *Ctx) Expired() bool {
	return !c.Deadline.IsZero() && time.Now().After(c.Deadline)
}

// Mine tells whether work item number i belongs to this shard.
func (c *Ctx) Mine(i int) bool {
	if c.NShards <= 1 {
		return true
	}
	return i%c.NShards == c.Shard
}

// Fail reports an oracle failure for the case currently executing.
func (c *Ctx) Fail(clause, detail string) {
	c.failWithSite(clause, "", detail)
}

func (c *Ctx) failWithSite(clause, site, detail string) {
	c.failedNow = true
	v := Violation{Property: c.Prop, Clause: clause, Site: site, Detail: detail}
	if c.curSpace != nil {
		v.Case = Case{Space: c.curSpace.Name, Input: quote(c.curIn), Args: copyArgs(c.curArgs)}
	}
	if len(v.Detail) > 600 {
		v.Detail = v.Detail[:600] + "…"
	}
	c.lastFail = &v
	if !c.collect {
		if c.fails != nil {
			if _, ok := c.fails[clause+"|"+site]; !ok {
				c.fails[clause+"|"+site] = &v
			}
		}
		return
	}
	c.ViolN++
	key := clause + "|" + site
	limit := maxViolPerKey
	if c.known == nil && c.Prop != "" {
		c.known = LoadKnown(filepath.Join(VerifDir, "known_findings.txt"), c.Prop)
	}
	if c.known != nil {
		// a listed finding is counted under its own key, so that it cannot use up the room of other violations
		// that happen to have the same clause name
		if t := c.known.Match(&v); t != "" {
			key, limit = "known|"+t, 2
		}
	}
	if c.violBy[key] >= limit || len(c.Viol) >= maxViolTotal {
		return
	}
	c.violBy[key]++
	c.Viol = append(c.Viol, v)
}

func copyArgs(m map[string]string) map[string]string {
	if m == nil {
		return nil
	}
	r := make(map[string]string, len(m))
	for k, v := range m {
		r[k] = v
	}
	return r
}

// Exec runs one case of a space under recover(); a panic is a violation of
// clause "panic" whose site is the first frame inside the library.
func (c *Ctx) Exec(s *Space, in []byte, args map[string]string) (failed bool) {
	c.curOrig = append(c.curOrig[:0], in...) // harnesses may rewrite the input in place
	c.curSpace, c.curIn, c.curArgs = s, c.curOrig, args
	c.failedNow = false
	atomic.AddInt64(&c.execs, 1)
	if c.tracef != nil {
		c.tracef.Truncate(0)
		c.tracef.Seek(0, 0)
		b, _ := json.Marshal(Case{Space: s.Name, Input: quote(in), Args: args})
		c.tracef.Write(b)
	}
	defer func() {
		if r := recover(); r != nil {
			site := panicSite()
			c.failWithSite("panic", site, fmt.Sprintf("panic: %v", r))
			failed = true
		}
	}()
	s.Run(c, in, args)
	return c.failedNow
}

func panicSite() string {
	pcs := make([]uintptr, 64)
	n := runtime.Callers(3, pcs)
	frames := runtime.CallersFrames(pcs[:n])
	for {
		f, more := frames.Next()
		if strings.Contains(f.Function, "github.com/tdewolff/parse/v2") {
			fn := f.Function[strings.Index(f.Function, "parse/v2")+len("parse/v2"):]
			fn = strings.TrimPrefix(fn, "/")
			fn = strings.TrimPrefix(fn, ".")
			return fn
		}
		if !more {
			break
		}
	}
	return "harness"
}

// Watchdog aborts the worker when a single execution does not finish within
// a very generous bound (executions take microseconds) or memory explodes;
// the current case is reported as a violation of clause "hang"/"memory".
func (c *Ctx) Watchdog(onAbort func()) {
	go func() {
		var last int64 = -1
		stuck := 0
		for {
			time.Sleep(5 * time.Second)
			cur := atomic.LoadInt64(&c.execs)
			if cur == last && c.curSpace != nil {
				stuck++
			} else {
				stuck = 0
			}
			last = cur
			var ms runtime.MemStats
			runtime.ReadMemStats(&ms)
			if stuck >= 150 || ms.HeapAlloc > 6<<30 { // 750 s in one execution, or 6 GB heap
				clause := "hang"
				if stuck < 150 {
					clause = "memory"
				}
				c.collect = true
				c.failWithSite(clause, "watchdog", fmt.Sprintf("one execution ran for more than %ds or heap=%dMB", stuck*5, ms.HeapAlloc>>20))
				onAbort()
				os.Exit(3)
			}
		}
	}()
}

func init() {
	debug.SetMaxStack(256 << 20)
}

// ---- replay / determinism / minimisation (driver side) ----

// Reproduce re-executes a violation's case n times and reports whether the
// same clause fails every time; a mix of outcomes is harness nondeterminism.
func (c *Ctx) Reproduce(v *Violation, n int) (always, never bool) {
	s := c.spaces[v.Case.Space]
	if s == nil {
		return false, false
	}
	in := Unquote(v.Case.Input)
	hits := 0
	for i := 0; i < n; i++ {
		if c.failsSame(s, in, v.Case.Args, v.Clause, v.Site) {
			hits++
		}
	}
	return hits == n, hits == 0
}

func (c *Ctx) failsSame(s *Space, in []byte, args map[string]string, clause, site string) bool {
	old := c.collect
	c.collect = false
	c.lastFail = nil
	c.fails = map[string]*Violation{}
	defer func() { c.collect = old }()
	cp := append(make([]byte, 0, len(in)+1), in...)
	c.Exec(s, cp, args)
	c.lastFail = c.fails[clause+"|"+site]
	return c.lastFail != nil
}

// MinimiseViolation shrinks the input by deleting bytes (and space-specific
// candidates) while the same clause at the same site still fails.
func (c *Ctx) MinimiseViolation(v *Violation) {
	s := c.spaces[v.Case.Space]
	if s == nil || s.NoMinimise {
		return
	}
	in := Unquote(v.Case.Input)
	budget := 4000
	if len(in) > 2000 {
		budget = 200 // long inputs (nesting, repetition families) are not worth thousands of re-executions
	}
	changed := true
	for changed && budget > 0 {
		changed = false
		try := func(cand []byte) bool {
			budget--
			if budget <= 0 {
				return true
			}
			if len(cand) < len(in) && c.failsSame(s, cand, v.Case.Args, v.Clause, v.Site) {
				in = cand
				changed = true
				return true
			}
			return false
		}
		if s.Minimise != nil {
			for _, cand := range s.Minimise(in) {
				if try(cand) {
					break
				}
			}
		} else {
			// candidates are produced one at a time: a long input has a great many of them
		outer:
			for n := len(in) / 2; n >= 1; n /= 2 {
				for i := 0; i+n <= len(in); i += n {
					if try(append(append([]byte{}, in[:i]...), in[i+n:]...)) {
						break outer
					}
				}
			}
		}
	}
	// final run to refresh the detail text
	if c.failsSame(s, in, v.Case.Args, v.Clause, v.Site) && c.lastFail != nil {
		v.Detail = c.lastFail.Detail
		v.Case.Input = quote(in)
	}
}

// ---- worker result ----

type Result struct {
	Shard    int              `json:"shard"`
	Counters map[string]int64 `json:"counters"`
	States   []string         `json:"states"`
	Trans    []string         `json:"trans"`
	Obs      []uint64         `json:"obs"`
	Samples  []string         `json:"samples"`
	Notes    []string         `json:"notes"`
	CapsHit  []string         `json:"caps_hit"`
	Viol     []Violation      `json:"viol"`
	ViolN    int64            `json:"viol_n"`
	Done     bool             `json:"done"`
}

func (c *Ctx) Result(done bool) *Result {
	r := &Result{Shard: c.Shard, Counters: c.Counters, Samples: c.Samples, Notes: c.Notes, CapsHit: c.CapsHit, Viol: c.Viol, ViolN: c.ViolN, Done: done}
	for s := range c.States {
		r.States = append(r.States, s)
	}
	for s := range c.Trans {
		r.Trans = append(r.Trans, s)
	}
	for h := range c.Obs {
		r.Obs = append(r.Obs, h)
	}
	return r
}

func (c *Ctx) WriteResult(path string, done bool) {
	b, _ := json.Marshal(c.Result(done))
	os.WriteFile(path, b, 0o644)
}

func (c *Ctx) SetTrace(path string) {
	f, err := os.Create(path)
	if err == nil {
		c.tracef = f
	}
}

// Merge folds a worker result into the driver context.
func (c *Ctx) Merge(r *Result) {
	for k, v := range r.Counters {
		if strings.HasPrefix(k, "max:") {
			if v > c.Counters[k] {
				c.Counters[k] = v
			}
		} else if strings.HasPrefix(k, "min:") {
			if cur, ok := c.Counters[k]; !ok || v < cur {
				c.Counters[k] = v
			}
		} else {
			c.Counters[k] += v
		}
	}
	for _, s := range r.States {
		c.States[s] = struct{}{}
	}
	for _, s := range r.Trans {
		c.Trans[s] = struct{}{}
	}
	for _, h := range r.Obs {
		c.Obs[h] = struct{}{}
	}
	for _, s := range r.Samples {
		if len(c.Samples) < 12 {
			c.Samples = append(c.Samples, s)
		}
	}
	for _, n := range r.Notes {
		dup := false
		for _, o := range c.Notes {
			if o == n {
				dup = true
			}
		}
		if !dup {
			c.Notes = append(c.Notes, n)
		}
	}
	for _, n := range r.CapsHit {
		dup := false
		for _, o := range c.CapsHit {
			if o == n {
				dup = true
			}
		}
		if !dup {
			c.CapsHit = append(c.CapsHit, n)
		}
	}
	c.Viol = append(c.Viol, r.Viol...)
	c.ViolN += r.ViolN
}

// ---- evidence ----

type Evidence struct {
	PropertyID  string                 `json:"property_id"`
	Tier        string                 `json:"tier"`
	Seed        int64                  `json:"seed"`
	Level       string                 `json:"level"`
	Coverage    map[string]interface{} `json:"coverage"`
	Assumptions []string               `json:"assumptions"`
	WallS       float64                `json:"wall_s"`
	Violations  int                    `json:"violations"`
}

func WriteEvidence(dir string, e *Evidence) error {
	os.MkdirAll(dir, 0o755)
	b, err := json.MarshalIndent(e, "", " ")
	if err != nil {
		return err
	}
	return os.WriteFile(filepath.Join(dir, e.PropertyID+".json"), append(b, '\n'), 0o644)
}

func SortedKeys(m map[string]struct{}) []string {
	r := make([]string, 0, len(m))
	for k := range m {
		r = append(r, k)
	}
	sort.Strings(r)
	return r
}
