//go:build verif

// Package vatomic replaces "sync/atomic" in the instrumented library build.
package vatomic

import (
	"unsafe"

	rt "github.com/tdewolff/parse/v2/verifrt"
)

func op(addr unsafe.Pointer) {
	rt.SyncPoint()
	c := rt.ClockOf(addr)
	rt.Acquire(c)
	rt.Release(c)
	rt.AtomicAt(addr, 8) // the caller modifies the word right after this returns
}

func LoadInt32(p *int32) int32     { op(unsafe.Pointer(p)); return *p }
func LoadInt64(p *int64) int64     { op(unsafe.Pointer(p)); return *p }
func LoadUint32(p *uint32) uint32  { op(unsafe.Pointer(p)); return *p }
func LoadUint64(p *uint64) uint64  { op(unsafe.Pointer(p)); return *p }
func StoreInt32(p *int32, v int32) { op(unsafe.Pointer(p)); *p = v }
func StoreInt64(p *int64, v int64) { op(unsafe.Pointer(p)); *p = v }
func StoreUint32(p *uint32, v uint32) {
	op(unsafe.Pointer(p))
	*p = v
}
func StoreUint64(p *uint64, v uint64) {
	op(unsafe.Pointer(p))
	*p = v
}
func AddInt32(p *int32, d int32) int32     { op(unsafe.Pointer(p)); *p += d; return *p }
func AddInt64(p *int64, d int64) int64     { op(unsafe.Pointer(p)); *p += d; return *p }
func AddUint32(p *uint32, d uint32) uint32 { op(unsafe.Pointer(p)); *p += d; return *p }
func AddUint64(p *uint64, d uint64) uint64 { op(unsafe.Pointer(p)); *p += d; return *p }
func CompareAndSwapInt32(p *int32, o, n int32) bool {
	op(unsafe.Pointer(p))
	if *p == o {
		*p = n
		return true
	}
	return false
}
func CompareAndSwapInt64(p *int64, o, n int64) bool {
	op(unsafe.Pointer(p))
	if *p == o {
		*p = n
		return true
	}
	return false
}
func CompareAndSwapUint32(p *uint32, o, n uint32) bool {
	op(unsafe.Pointer(p))
	if *p == o {
		*p = n
		return true
	}
	return false
}
func SwapInt32(p *int32, n int32) int32 { op(unsafe.Pointer(p)); o := *p; *p = n; return o }
func SwapInt64(p *int64, n int64) int64 { op(unsafe.Pointer(p)); o := *p; *p = n; return o }

type Int32 struct{ v int32 }

func (x *Int32) Load() int32                    { return LoadInt32(&x.v) }
func (x *Int32) Store(v int32)                  { StoreInt32(&x.v, v) }
func (x *Int32) Add(d int32) int32              { return AddInt32(&x.v, d) }
func (x *Int32) CompareAndSwap(o, n int32) bool { return CompareAndSwapInt32(&x.v, o, n) }

type Int64 struct{ v int64 }

func (x *Int64) Load() int64                    { return LoadInt64(&x.v) }
func (x *Int64) Store(v int64)                  { StoreInt64(&x.v, v) }
func (x *Int64) Add(d int64) int64              { return AddInt64(&x.v, d) }
func (x *Int64) CompareAndSwap(o, n int64) bool { return CompareAndSwapInt64(&x.v, o, n) }

type Uint32 struct{ v uint32 }

func (x *Uint32) Load() uint32        { return LoadUint32(&x.v) }
func (x *Uint32) Store(v uint32)      { StoreUint32(&x.v, v) }
func (x *Uint32) Add(d uint32) uint32 { return AddUint32(&x.v, d) }

type Uint64 struct{ v uint64 }

func (x *Uint64) Load() uint64        { return LoadUint64(&x.v) }
func (x *Uint64) Store(v uint64)      { StoreUint64(&x.v, v) }
func (x *Uint64) Add(d uint64) uint64 { return AddUint64(&x.v, d) }

type Bool struct{ v bool }

func (x *Bool) Load() bool   { op(unsafe.Pointer(x)); return x.v }
func (x *Bool) Store(v bool) { op(unsafe.Pointer(x)); x.v = v }

type Value struct{ v any }

func (x *Value) Load() any   { op(unsafe.Pointer(x)); return x.v }
func (x *Value) Store(v any) { op(unsafe.Pointer(x)); x.v = v }

type Pointer[T any] struct{ p *T }

func (x *Pointer[T]) Load() *T   { op(unsafe.Pointer(x)); return x.p }
func (x *Pointer[T]) Store(p *T) { op(unsafe.Pointer(x)); x.p = p }
func (x *Pointer[T]) CompareAndSwap(o, n *T) bool {
	op(unsafe.Pointer(x))
	if x.p == o {
		x.p = n
		return true
	}
	return false
}
