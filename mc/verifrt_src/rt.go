//go:build verif

// Package verifrt is the runtime of the C20 explorer. It is NOT part of the
// library: it is added to the build as a virtual package through
// `go build -overlay` together with rewritten copies of the library sources in
// which every access to a package-level variable goes through Acc and every
// sync / sync/atomic operation goes through the shims below.
package verifrt

import (
	"fmt"
	"hash/fnv"
	"reflect"
	"sort"
	"strings"
	"unsafe"
)

const (
	Read  = 0
	Write = 1
)

// ---- registry of package-level variables (for the deep content hash) ----

type regVar struct {
	name string
	ptr  reflect.Value
}

var registry []regVar
var idNames = map[int]string{}

// Register records the address of a package-level variable.
func Register(name string, p interface{}) {
	registry = append(registry, regVar{name, reflect.ValueOf(p)})
}

// Name records the name of an access id.
func Name(id int, name string) { idNames[id] = name }

func VarName(id int) string {
	if n, ok := idNames[id]; ok {
		return n
	}
	return fmt.Sprintf("var#%d", id)
}

func NumRegistered() int { return len(registry) }

// GlobalHash returns a deep content hash of every registered variable and, per variable, its own hash.
func GlobalHash() (uint64, map[string]uint64) {
	per := map[string]uint64{}
	total := fnv.New64a()
	vars := append([]regVar{}, registry...)
	sort.Slice(vars, func(i, j int) bool { return vars[i].name < vars[j].name })
	for _, rv := range vars {
		h := fnv.New64a()
		seen := map[uintptr]bool{}
		hashValue(h, rv.ptr.Elem(), seen, 0)
		per[rv.name] = h.Sum64()
		fmt.Fprintf(total, "%s=%x;", rv.name, h.Sum64())
	}
	return total.Sum64(), per
}

type hasher interface{ Write([]byte) (int, error) }

func hashValue(h hasher, v reflect.Value, seen map[uintptr]bool, depth int) {
	if depth > 64 {
		return
	}
	switch v.Kind() {
	case reflect.Bool:
		fmt.Fprintf(h, "b%v", v.Bool())
	case reflect.Int, reflect.Int8, reflect.Int16, reflect.Int32, reflect.Int64:
		fmt.Fprintf(h, "i%d", v.Int())
	case reflect.Uint, reflect.Uint8, reflect.Uint16, reflect.Uint32, reflect.Uint64, reflect.Uintptr:
		fmt.Fprintf(h, "u%d", v.Uint())
	case reflect.Float32, reflect.Float64:
		fmt.Fprintf(h, "f%v", v.Float())
	case reflect.String:
		fmt.Fprintf(h, "s%d:%s", v.Len(), v.String())
	case reflect.Slice:
		if v.IsNil() {
			h.Write([]byte("nil"))
			return
		}
		// hash up to the capacity: a write beyond len through an alias is a change too
		full := v
		if v.Cap() > v.Len() && v.CanAddr() || v.Cap() > v.Len() {
			full = v.Slice3(0, v.Cap(), v.Cap())
		}
		fmt.Fprintf(h, "[%d/%d:", v.Len(), v.Cap())
		if v.Type().Elem().Kind() == reflect.Uint8 {
			b := make([]byte, full.Len())
			for i := range b {
				b[i] = byte(full.Index(i).Uint())
			}
			h.Write(b)
		} else {
			for i := 0; i < full.Len(); i++ {
				hashValue(h, full.Index(i), seen, depth+1)
			}
		}
		h.Write([]byte("]"))
	case reflect.Array:
		for i := 0; i < v.Len(); i++ {
			hashValue(h, v.Index(i), seen, depth+1)
		}
	case reflect.Map:
		if v.IsNil() {
			h.Write([]byte("nil"))
			return
		}
		type kv struct{ k, v string }
		var items []string
		iter := v.MapRange()
		for iter.Next() {
			hk, hv := fnv.New64a(), fnv.New64a()
			hashValue(hk, iter.Key(), seen, depth+1)
			hashValue(hv, iter.Value(), seen, depth+1)
			items = append(items, fmt.Sprintf("%x>%x", hk.Sum64(), hv.Sum64()))
		}
		sort.Strings(items)
		fmt.Fprintf(h, "m%d{%s}", v.Len(), strings.Join(items, ","))
	case reflect.Ptr:
		if v.IsNil() {
			h.Write([]byte("nil"))
			return
		}
		p := v.Pointer()
		if seen[p] {
			h.Write([]byte("cycle"))
			return
		}
		seen[p] = true
		hashValue(h, v.Elem(), seen, depth+1)
	case reflect.Interface:
		if v.IsNil() {
			h.Write([]byte("nil"))
			return
		}
		fmt.Fprintf(h, "I%s:", v.Elem().Type().String())
		hashValue(h, v.Elem(), seen, depth+1)
	case reflect.Struct:
		for i := 0; i < v.NumField(); i++ {
			f := v.Field(i)
			if !f.CanInterface() && f.CanAddr() {
				f = reflect.NewAt(f.Type(), unsafe.Pointer(f.UnsafeAddr())).Elem()
			}
			hashValue(h, f, seen, depth+1)
		}
	case reflect.Func:
		if v.IsNil() {
			h.Write([]byte("nilfunc"))
		} else {
			h.Write([]byte("func"))
		}
	case reflect.Chan:
		if v.IsNil() {
			h.Write([]byte("nilchan"))
			return
		}
		items := ChanContents(v)
		fmt.Fprintf(h, "chan%d[", len(items))
		for _, it := range items {
			hashValue(h, it, seen, depth+1)
		}
		h.Write([]byte("]"))
	case reflect.UnsafePointer:
		fmt.Fprintf(h, "p%x", v.Pointer())
	}
}
