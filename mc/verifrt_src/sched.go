//go:build verif

package verifrt

import (
	"fmt"
	"sort"
	"unsafe"
)

// Access kinds passed by the instrumented code.
const (
	AtomicWrite = 2 // &v handed to a sync/atomic read-modify-write or store
	AtomicRead  = 3 // &v handed to an atomic load
	Addr        = 4 // address taken: a read here; writes through it are found by comparing memory
)

// ---- cooperative scheduler with deviation (preemption) bounded DFS ----

type Thread struct {
	ID      int
	wake    chan struct{}
	done    bool
	blocked func() bool // non-nil while waiting; returns true while still blocked
	vc      []int
}

type point struct {
	enabled      int  // number of enabled threads (canonical order: running thread first if enabled)
	runningFirst bool // the previously running thread is still enabled (switching away is a preemption)
}

type varState struct {
	wTid, wClk int
	wHow       string
	reads      map[int]int
	atomW      map[int]int
	atomR      map[int]int
}

type Execution struct {
	Choices  []int
	Points   []point
	Races    []string
	RaceVars []string
	Deadlock bool
	Accesses int               // instrumented global accesses
	Writes   map[string]int    // variable -> number of writes (by name, atomically, or found by memory comparison)
	Touched  []map[string]bool // variables touched per thread
	NewW     []string          // written variables that were not scheduling points in this execution
	SyncOps  int
	Steps    int
	Panics   []string
}

type scheduler struct {
	active  bool
	threads []*Thread
	cur     *Thread
	back    chan struct{}
	exec    *Execution
	w       map[string]bool // variables whose accesses are scheduling points
	vars    map[string]*varState
	clocks  map[unsafe.Pointer]*[]int
	profile bool // solo profiling: no scheduling, just record
	// words the running thread has operated on atomically since the last memory comparison
	pending [][2]uintptr
}

var sch scheduler

// Acc is called for every use of a package-level variable in the instrumented library.
func Acc[T any](id int, kind int, p *T) *T {
	if sch.active {
		onAccess(id, kind)
	}
	return p
}

func onAccess(id int, kind int) {
	t := sch.cur
	e := sch.exec
	e.Accesses++
	if t == nil {
		return
	}
	name := VarName(id)
	e.Touched[t.ID][name] = true
	if sch.w[name] && !sch.profile {
		yield() // scheduling point before the access
	}
	record(t, name, kind, "")
}

func record(t *Thread, name string, kind int, how string) {
	e := sch.exec
	vs := sch.vars[name]
	if vs == nil {
		vs = &varState{wTid: -1, reads: map[int]int{}, atomW: map[int]int{}, atomR: map[int]int{}}
		sch.vars[name] = vs
	}
	race := func(what string, other int, otherWhat string) {
		e.Races = append(e.Races, fmt.Sprintf("%s of %s by goroutine %d is not ordered with %s by goroutine %d", what, name, t.ID, otherWhat, other))
		e.RaceVars = append(e.RaceVars, name)
	}
	unordered := func(u, clk int) bool { return u != t.ID && clk > t.vc[u] }
	switch kind {
	case Write:
		e.Writes[name]++
		if !sch.w[name] && !sch.profile {
			e.NewW = append(e.NewW, name)
		}
		what := "write" + how
		if vs.wTid >= 0 && unordered(vs.wTid, vs.wClk) {
			race(what, vs.wTid, "a write"+vs.wHow)
		}
		for u, clk := range vs.reads {
			if unordered(u, clk) {
				race(what, u, "a read")
			}
		}
		for u, clk := range vs.atomW {
			if unordered(u, clk) {
				race(what, u, "an atomic write")
			}
		}
		for u, clk := range vs.atomR {
			if unordered(u, clk) {
				race(what, u, "an atomic read")
			}
		}
		vs.wTid, vs.wClk, vs.wHow = t.ID, t.vc[t.ID], how
		vs.reads, vs.atomW, vs.atomR = map[int]int{}, map[int]int{}, map[int]int{}
	case Read, Addr:
		if vs.wTid >= 0 && unordered(vs.wTid, vs.wClk) {
			race("read", vs.wTid, "a write"+vs.wHow)
		}
		for u, clk := range vs.atomW {
			if unordered(u, clk) {
				race("read", u, "an atomic write")
			}
		}
		vs.reads[t.ID] = t.vc[t.ID]
	case AtomicWrite, AtomicRead:
		if kind == AtomicWrite {
			e.Writes[name]++
			if !sch.w[name] && !sch.profile {
				e.NewW = append(e.NewW, name)
			}
		}
		if vs.wTid >= 0 && unordered(vs.wTid, vs.wClk) {
			race("atomic access", vs.wTid, "a write"+vs.wHow)
		}
		if kind == AtomicWrite {
			for u, clk := range vs.reads {
				if unordered(u, clk) {
					race("atomic write", u, "a read")
				}
			}
			vs.atomW[t.ID] = t.vc[t.ID]
		} else {
			vs.atomR[t.ID] = t.vc[t.ID]
		}
	}
}

// yield hands control to the scheduler at a scheduling point.
func yield() {
	t := sch.cur
	sch.back <- struct{}{}
	<-t.wake
}

// Step is called by harness bodies between library calls; it is a scheduling point whenever the harness has any
// written variable at all (otherwise the goroutines share no mutable memory and all interleavings are equivalent).
func Step() {
	if sch.active && sch.cur != nil {
		sch.exec.Steps++
		if !sch.profile && len(sch.w) > 0 {
			yield()
		}
	}
}

// SyncPoint is called by the sync shims before every synchronisation operation.
func SyncPoint() {
	if !sch.active {
		return
	}
	sch.exec.SyncOps++
	if sch.cur != nil && !sch.profile {
		yield()
	}
}

// BlockUntil parks the current thread until cond() is true (cooperative blocking).
func BlockUntil(cond func() bool) {
	if !sch.active || sch.cur == nil || sch.profile {
		if !cond() {
			panic("verifrt: blocking synchronisation with nobody to wake it up (deadlock)")
		}
		return
	}
	for !cond() {
		t := sch.cur
		t.blocked = func() bool { return !cond() }
		yield()
		t.blocked = nil
	}
}

func Active() bool { return sch.active && sch.cur != nil }

// ClockOf returns the vector clock attached to a synchronisation object (kept outside the object so that the
// object's memory image only holds real state).
func ClockOf(p unsafe.Pointer) *[]int {
	if sch.clocks == nil {
		sch.clocks = map[unsafe.Pointer]*[]int{}
	}
	c := sch.clocks[p]
	if c == nil {
		c = new([]int)
		sch.clocks[p] = c
	}
	return c
}

// Release/Acquire implement happens-before edges through a synchronisation object's clock.
func Release(clk *[]int) {
	t := sch.cur
	if !sch.active || t == nil {
		return
	}
	// memory changes made so far belong before the release
	if !sch.profile && sch.exec != nil {
		attribute(t)
	}
	*clk = joinVC(*clk, t.vc)
	t.vc[t.ID]++
}

func Acquire(clk *[]int) {
	t := sch.cur
	if !sch.active || t == nil {
		return
	}
	t.vc = joinVC(t.vc, *clk)
}

func joinVC(a, b []int) []int {
	n := len(a)
	if len(b) > n {
		n = len(b)
	}
	r := make([]int, n)
	for i := range r {
		if i < len(a) {
			r[i] = a[i]
		}
		if i < len(b) && b[i] > r[i] {
			r[i] = b[i]
		}
	}
	return r
}

func newExecution(n int) *Execution {
	e := &Execution{Writes: map[string]int{}}
	for i := 0; i < n; i++ {
		e.Touched = append(e.Touched, map[string]bool{})
	}
	return e
}

// attribute turns memory changes found since the last hand-off into write events of the thread that just ran.
func attribute(t *Thread) {
	if snap == nil {
		return
	}
	for _, pr := range sch.pending {
		snap.rebase(pr[0], pr[1])
	}
	sch.pending = sch.pending[:0]
	for _, name := range snap.ModifiedSinceBase() {
		sch.exec.Touched[t.ID][name] = true
		record(t, name, Write, " to its memory")
	}
}

// AtomicAt is called by the sync/atomic shim before it operates on the word at p: the change it makes is
// synchronisation, not a plain write, and is taken out of the memory comparison.
func AtomicAt(p unsafe.Pointer, n uintptr) {
	if sch.active {
		sch.pending = append(sch.pending, [2]uintptr{uintptr(p), n})
	}
}

// RunOnce executes the bodies as cooperative threads following prefix, then default choices (0).
// The caller restores the snapshot before each call.
func RunOnce(bodies []func(), prefix []int, w map[string]bool) *Execution {
	n := len(bodies)
	e := newExecution(n)
	sch = scheduler{active: true, back: make(chan struct{}), exec: e, w: w, vars: map[string]*varState{}, clocks: map[unsafe.Pointer]*[]int{}}
	for i := 0; i < n; i++ {
		t := &Thread{ID: i, wake: make(chan struct{}), vc: make([]int, n)}
		t.vc[i] = 1
		sch.threads = append(sch.threads, t)
	}
	for i, b := range bodies {
		t, body := sch.threads[i], b
		go func() {
			<-t.wake
			defer func() {
				if r := recover(); r != nil {
					e.Panics = append(e.Panics, fmt.Sprintf("goroutine %d: %v", t.ID, r))
				}
				t.done = true
				sch.back <- struct{}{}
			}()
			body()
		}()
	}
	var running *Thread
	for {
		var en []*Thread
		if running != nil && !running.done && (running.blocked == nil || !running.blocked()) {
			en = append(en, running)
		}
		for _, t := range sch.threads {
			if t != running && !t.done && (t.blocked == nil || !t.blocked()) {
				en = append(en, t)
			}
		}
		if len(en) == 0 {
			for _, t := range sch.threads {
				if !t.done {
					e.Deadlock = true
				}
			}
			break
		}
		choice := 0
		i := len(e.Choices)
		if i < len(prefix) {
			choice = prefix[i]
			if choice >= len(en) {
				panic(fmt.Sprintf("verifrt: schedule prefix diverged at point %d: choice %d of %d enabled", i, choice, len(en)))
			}
		}
		e.Choices = append(e.Choices, choice)
		e.Points = append(e.Points, point{enabled: len(en), runningFirst: en[0] == running})
		running = en[choice]
		sch.cur = running
		running.wake <- struct{}{}
		<-sch.back
		attribute(running)
	}
	sch.active = false
	sch.cur = nil
	return e
}

// Profile runs one body alone without scheduling points and reports what it touched.
func Profile(body func()) *Execution {
	e := newExecution(1)
	t := &Thread{ID: 0, vc: []int{1}}
	sch = scheduler{active: true, exec: e, vars: map[string]*varState{}, clocks: map[unsafe.Pointer]*[]int{}, profile: true, threads: []*Thread{t}, cur: t}
	func() {
		defer func() {
			if r := recover(); r != nil {
				e.Panics = append(e.Panics, fmt.Sprint(r))
			}
		}()
		body()
	}()
	attribute(t)
	sch.active = false
	sch.cur = nil
	return e
}

// Explore runs all schedules of the bodies within the preemption bound and calls check for each execution;
// check returns false to stop. It returns the number of executions and whether the cap was hit.
func Explore(bodies func() []func(), w map[string]bool, bound int, maxExec int, check func(*Execution) bool) (int, bool) {
	count := 0
	capped, stop := false, false
	var rec func(prefix []int)
	rec = func(prefix []int) {
		if stop {
			return
		}
		if count >= maxExec {
			capped = true
			return
		}
		snap.Restore()
		x := RunOnce(bodies(), prefix, w)
		count++
		if !check(x) {
			stop = true
			return
		}
		pre := 0
		for i := 0; i < len(x.Points); i++ {
			p := x.Points[i]
			if i >= len(prefix) {
				for alt := 1; alt < p.enabled; alt++ {
					cost := pre
					if p.runningFirst {
						cost++
					}
					if cost > bound {
						continue
					}
					rec(append(append([]int{}, x.Choices[:i]...), alt))
				}
			}
			if p.runningFirst && x.Choices[i] != 0 {
				pre++
			}
		}
	}
	rec(nil)
	return count, capped
}

func SortedNames(m map[string]int) []string {
	var r []string
	for k := range m {
		r = append(r, k)
	}
	sort.Strings(r)
	return r
}
