//go:build verif

package verifrt

import (
	"bytes"
	"math"
	"reflect"
	"sort"
	"strings"
	"unsafe"
)

// ---- snapshot / diff / restore of all package-level state ----
//
// Every registered variable, and all memory reachable from it through slices
// (to their capacity), pointers, interfaces and map values, is recorded as a
// set of byte regions. Regions are compared with the snapshot to find out
// which variables were modified (also through an alias that never mentions
// the variable's name), and copied back to reset the process to the
// snapshot. Memory of the sync shims is restored but never reported as
// modified: it is synchronisation state, not data.

type region struct {
	owner string
	live  []byte
	orig  []byte // content at snapshot time (restore target)
	base  []byte // rolling baseline for write attribution
	segs  [][2]int
}

type mapRec struct {
	owner string
	m     reflect.Value
	keys  []reflect.Value
	vals  []reflect.Value
	shim  bool
	raw   [][]byte // shallow bytes of each value at snapshot time
	base  [2]uint64
}

// chanRec: a buffered channel reachable from a package-level variable (a free list, a queue): its content is state too.
type chanRec struct {
	owner string
	ch    reflect.Value
	saved []reflect.Value
}

// ChanContents returns the buffered elements of a channel in order (it takes them out and puts them back; only called
// while no goroutine of the harness runs).
func ChanContents(ch reflect.Value) []reflect.Value {
	var r []reflect.Value
	if ch.IsNil() || ch.Type().ChanDir() != reflect.BothDir {
		return nil
	}
	for {
		v, ok := ch.TryRecv()
		if !ok {
			break
		}
		r = append(r, v)
	}
	for _, v := range r {
		ch.TrySend(v)
	}
	return r
}

type Snapshot struct {
	regions []*region
	maps    []*mapRec
	chans   []*chanRec
	keep    []reflect.Value
	seen    map[uintptr]uintptr
	Bytes   int
}

var snap *Snapshot

func isShim(t reflect.Type) bool { return strings.Contains(t.PkgPath(), "/verifrt/") }

func (c *chanRec) same() bool {
	cur := ChanContents(c.ch)
	if len(cur) != len(c.saved) {
		return false
	}
	for i := range cur {
		if valSig(cur[i]) != valSig(c.saved[i]) {
			return false
		}
	}
	return true
}

func hasPointers(t reflect.Type) bool {
	switch t.Kind() {
	case reflect.Slice, reflect.Ptr, reflect.Map, reflect.Interface, reflect.Func, reflect.Chan, reflect.UnsafePointer, reflect.String:
		return true
	case reflect.Array:
		return t.Len() > 0 && hasPointers(t.Elem())
	case reflect.Struct:
		for i := 0; i < t.NumField(); i++ {
			if hasPointers(t.Field(i).Type) {
				return true
			}
		}
	}
	return false
}

func containsShim(t reflect.Type) bool {
	switch t.Kind() {
	case reflect.Array:
		return containsShim(t.Elem())
	case reflect.Struct:
		if isShim(t) {
			return true
		}
		for i := 0; i < t.NumField(); i++ {
			if containsShim(t.Field(i).Type) {
				return true
			}
		}
	}
	return false
}

// segments lists the byte ranges of a value of type t that are data (not shim state).
func segments(t reflect.Type, off int, out *[][2]int) {
	if !containsShim(t) {
		if t.Size() > 0 {
			if n := len(*out); n > 0 && (*out)[n-1][1] == off {
				(*out)[n-1][1] = off + int(t.Size())
			} else {
				*out = append(*out, [2]int{off, off + int(t.Size())})
			}
		}
		return
	}
	switch t.Kind() {
	case reflect.Array:
		for i := 0; i < t.Len(); i++ {
			segments(t.Elem(), off+i*int(t.Elem().Size()), out)
		}
	case reflect.Struct:
		if isShim(t) {
			return
		}
		for i := 0; i < t.NumField(); i++ {
			segments(t.Field(i).Type, off+int(t.Field(i).Offset), out)
		}
	}
}

func (s *Snapshot) addRegion(owner string, ptr uintptr, t reflect.Type, count int, shim bool) {
	size := int(t.Size()) * count
	if size == 0 || ptr == 0 {
		return
	}
	live := unsafe.Slice((*byte)(unsafe.Pointer(ptr)), size)
	r := &region{owner: owner, live: live, orig: append([]byte{}, live...), base: append([]byte{}, live...)}
	if shim {
		// reachable only through a sync shim: restored, never reported
	} else if containsShim(t) {
		for i := 0; i < count; i++ {
			segments(t, i*int(t.Size()), &r.segs)
		}
	} else {
		r.segs = [][2]int{{0, size}}
	}
	s.regions = append(s.regions, r)
	s.Bytes += size
}

func (s *Snapshot) walk(owner string, v reflect.Value, depth int, shim bool) {
	if depth > 40 {
		return
	}
	switch v.Kind() {
	case reflect.Slice:
		if v.IsNil() || v.Cap() == 0 {
			return
		}
		p := v.Pointer()
		if s.seen[p] >= uintptr(v.Cap()) {
			return
		}
		s.seen[p] = uintptr(v.Cap())
		full := v.Slice3(0, v.Cap(), v.Cap())
		s.addRegion(owner, p, v.Type().Elem(), v.Cap(), shim)
		if hasPointers(v.Type().Elem()) {
			for i := 0; i < full.Len(); i++ {
				s.walk(owner, full.Index(i), depth+1, shim)
			}
		}
	case reflect.Array:
		if hasPointers(v.Type().Elem()) {
			for i := 0; i < v.Len(); i++ {
				s.walk(owner, v.Index(i), depth+1, shim)
			}
		}
	case reflect.Struct:
		if isShim(v.Type()) {
			shim = true
		}
		for i := 0; i < v.NumField(); i++ {
			if hasPointers(v.Type().Field(i).Type) {
				f := v.Field(i)
				if !f.CanInterface() && f.CanAddr() {
					f = reflect.NewAt(f.Type(), unsafe.Pointer(f.UnsafeAddr())).Elem()
				}
				s.walk(owner, f, depth+1, shim)
			}
		}
	case reflect.Ptr:
		if v.IsNil() {
			return
		}
		p := v.Pointer()
		if s.seen[p] > 0 {
			return
		}
		s.seen[p] = 1
		s.addRegion(owner, p, v.Type().Elem(), 1, shim)
		s.walk(owner, v.Elem(), depth+1, shim)
	case reflect.Interface:
		if !v.IsNil() {
			s.walk(owner, v.Elem(), depth+1, shim)
		}
	case reflect.Chan:
		if v.IsNil() || s.seen[v.Pointer()] > 0 {
			return
		}
		s.seen[v.Pointer()] = 1
		s.chans = append(s.chans, &chanRec{owner: owner, ch: v, saved: ChanContents(v)})
	case reflect.Map:
		if v.IsNil() {
			return
		}
		p := v.Pointer()
		if s.seen[p] > 0 {
			return
		}
		s.seen[p] = 1
		mr := &mapRec{owner: owner, m: v, shim: shim}
		iter := v.MapRange()
		for iter.Next() {
			k, val := iter.Key(), iter.Value()
			mr.keys = append(mr.keys, k)
			mr.vals = append(mr.vals, val)
			mr.raw = append(mr.raw, rawBytes(val))
			s.walk(owner, val, depth+1, shim)
		}
		mr.base = mr.current()
		s.maps = append(s.maps, mr)
	}
}

// rawBytes returns the shallow memory image of a value.
func rawBytes(v reflect.Value) []byte {
	c := reflect.New(v.Type()).Elem()
	if v.CanInterface() {
		c.Set(v)
	} else {
		// value read through an unexported field: copy the words
		if v.CanAddr() {
			src := unsafe.Slice((*byte)(unsafe.Pointer(v.UnsafeAddr())), int(v.Type().Size()))
			return append([]byte{}, src...)
		}
		return nil
	}
	if c.Type().Size() == 0 {
		return nil
	}
	return append([]byte{}, unsafe.Slice((*byte)(unsafe.Pointer(c.UnsafeAddr())), int(c.Type().Size()))...)
}

// current returns an order-independent signature (length, sum of entry hashes) of the map's shallow content.
func (m *mapRec) current() [2]uint64 {
	var sum uint64
	iter := m.m.MapRange()
	for iter.Next() {
		sum += (valSig(iter.Key())*1099511628211 ^ valSig(iter.Value())) * 0x9E3779B97F4A7C15
	}
	return [2]uint64{uint64(m.m.Len()), sum}
}

func strSig(s string) uint64 {
	h := uint64(14695981039346656037)
	for i := 0; i < len(s); i++ {
		h = (h ^ uint64(s[i])) * 1099511628211
	}
	return h
}

// valSig hashes the shallow image of a value (pointers by address, strings by content).
func valSig(v reflect.Value) uint64 {
	switch v.Kind() {
	case reflect.Bool:
		if v.Bool() {
			return 1
		}
		return 2
	case reflect.Int, reflect.Int8, reflect.Int16, reflect.Int32, reflect.Int64:
		return uint64(v.Int())*0x9E3779B97F4A7C15 + 3
	case reflect.Uint, reflect.Uint8, reflect.Uint16, reflect.Uint32, reflect.Uint64, reflect.Uintptr:
		return v.Uint()*0x9E3779B97F4A7C15 + 4
	case reflect.Float32, reflect.Float64:
		return math.Float64bits(v.Float()) + 5
	case reflect.String:
		return strSig(v.String())
	case reflect.Slice:
		if v.IsNil() {
			return 6
		}
		return uint64(v.Pointer())*31 + uint64(v.Len())*131 + uint64(v.Cap())
	case reflect.Ptr, reflect.Map, reflect.Chan, reflect.Func, reflect.UnsafePointer:
		return uint64(v.Pointer()) + 7
	case reflect.Interface:
		if v.IsNil() {
			return 8
		}
		return strSig(v.Elem().Type().String()) ^ valSig(v.Elem())
	case reflect.Array:
		h := uint64(9)
		for i := 0; i < v.Len(); i++ {
			h = h*1099511628211 ^ valSig(v.Index(i))
		}
		return h
	case reflect.Struct:
		h := uint64(10)
		for i := 0; i < v.NumField(); i++ {
			h = h*1099511628211 ^ valSig(v.Field(i))
		}
		return h
	}
	return 11
}

// TakeSnapshot records the present content of all package-level state.
func TakeSnapshot() *Snapshot {
	s := &Snapshot{seen: map[uintptr]uintptr{}}
	vars := append([]regVar{}, registry...)
	sort.Slice(vars, func(i, j int) bool { return vars[i].name < vars[j].name })
	for _, rv := range vars {
		s.keep = append(s.keep, rv.ptr)
		s.addRegion(rv.name, rv.ptr.Pointer(), rv.ptr.Type().Elem(), 1, false)
		s.walk(rv.name, rv.ptr.Elem(), 0, false)
	}
	snap = s
	return s
}

func (r *region) differs(ref []byte) bool {
	for _, sg := range r.segs {
		if !bytes.Equal(r.live[sg[0]:sg[1]], ref[sg[0]:sg[1]]) {
			return true
		}
	}
	return false
}

// ModifiedSinceBase returns the variables whose data changed since the rolling baseline and advances the baseline.
func (s *Snapshot) ModifiedSinceBase() []string {
	var out []string
	seen := map[string]bool{}
	for _, r := range s.regions {
		if r.differs(r.base) {
			copy(r.base, r.live)
			if !seen[r.owner] {
				seen[r.owner] = true
				out = append(out, r.owner)
			}
		}
	}
	for _, m := range s.maps {
		if m.shim {
			continue
		}
		cur := m.current()
		if cur != m.base {
			m.base = cur
			if !seen[m.owner] {
				seen[m.owner] = true
				out = append(out, m.owner)
			}
		}
	}
	return out
}

// Dirty returns the variables whose data differs from the snapshot.
func (s *Snapshot) Dirty() []string {
	var out []string
	seen := map[string]bool{}
	for _, r := range s.regions {
		if r.differs(r.orig) && !seen[r.owner] {
			seen[r.owner] = true
			out = append(out, r.owner)
		}
	}
	for _, m := range s.maps {
		if !m.shim && !m.sameAsOrig() && !seen[m.owner] {
			seen[m.owner] = true
			out = append(out, m.owner)
		}
	}
	for _, c := range s.chans {
		if !seen[c.owner] && !c.same() {
			seen[c.owner] = true
			out = append(out, c.owner)
		}
	}
	sort.Strings(out)
	return out
}

func (m *mapRec) sameAsOrig() bool {
	if m.m.Len() != len(m.keys) {
		return false
	}
	for i, k := range m.keys {
		v := m.m.MapIndex(k)
		if !v.IsValid() || !bytes.Equal(rawBytes(v), m.raw[i]) {
			return false
		}
	}
	return true
}

// Restore resets all package-level state (including shim state) to the snapshot.
func (s *Snapshot) Restore() {
	for _, r := range s.regions {
		if !bytes.Equal(r.live, r.orig) {
			copy(r.live, r.orig)
		}
		if !bytes.Equal(r.base, r.orig) {
			copy(r.base, r.orig)
		}
	}
	for _, m := range s.maps {
		if !m.sameAsOrig() {
			iter := m.m.MapRange()
			var del []reflect.Value
			for iter.Next() {
				del = append(del, iter.Key())
			}
			for _, k := range del {
				m.m.SetMapIndex(k, reflect.Value{})
			}
			for i, k := range m.keys {
				m.m.SetMapIndex(k, m.vals[i])
			}
		}
		m.base = m.current()
	}
	for _, c := range s.chans {
		if !c.same() {
			for {
				if _, ok := c.ch.TryRecv(); !ok {
					break
				}
			}
			for _, v := range c.saved {
				c.ch.TrySend(v)
			}
		}
	}
}

// rebase takes n bytes at addr out of the pending memory comparison.
func (s *Snapshot) rebase(addr, n uintptr) {
	for _, r := range s.regions {
		lo := uintptr(unsafe.Pointer(&r.live[0]))
		if hi := lo + uintptr(len(r.live)); addr >= lo && addr < hi {
			off, end := int(addr-lo), int(addr-lo)+int(n)
			if end > len(r.live) {
				end = len(r.live)
			}
			copy(r.base[off:end], r.live[off:end])
		}
	}
}
