//go:build verif

// Package vsync replaces "sync" in the instrumented library build: every
// operation is a scheduling point of the cooperative scheduler, blocks
// cooperatively and feeds the vector clocks used for race detection.
package vsync

import (
	"unsafe"

	rt "github.com/tdewolff/parse/v2/verifrt"
)

type Locker interface {
	Lock()
	Unlock()
}

type Mutex struct {
	locked bool
}

func (m *Mutex) Lock() {
	rt.SyncPoint()
	rt.BlockUntil(func() bool { return !m.locked })
	m.locked = true
	rt.Acquire(rt.ClockOf(unsafe.Pointer(m)))
}

func (m *Mutex) TryLock() bool {
	rt.SyncPoint()
	if m.locked {
		return false
	}
	m.locked = true
	rt.Acquire(rt.ClockOf(unsafe.Pointer(m)))
	return true
}

func (m *Mutex) Unlock() {
	rt.SyncPoint()
	if !m.locked {
		panic("sync: unlock of unlocked mutex")
	}
	rt.Release(rt.ClockOf(unsafe.Pointer(m)))
	m.locked = false
	rt.SyncPoint() // what the caller does next with data it read under the lock is no longer protected
}

type RWMutex struct {
	w       bool
	readers int
}

func (m *RWMutex) Lock() {
	rt.SyncPoint()
	rt.BlockUntil(func() bool { return !m.w && m.readers == 0 })
	m.w = true
	rt.Acquire(rt.ClockOf(unsafe.Pointer(m)))
	rt.Acquire(rt.ClockOf(unsafe.Pointer(&m.readers)))
}
func (m *RWMutex) Unlock() {
	rt.SyncPoint()
	rt.Release(rt.ClockOf(unsafe.Pointer(m)))
	m.w = false
	rt.SyncPoint()
}
func (m *RWMutex) RLock() {
	rt.SyncPoint()
	rt.BlockUntil(func() bool { return !m.w })
	m.readers++
	rt.Acquire(rt.ClockOf(unsafe.Pointer(m)))
}
func (m *RWMutex) RUnlock() {
	rt.SyncPoint()
	rt.Release(rt.ClockOf(unsafe.Pointer(&m.readers)))
	m.readers--
	rt.SyncPoint()
}
func (m *RWMutex) RLocker() Locker { return (*rlocker)(m) }

type rlocker RWMutex

func (r *rlocker) Lock()   { (*RWMutex)(r).RLock() }
func (r *rlocker) Unlock() { (*RWMutex)(r).RUnlock() }

type Once struct {
	done    bool
	running bool
}

func (o *Once) Do(f func()) {
	rt.SyncPoint()
	if o.done {
		rt.Acquire(rt.ClockOf(unsafe.Pointer(o)))
		return
	}
	if o.running {
		rt.BlockUntil(func() bool { return o.done })
		rt.Acquire(rt.ClockOf(unsafe.Pointer(o)))
		return
	}
	o.running = true
	defer func() {
		rt.Release(rt.ClockOf(unsafe.Pointer(o)))
		o.done = true
		o.running = false
	}()
	f()
}

type WaitGroup struct {
	n int
}

func (wg *WaitGroup) Add(d int) {
	rt.SyncPoint()
	wg.n += d
	if d < 0 {
		rt.Release(rt.ClockOf(unsafe.Pointer(wg)))
	}
}
func (wg *WaitGroup) Done() { wg.Add(-1) }
func (wg *WaitGroup) Wait() {
	rt.SyncPoint()
	rt.BlockUntil(func() bool { return wg.n <= 0 })
	rt.Acquire(rt.ClockOf(unsafe.Pointer(wg)))
}

// Pool: Get/Put hand objects between goroutines; modelled with an internal lock-like clock.
type Pool struct {
	New   func() any
	items []any
}

func (p *Pool) Get() any {
	rt.SyncPoint()
	rt.Acquire(rt.ClockOf(unsafe.Pointer(p)))
	if n := len(p.items); n > 0 {
		x := p.items[n-1]
		p.items = p.items[:n-1]
		return x
	}
	if p.New != nil {
		return p.New()
	}
	return nil
}

func (p *Pool) Put(x any) {
	rt.SyncPoint()
	rt.Release(rt.ClockOf(unsafe.Pointer(p)))
	p.items = append(p.items, x)
}

// Map: a mutex-protected map.
type Map struct {
	m map[any]any
}

func (m *Map) Load(k any) (any, bool) {
	rt.SyncPoint()
	rt.Acquire(rt.ClockOf(unsafe.Pointer(m)))
	v, ok := m.m[k]
	return v, ok
}
func (m *Map) Store(k, v any) {
	rt.SyncPoint()
	rt.Acquire(rt.ClockOf(unsafe.Pointer(m)))
	if m.m == nil {
		m.m = map[any]any{}
	}
	m.m[k] = v
	rt.Release(rt.ClockOf(unsafe.Pointer(m)))
}
func (m *Map) LoadOrStore(k, v any) (any, bool) {
	rt.SyncPoint()
	rt.Acquire(rt.ClockOf(unsafe.Pointer(m)))
	if m.m == nil {
		m.m = map[any]any{}
	}
	if old, ok := m.m[k]; ok {
		return old, true
	}
	m.m[k] = v
	rt.Release(rt.ClockOf(unsafe.Pointer(m)))
	return v, false
}
func (m *Map) Delete(k any) {
	rt.SyncPoint()
	rt.Acquire(rt.ClockOf(unsafe.Pointer(m)))
	delete(m.m, k)
	rt.Release(rt.ClockOf(unsafe.Pointer(m)))
}
func (m *Map) Range(f func(k, v any) bool) {
	rt.SyncPoint()
	rt.Acquire(rt.ClockOf(unsafe.Pointer(m)))
	for k, v := range m.m {
		if !f(k, v) {
			return
		}
	}
}
