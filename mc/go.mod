module verifmc

go 1.21

require github.com/tdewolff/parse/v2 v2.0.0

require github.com/tdewolff/test v1.0.12 // indirect

replace github.com/tdewolff/parse/v2 => /repo
