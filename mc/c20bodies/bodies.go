// Package c20bodies is the catalogue of harness bodies of the C20 check: one
// body per entry point of the library, each working on private data only and
// returning an observation string that captures everything it got back.
// step() is called between library calls; the explorer may switch goroutines
// there. The same bodies are used by the cooperative explorer (instrumented
// build) and by the free-running -race pass (plain build).
package c20bodies

import (
	"bytes"
	"errors"
	"fmt"
	"io"
	"math"
	"os"
	"path/filepath"
	"strings"

	parse "github.com/tdewolff/parse/v2"
	"github.com/tdewolff/parse/v2/buffer"
	"github.com/tdewolff/parse/v2/css"
	"github.com/tdewolff/parse/v2/html"
	"github.com/tdewolff/parse/v2/js"
	"github.com/tdewolff/parse/v2/json"
	"github.com/tdewolff/parse/v2/strconv"
	"github.com/tdewolff/parse/v2/xml"
)

type Body struct {
	Name string
	Core bool // member of the core used for triples
	Run  func(v int, step func()) string
}

// pick returns private (freshly allocated) data for variant v.
func pick(v int, data ...string) []byte {
	return append(make([]byte, 0, len(data[v%len(data)])+8), data[v%len(data)]...)
}

type failingReader struct{ after string }

func (r *failingReader) Read(b []byte) (int, error) {
	if r.after == "" {
		return 0, errors.New("disk on fire")
	}
	n := copy(b, r.after)
	r.after = r.after[n:]
	return n, nil
}

// onlyReader is an io.Reader without a Bytes() method (so the stream lexer really streams).
type onlyReader struct {
	data  []byte
	off   int
	sizes []int // the sizes of the buffers offered (first 8 calls)
}

func (r *onlyReader) Read(p []byte) (int, error) {
	if len(r.sizes) < 8 {
		r.sizes = append(r.sizes, len(p))
	}
	if r.off >= len(r.data) {
		return 0, io.EOF
	}
	n := copy(p, r.data[r.off:])
	r.off += n
	return n, nil
}

type visitor struct {
	sb *strings.Builder
	n  int
}

func (v *visitor) Enter(n js.INode) js.IVisitor {
	v.n++
	fmt.Fprintf(v.sb, "<%T", n)
	return v
}
func (v *visitor) Exit(n js.INode) { v.sb.WriteString(">") }

// editor rewrites every literal of a tree it owns: a new slice, or the bytes in place.
type editor struct {
	inPlace bool
	n       int
}

func (e *editor) Enter(n js.INode) js.IVisitor {
	if lit, ok := n.(*js.LiteralExpr); ok {
		e.n++
		if e.inPlace {
			for i := range lit.Data {
				lit.Data[i] = 'X'
			}
		} else {
			lit.Data = []byte(fmt.Sprintf("L%d", e.n))
		}
	}
	return e
}
func (e *editor) Exit(n js.INode) {}

func asciiLower(s string) string { return strings.ToLower(s) }

func tokenLoop(sb *strings.Builder, step func(), next func() (int, string, bool)) {
	for i := 0; i < 10000; i++ {
		tt, s, more := next()
		fmt.Fprintf(sb, "%d:%q ", tt, s)
		step()
		if !more {
			return
		}
	}
}

// appendProbe appends one byte to a slice the library handed out and reports what the caller then holds.
func appendProbe(sb *strings.Builder, what string, b []byte, c byte) {
	out := append(b, c)
	fmt.Fprintf(sb, "%s+%q=%q ", what, c, out)
}

var All = []Body{
	// ---- package parse ----
	{"input-bytes", true, func(v int, step func()) string {
		var sb strings.Builder
		z := parse.NewInputBytes(pick(v, "ab\u00e9c d", "x\u2028y\x00z"))
		for z.Peek(0) != 0 || z.Err() == nil {
			r, n := z.PeekRune(0)
			fmt.Fprintf(&sb, "%d/%d@%d ", r, n, z.Offset())
			z.Move(n)
			if z.Pos() >= 2 {
				fmt.Fprintf(&sb, "lex=%q ", z.Shift())
			}
			step()
			if z.Offset() >= z.Len() {
				break
			}
		}
		fmt.Fprintf(&sb, "err=%v len=%d bytes=%q", z.Err(), z.Len(), z.Bytes())
		return sb.String()
	}},
	{"input-string-restore", false, func(v int, step func()) string {
		var sb strings.Builder
		z := parse.NewInputString(string(pick(v, "hello world", "a{b:c}")))
		z.Move(3)
		fmt.Fprintf(&sb, "%q %q ", z.Lexeme(), z.Shift())
		step()
		z.Rewind(1)
		fmt.Fprintf(&sb, "%d %d ", z.Pos(), z.Peek(0))
		appendProbe(&sb, "bytes", z.Bytes(), ';')
		step()
		z.Restore()
		fmt.Fprintf(&sb, "%v", z.Err())
		return sb.String()
	}},
	{"input-reader", false, func(v int, step func()) string {
		var sb strings.Builder
		z := parse.NewInput(bytes.NewReader(pick(v, "streamed input", "<a b=c>")))
		for z.Peek(0) != 0 {
			z.Move(1)
		}
		step()
		fmt.Fprintf(&sb, "%q %v %d ", z.Shift(), z.Err(), z.Len())
		appendProbe(&sb, "bytes", z.Bytes(), '\n')
		return sb.String()
	}},
	{"input-empty", true, func(v int, step func()) string {
		var sb strings.Builder
		var z *parse.Input
		switch v % 3 {
		case 0:
			z = parse.NewInputString("")
		case 1:
			z = parse.NewInputBytes(nil)
		default:
			z = parse.NewInput(&failingReader{})
		}
		fmt.Fprintf(&sb, "peek=%d err=%v len=%d ", z.Peek(0), z.Err(), z.Len())
		step()
		b := z.Bytes()
		step()
		appendProbe(&sb, "bytes", b, ";}<"[v%3])
		step()
		fmt.Fprintf(&sb, "peek=%d err=%v len=%d", z.Peek(0), z.Err(), z.Len())
		return sb.String()
	}},
	{"empty-documents", true, func(v int, step func()) (obs string) {
		var sb strings.Builder
		defer func() {
			if r := recover(); r != nil {
				fmt.Fprintf(&sb, " PANIC: %v", r)
				obs = sb.String()
			}
		}()
		mk := func() *parse.Input {
			if v%2 == 0 {
				return parse.NewInputString("")
			}
			return parse.NewInput(&failingReader{})
		}
		in := mk()
		fmt.Fprintf(&sb, "peek=%d err=%v len=%d;", in.Peek(0), in.Err() != nil, in.Len())
		step()
		cl := css.NewLexer(mk())
		ctt, cdata := cl.Next()
		fmt.Fprintf(&sb, " css=%v(%q) %v;", ctt, cdata, cl.Err() != nil)
		step()
		hl := html.NewLexer(mk())
		htt, hdata := hl.Next()
		fmt.Fprintf(&sb, " html=%v(%q) %v;", htt, hdata, hl.Err() != nil)
		step()
		xl := xml.NewLexer(mk())
		xtt, xdata := xl.Next()
		fmt.Fprintf(&sb, " xml=%v(%q) %v;", xtt, xdata, xl.Err() != nil)
		step()
		jp := json.NewParser(mk())
		jgt, jdata := jp.Next()
		fmt.Fprintf(&sb, " json=%v(%q) %v;", jgt, jdata, jp.Err() != nil)
		step()
		jl := js.NewLexer(mk())
		ltt, ldata := jl.Next()
		fmt.Fprintf(&sb, " js=%v(%q) %v;", ltt, ldata, jl.Err() != nil)
		step()
		bl := buffer.NewLexerBytes(nil)
		fmt.Fprintf(&sb, " buf=%d %v;", bl.Peek(0), bl.Err())
		return sb.String()
	}},
	{"position-error", true, func(v int, step func()) string {
		var sb strings.Builder
		src := pick(v, "line one\nline two\r\nthird \u2028 x", "a\tb\n\n  caret here")
		for _, off := range []int{0, 5, 9, len(src) - 1, len(src)} {
			l, c, ctx := parse.Position(bytes.NewReader(src), off)
			fmt.Fprintf(&sb, "%d:%d:%q ", l, c, ctx)
			step()
		}
		e := parse.NewError(bytes.NewReader(src), 10, "bad %s", "thing")
		fmt.Fprintf(&sb, "%s|", e.Error())
		step()
		z := parse.NewInputBytes(src)
		z.Move(4)
		e2 := parse.NewErrorLexer(z, "unexpected %d", 7)
		l, c, ctx := e2.Position()
		fmt.Fprintf(&sb, "%s|%d %d %q", e2.Error(), l, c, ctx)
		return sb.String()
	}},
	{"bytes-helpers", true, func(v int, step func()) string {
		var sb strings.Builder
		b := pick(v, "  Hello \t\n World &amp; &#39;x&#x27; &quot; ", "A\r\n\r\nB  c&lt;d  ")
		fmt.Fprintf(&sb, "%q ", parse.Copy(b))
		fmt.Fprintf(&sb, "%q ", parse.ToLower(parse.Copy(b)))
		step()
		fmt.Fprintf(&sb, "%v ", parse.EqualFold(pick(v, "HeLLo", "wOrld"), pick(v, "hello", "world")))
		fmt.Fprintf(&sb, "%q ", parse.TrimWhitespace(parse.Copy(b)))
		step()
		fmt.Fprintf(&sb, "%q ", parse.ReplaceMultipleWhitespace(parse.Copy(b)))
		fmt.Fprintf(&sb, "%v %v %v ", parse.IsAllWhitespace(b), parse.IsWhitespace(b[0]), parse.IsNewline(b[1]))
		step()
		ent := map[string][]byte{"amp": []byte("&"), "lt": []byte("<"), "quot": []byte("\"")}
		rev := map[byte][]byte{'\'': []byte("&#39;"), '"': []byte("&#34;")}
		fmt.Fprintf(&sb, "%q ", parse.ReplaceEntities(parse.Copy(b), ent, rev))
		step()
		fmt.Fprintf(&sb, "%q ", parse.ReplaceMultipleWhitespaceAndEntities(parse.Copy(b), ent, rev))
		q, n := parse.QuoteEntity(pick(v, "&#34;", "&apos;"))
		fmt.Fprintf(&sb, "%d %d ", q, n)
		fmt.Fprintf(&sb, "%q %q", parse.Printable(rune(b[2])), parse.AppendEscape(nil, pick(v, "a'b\\c", "x\"y"), []byte("'\""), '\\'))
		return sb.String()
	}},
	{"numbers-dimensions", false, func(v int, step func()) string {
		var sb strings.Builder
		for _, s := range []string{"5", "-5.2e+3px", ".5em", "+1e", "12.%", "1e-5x", "e5"} {
			b := pick(0, s)
			n := parse.Number(b)
			num, unit := parse.Dimension(b)
			fmt.Fprintf(&sb, "%d/%d/%d ", n, num, unit)
			if v%2 == 1 {
				step()
			}
		}
		return sb.String()
	}},
	{"mediatype-datauri", true, func(v int, step func()) string {
		var sb strings.Builder
		mt, params := parse.Mediatype(pick(v, "text/html; charset=UTF-8 ;q=\"0.8\"", "application/json;a=b"))
		fmt.Fprintf(&sb, "%q %d %q %q ", mt, len(params), params["charset"], params["a"])
		step()
		for _, s := range []string{"data:text/plain;base64,SGVsbG8=", "data:,a%20b", "data:;base64,AAA", "data:image/svg+xml;charset=utf-8,%3Csvg%3E", "nodata:x", "data:text/x;base64,!!"} {
			m, d, err := parse.DataURI(pick(0, s))
			fmt.Fprintf(&sb, "%q %q %v|", m, d, err)
			if err != nil {
				fmt.Fprintf(&sb, "%v|", err == parse.ErrBadDataURI)
			}
			step()
		}
		return sb.String()
	}},
	{"url-coding", false, func(v int, step func()) string {
		var sb strings.Builder
		b := pick(v, "a b/c?d=e&f=\u00e9%zz%41", "~x y+%2F\x00")
		fmt.Fprintf(&sb, "%q ", parse.EncodeURL(parse.Copy(b), parse.URLEncodingTable))
		step()
		fmt.Fprintf(&sb, "%q ", parse.EncodeURL(parse.Copy(b), parse.DataURIEncodingTable))
		step()
		fmt.Fprintf(&sb, "%q", parse.DecodeURL(parse.Copy(b)))
		return sb.String()
	}},
	{"binary-reader-writer", false, func(v int, step func()) string {
		var sb strings.Builder
		w := parse.NewBinaryWriter(nil)
		w.WriteUint8(7)
		w.WriteInt16(-2)
		w.WriteUint24(0x010203)
		w.WriteInt32(int32(-100000 - v))
		w.WriteUint64(1 << 40)
		w.WriteString("hey")
		step()
		r := parse.NewBinaryReaderBytes(w.Bytes())
		fmt.Fprintf(&sb, "%d %d %d %d %d %q ", r.ReadUint8(), r.ReadInt16(), r.ReadUint24(), r.ReadInt32(), r.ReadUint64(), r.ReadString(3))
		step()
		fmt.Fprintf(&sb, "%d %v %d", r.ReadUint8(), r.Err(), r.Pos())
		return sb.String()
	}},
	// ---- package buffer ----
	{"buffer-lexer", false, func(v int, step func()) string {
		var sb strings.Builder
		z := buffer.NewLexerBytes(pick(v, "ab\u00e9 cd", "12 34"))
		for z.Peek(0) != 0 {
			r, n := z.PeekRune(0)
			z.Move(n)
			fmt.Fprintf(&sb, "%d ", r)
			if r == ' ' {
				fmt.Fprintf(&sb, "%q ", z.Shift())
				step()
			}
		}
		fmt.Fprintf(&sb, "%q %v %d ", z.Shift(), z.Err(), z.Offset())
		appendProbe(&sb, "bytes", z.Bytes(), ';')
		z2 := buffer.NewLexer(&failingReader{})
		fmt.Fprintf(&sb, "%d %v", z2.Peek(0), z2.Err() != nil)
		return sb.String()
	}},
	{"buffer-streamlexer", true, func(v int, step func()) (obs string) {
		var sb strings.Builder
		defer func() { obs = sb.String() }()
		data := pick(v, "the quick brown fox jumps over the lazy dog", "aa bb cc dd ee ff gg hh ii jj kk")
		var z *buffer.StreamLexer
		rd := &onlyReader{data: data}
		if v%2 == 0 {
			z = buffer.NewStreamLexerSize(rd, 8)
		} else {
			z = buffer.NewStreamLexer(rd)
		}
		defer func() { fmt.Fprintf(&sb, " reads=%v", rd.sizes) }()
		for {
			c := z.Peek(0)
			if c == 0 && z.Err() != nil {
				break
			}
			z.Move(1)
			if c == ' ' {
				fmt.Fprintf(&sb, "%q ", z.Shift())
				z.Free(z.ShiftLen())
				step()
			}
		}
		fmt.Fprintf(&sb, "%q %v", z.Shift(), z.Err())
		return sb.String()
	}},
	{"buffer-reader-writer", false, func(v int, step func()) string {
		var sb strings.Builder
		w := buffer.NewWriter(make([]byte, 0, 4))
		w.Write(pick(v, "hello ", "abc"))
		step()
		w.Write(pick(v, "world", "defghij"))
		fmt.Fprintf(&sb, "%q %d ", w.Bytes(), w.Len())
		r := buffer.NewReader(w.Bytes())
		b := make([]byte, 4)
		for {
			n, err := r.Read(b)
			fmt.Fprintf(&sb, "%q ", b[:n])
			step()
			if err != nil {
				fmt.Fprintf(&sb, "%v", err)
				break
			}
		}
		return sb.String()
	}},
	// ---- package css ----
	{"css-lexer", true, func(v int, step func()) string {
		var sb strings.Builder
		l := css.NewLexer(parse.NewInputBytes(pick(v,
			"@media (min-width:10px){a.b#c>d~e{color:#FFF;margin:-1.5e3px 10% url( x.png ) \"s\\\"t\"!important}}/*c*/<!-- U+0-7F u+1?? \\41 x",
			"a{b:c;d:calc(1px + 2em)}:root{--x: { y }}@import 'a.css';[a|=b]{c:\\0 d}")))
		tokenLoop(&sb, step, func() (int, string, bool) {
			tt, d := l.Next()
			return int(tt), tt.String() + string(d), tt != css.ErrorToken
		})
		fmt.Fprintf(&sb, "%v", l.Err())
		return sb.String()
	}},
	{"css-parser", true, func(v int, step func()) string {
		var sb strings.Builder
		p := css.NewParser(parse.NewInputBytes(pick(v,
			"@charset \"x\";a,b>c{color:red;margin:0 auto!important;--v:{a:b}}@media screen{d{e:f}}@font-face{src:url(x)}g{h:i",
			"x{y:z}}/**/k{l:m;;n:o(p,q)}@page :first{margin:1in}*zoom:1;")), false)
		for i := 0; i < 1000; i++ {
			gt, tt, d := p.Next()
			fmt.Fprintf(&sb, "%v/%v/%q[", gt, tt, d)
			for _, val := range p.Values() {
				fmt.Fprintf(&sb, "%v:%q ", val.TokenType, val.Data)
			}
			sb.WriteString("]")
			if gt == css.EndRulesetGrammar || gt == css.EndAtRuleGrammar {
				appendProbe(&sb, "end", d, '!')
			}
			step()
			if gt == css.ErrorGrammar {
				break
			}
		}
		fmt.Fprintf(&sb, "%v", p.Err())
		return sb.String()
	}},
	{"css-parser-inline", false, func(v int, step func()) string {
		var sb strings.Builder
		p := css.NewParser(parse.NewInputBytes(pick(v, "color:red;background:url(a b);x:y!ie;*zoom:1", "a:b;c:d e f;g")), true)
		for i := 0; i < 1000; i++ {
			gt, tt, d := p.Next()
			fmt.Fprintf(&sb, "%v/%v/%q/%d ", gt, tt, d, len(p.Values()))
			step()
			if gt == css.ErrorGrammar {
				break
			}
		}
		fmt.Fprintf(&sb, "%v %d", p.Err(), p.Offset())
		return sb.String()
	}},
	{"css-util-hash", false, func(v int, step func()) string {
		var sb strings.Builder
		for _, s := range []string{"color", "-x-y", "1a", "a b", "\\41", "font-family", "URL", "ident\u00e9", ""} {
			b := pick(0, s)
			fmt.Fprintf(&sb, "%v%v%d ", css.IsIdent(b), css.IsURLUnquoted(b), css.ToHash(b))
			if v%2 == 0 {
				step()
			}
		}
		for _, hs := range []string{"color", "margin", "font-family", "important"} {
			h := css.ToHash([]byte(hs))
			appendProbe(&sb, "hash", h.Bytes(), 'x')
		}
		fmt.Fprintf(&sb, "%d %d ", css.ToHash([]byte("margin-top")), css.ToHash([]byte("font")))
		r, g, b := css.HSL2RGB(0.3+float64(v)/10, 0.5, 0.4)
		fmt.Fprintf(&sb, "%.4f %.4f %.4f %s", r, g, b, css.ToHash([]byte("margin")).String())
		return sb.String()
	}},
	// ---- package html ----
	{"html-lexer", true, func(v int, step func()) string {
		var sb strings.Builder
		l := html.NewLexer(parse.NewInputBytes(pick(v,
			"<!doctype html><HTML lang=en><head><title>a<b</title><script>if(a<b){'</scr'+'ipt>'}<!--x</script></head><body class=\"x y\" id='z' hidden>t &amp; u<br/><!-- c --><svg><path d=M0/></svg><textarea></p></textarea></body>",
			"<a href=x>y</a><style>a>b{}</style><![CDATA[z]]><?php x ?><p a = b c>&lt;</p ><plaintext><x>")))
		for i := 0; i < 1000; i++ {
			tt, d := l.Next()
			fmt.Fprintf(&sb, "%v/%q/%q/%q/%q/%v ", tt, d, l.Text(), l.AttrKey(), l.AttrVal(), l.HasTemplate())
			step()
			if tt == html.ErrorToken {
				break
			}
		}
		fmt.Fprintf(&sb, "%v", l.Err())
		return sb.String()
	}},
	{"html-template-lexer", false, func(v int, step func()) string {
		var sb strings.Builder
		tmpl := [][2]string{html.GoTemplate, html.HandlebarsTemplate, html.MustacheTemplate, html.EJSTemplate, html.ASPTemplate, html.PHPTemplate}[v%6]
		src := "<a href=" + tmpl[0] + " .x " + tmpl[1] + " b>" + tmpl[0] + "if <b>" + tmpl[1] + "</a><script>" + tmpl[0] + "y" + tmpl[1] + "</script>"
		l := html.NewTemplateLexer(parse.NewInputBytes(pick(0, src)), tmpl)
		for i := 0; i < 1000; i++ {
			tt, d := l.Next()
			fmt.Fprintf(&sb, "%v/%q/%q/%v ", tt, d, l.AttrVal(), l.HasTemplate())
			step()
			if tt == html.ErrorToken {
				break
			}
		}
		fmt.Fprintf(&sb, "%v", l.Err())
		return sb.String()
	}},
	{"html-escape-hash", true, func(v int, step func()) string {
		var sb strings.Builder
		var buf []byte
		for _, s := range []string{"plain", "a b", "it's", "say \"x\"", "both ' and \"", "a&amp;b", "x=y>", ""} {
			for _, q := range []byte{0, '"', '\''} {
				out := html.EscapeAttrVal(&buf, pick(0, s), q, v%2 == 1)
				fmt.Fprintf(&sb, "%q ", out)
				if len(out) >= 1 && (out[0] == '"' || out[0] == '\'') && s != "" {
					out[0] = '`' // the result lies in the caller's buffer or is the caller's argument
					fmt.Fprintf(&sb, "%q ", out)
				}
			}
			step()
		}
		for _, s := range []string{"div", "SCRIPT", "aria-label", "nope", "textarea", "title"} {
			h := html.ToHash(pick(0, asciiLower(s)))
			fmt.Fprintf(&sb, "%d:%s ", h, h)
			// what a caller gets from Bytes() is theirs to append to
			appendProbe(&sb, "hash", h.Bytes(), 'x')
		}
		fmt.Fprintf(&sb, "%d %d", html.ToHash([]byte("title")), html.ToHash([]byte("iframe")))
		return sb.String()
	}},
	// ---- package xml ----
	{"xml-lexer", true, func(v int, step func()) string {
		var sb strings.Builder
		l := xml.NewLexer(parse.NewInputBytes(pick(v,
			"<?xml version=\"1.0\"?><!DOCTYPE a [<!ENTITY b \"c\">]><a:b c='d' e=\"f>g\"><!-- h --><![CDATA[i]]>j&amp;k<l/></a:b>",
			"<x y = 'z'>t<u v=w/></x><?pi d?><!ELEMENT q><r")))
		for i := 0; i < 1000; i++ {
			tt, d := l.Next()
			fmt.Fprintf(&sb, "%v/%q/%q/%q ", tt, d, l.Text(), l.AttrVal())
			step()
			if tt == xml.ErrorToken {
				break
			}
		}
		fmt.Fprintf(&sb, "%v", l.Err())
		return sb.String()
	}},
	{"xml-escape", false, func(v int, step func()) string {
		var sb strings.Builder
		var buf []byte
		for _, s := range []string{"plain", "it's", "say \"x\"", "both ' and \"", "a&b<c", "x]]>y", "<<<<<<&&&&&&", ""} {
			av := xml.EscapeAttrVal(&buf, pick(0, s))
			fmt.Fprintf(&sb, "%q ", av)
			if len(av) >= 2 {
				// the result is the caller's own (it is built in the caller's buffer): switching its quotes in place is allowed
				av[0], av[len(av)-1] = '`', '`'
				step()
				fmt.Fprintf(&sb, "%q ", av)
			}
			if v%2 == 0 {
				step()
			}
			out, ok := xml.EscapeCDATAVal(&buf, pick(0, s))
			fmt.Fprintf(&sb, "%q/%v ", out, ok)
			step()
		}
		return sb.String()
	}},
	// ---- package json ----
	{"json-parser", true, func(v int, step func()) string {
		var sb strings.Builder
		p := json.NewParser(parse.NewInputBytes(pick(v,
			"{\"a\":[1,-2.5e+3,true,false,null,\"s\\\"t\\u00e9\"],\"b\":{\"c\":{}},\"d\":[]} x",
			"[{\"k\":\"v\"},[[1]],\"\\\\\", 0.1e1 ,{]")))
		for i := 0; i < 1000; i++ {
			gt, d := p.Next()
			fmt.Fprintf(&sb, "%v/%q/%v ", gt, d, p.State())
			step()
			if gt == json.ErrorGrammar {
				break
			}
		}
		fmt.Fprintf(&sb, "%v", p.Err())
		return sb.String()
	}},
	// ---- package js ----
	{"js-lexer", true, func(v int, step func()) string {
		var sb strings.Builder
		l := js.NewLexer(parse.NewInputBytes(pick(v,
			"var a=/re[/]g/gi,b=`t${c+`n${d}`}e`;if(a>>>=1&&b?.c??d){x=>y**2}// c\n/* m */0x1F 1_0n .5e-3 'it\\'s' \"q\" #p @ \\u0061b await yield <!-- h\n-->",
			"class A extends B{static #x=1;get y(){return super.y}}a/=2;b=c/d/e;f=g++/h/i;let{j,...k}=l;label:for(;;)break label")))
		for i := 0; i < 2000; i++ {
			tt, d := l.Next()
			if tt == js.DivToken || tt == js.DivEqToken {
				if i%2 == v%2 {
					tt, d = l.RegExp()
				}
			}
			fmt.Fprintf(&sb, "%v/%q ", tt, d)
			step()
			if tt == js.ErrorToken {
				break
			}
		}
		fmt.Fprintf(&sb, "%v", l.Err())
		return sb.String()
	}},
	{"js-lexer-unicode", true, func(v int, step func()) string {
		var sb strings.Builder
		// identifiers with non-ASCII letters, combining marks (ID_Continue only), digits, ZWJ/ZWNJ, and the same
		// runes in start position where they are not allowed
		l := js.NewLexer(parse.NewInputBytes(pick(v,
			"var \u00e9t\u00e9 = a\u0301 + \u0301b; x\u0663 = \u0663y; \u03c0\u200d\u200c_ = /r/\u00e9\u0301g; \u2118 \u212e \u309b \u00b7z w\u00b7",
			"let \u0301a = 1, a\u0301 = 2; \u0663y; x\u0663; \ua67c; q\ua67c; \u4e2d\u6587 = '\u00e9'; \u203fa a\u203f")))
		for i := 0; i < 2000; i++ {
			tt, d := l.Next()
			if tt == js.DivToken {
				tt, d = l.RegExp()
			}
			fmt.Fprintf(&sb, "%v/%q ", tt, d)
			step()
			if tt == js.ErrorToken {
				break
			}
		}
		fmt.Fprintf(&sb, "%v", l.Err())
		return sb.String()
	}},
	{"js-identifier-helpers", false, func(v int, step func()) string {
		var sb strings.Builder
		order := []string{"a", "\u0301", "\u00e9", "$", "\\", "1", "\u0663", "\u200d", "\u203f", "-", "\u2118", "\u00b7"}
		if v%2 == 1 {
			for i, j := 0, len(order)-1; i < j; i, j = i+1, j-1 {
				order[i], order[j] = order[j], order[i]
			}
		}
		for _, s := range order {
			b := pick(0, s)
			if v%2 == 0 {
				fmt.Fprintf(&sb, "%q:%v%v%v ", s, js.IsIdentifierStart(b), js.IsIdentifierContinue(b), js.IsIdentifierEnd(b))
			} else {
				fmt.Fprintf(&sb, "%q:%v%v%v ", s, js.IsIdentifierContinue(b), js.IsIdentifierEnd(b), js.IsIdentifierStart(b))
			}
			step()
		}
		for _, s := range []string{"abc", "a\u0301", "\u0301a", "1a", "if", "await", "x-y", "", "0", "12", "01", "1e3"} {
			b := pick(0, s)
			fmt.Fprintf(&sb, "%v%v ", js.AsIdentifierName(b), js.AsDecimalLiteral(b))
		}
		for _, tt := range []js.TokenType{js.IdentifierToken, js.AwaitToken, js.IfToken, js.AddToken, js.DecimalToken, js.OpenBraceToken} {
			fmt.Fprintf(&sb, "%v%v%v%v%v%v ", js.IsIdentifier(tt), js.IsIdentifierName(tt), js.IsReservedWord(tt), js.IsOperator(tt), js.IsPunctuator(tt), js.IsNumeric(tt))
		}
		fmt.Fprintf(&sb, "%v %q %v", js.Keywords["function"], js.IfToken.Bytes(), js.NestedStmtLimit+js.NestedExprLimit)
		return sb.String()
	}},
	{"js-parse-print", true, func(v int, step func()) string {
		var sb strings.Builder
		ast, err := js.Parse(parse.NewInputBytes(pick(v,
			"/*! lic */'use strict';import a,{b as c}from'm';export default class D extends E{static #p=1;get q(){return this.#p}static{f()}}\nfunction*g(h=1,...i){yield*h;for(const j of i){if(j)continue;else break}}var k=async(l)=>await l?.m??n`t${o}`;label:while(x--){try{throw y}catch({z}){}finally{}}",
			"/*! banner */\nlet a=1,{b,c:[d,,e=2]}=f;a=b?c:d,e**=2;if(a)b;else if(c)d;else{e}switch(a){case 1:default:b}do a++;while(a<10)\nfor(var i=0,j;i<j;i++);for(k in l);new A(...b).c[d](e)`f`;g=function h(){return h}")), js.Options{WhileToFor: v%2 == 1})
		step()
		if err != nil {
			return "error " + err.Error()
		}
		sb.WriteString(ast.String())
		step()
		sb.WriteString("|" + ast.JSString())
		step()
		vis := &visitor{sb: &sb}
		js.Walk(vis, ast)
		fmt.Fprintf(&sb, "|%d|%v", vis.n, ast.BlockStmt.Scope.String())
		return sb.String()
	}},
	{"js-parse-unicode", false, func(v int, step func()) string {
		var sb strings.Builder
		for _, src := range []string{"var \u00e9t\u00e9 = a\u0301b + \u03c0", "var \u0301a = 1", "x\u0663 + \u0663", "class \u4e2d{#\u6587\u0301(){}}", "a\u200d\u0301 = b\u00b7"} {
			ast, err := js.Parse(parse.NewInputBytes(pick(0, src)), js.Options{})
			if err != nil {
				fmt.Fprintf(&sb, "ERR %v|", err)
			} else {
				fmt.Fprintf(&sb, "%s|", ast.JSString())
			}
			step()
			if v%2 == 1 {
				break
			}
		}
		return sb.String()
	}},
	{"js-parse-errors", false, func(v int, step func()) string {
		var sb strings.Builder
		for _, src := range []string{"a = ;", "function(){}", "let let", "for(;;", "`${", "a\n++\n", "class{", "x = {a:1,", "if(", "import", "1 +* 2", "'unterminated"} {
			_, err := js.Parse(parse.NewInputBytes(pick(0, src)), js.Options{Inline: v%2 == 1})
			fmt.Fprintf(&sb, "%v|", err)
			step()
		}
		return sb.String()
	}},
	{"js-json", false, func(v int, step func()) string {
		var sb strings.Builder
		for _, src := range []string{"({a:[1,-2,'s',true,null,{b:`t`}],\"c\":0x10})", "[1,,2]", "({a(){}})", "x", "1;2", "-1e3"} {
			ast, err := js.Parse(parse.NewInputBytes(pick(0, src)), js.Options{})
			if err != nil {
				fmt.Fprintf(&sb, "ERR %v|", err)
				continue
			}
			step()
			s, err := ast.JSONString()
			fmt.Fprintf(&sb, "%q %v %v|", s, err, err != nil && errors.Is(err, js.ErrInvalidJSON))
			step()
		}
		return sb.String()
	}},
	// ---- errors are values of the instance that produced them: a later error of another instance must not change them ----
	{"error-objects", true, func(v int, step func()) string {
		var sb strings.Builder
		firstErr := func(kind int, src string) error {
			in := parse.NewInputBytes(pick(0, src))
			switch kind {
			case 0:
				l := xml.NewLexer(in)
				for {
					if tt, _ := l.Next(); tt == xml.ErrorToken {
						return l.Err()
					}
				}
			case 1:
				l := html.NewLexer(in)
				for {
					if tt, _ := l.Next(); tt == html.ErrorToken {
						return l.Err()
					}
				}
			case 2:
				p := json.NewParser(in)
				for {
					if gt, _ := p.Next(); gt == json.ErrorGrammar {
						return p.Err()
					}
				}
			case 3:
				l := js.NewLexer(in)
				for {
					if tt, _ := l.Next(); tt == js.ErrorToken {
						return l.Err()
					}
				}
			case 4:
				p := css.NewParser(in, false)
				for i := 0; i < 1000; i++ {
					if gt, _, _ := p.Next(); gt == css.ErrorGrammar {
						return p.Err()
					}
				}
				return nil
			default:
				_, err := js.Parse(in, js.Options{})
				return err
			}
		}
		docs := [][2]string{
			{"<a>\n\n  x\x00</a>", "<b c='d'>\x00"},
			{"<p>\n<svg>\x00</svg>", "<q>\n\n\n<math>\x00"},
			{"[1,\n 2 @]", "{\"a\":\n\n\x00}"},
			{"a = 1;\n b @ 2", "\n\n\nx \\ y"},
			{"a{b:c}}\n", "d{e}\n\n\nf{g:h}}"},
			{"x = ;\n", "\n\ny = (1;"},
		}
		k := v % 6
		e1 := firstErr(k, docs[k][0])
		t1 := fmt.Sprint(e1)
		step()
		e2 := firstErr(k, docs[k][1])
		t2 := fmt.Sprint(e2)
		step()
		e3 := firstErr((k+1)%6, docs[(k+1)%6][0])
		fmt.Fprintf(&sb, "%q | %q | %q", t1, t2, fmt.Sprint(e3))
		if fmt.Sprint(e1) != t1 || fmt.Sprint(e2) != t2 {
			fmt.Fprintf(&sb, " SELF-CHECK FAILED: an error read %q when it was returned and reads %q after another instance failed", t1, fmt.Sprint(e1))
		}
		return sb.String()
	}},
	// ---- two stream lexers over long streams, alive at the same time, freeing with a lag ----
	{"streamlexer-two-streams", true, func(v int, step func()) string {
		var sb strings.Builder
		mk := func(ch byte) *buffer.StreamLexer {
			data := bytes.Repeat([]byte{ch, ch, ch, ch, ch, ch, ' '}, 3000+500*v)
			return buffer.NewStreamLexer(&onlyReader{data: data})
		}
		type stream struct {
			z       *buffer.StreamLexer
			ch      byte
			tokens  int
			foreign int
			pending []int
		}
		ss := []*stream{{z: mk('a'), ch: 'a'}, {z: mk('b'), ch: 'b'}}
		next := func(s *stream) bool {
			for {
				c := s.z.Peek(0)
				if c == 0 && s.z.Err() != nil {
					return false
				}
				s.z.Move(1)
				if c == ' ' {
					break
				}
			}
			tok := s.z.Shift()
			s.tokens++
			for _, c := range tok {
				if c != s.ch && c != ' ' {
					s.foreign++
					break
				}
			}
			s.pending = append(s.pending, s.z.ShiftLen())
			if len(s.pending) > 3+v { // free with a lag
				s.z.Free(s.pending[0])
				s.pending = s.pending[1:]
			}
			return true
		}
		// the second lexer starts when the first one is well into its stream (it has recycled blocks by then), a
		// third one later still
		ss = append(ss, &stream{z: mk('c'), ch: 'c'})
		starts := []int{0, 1500 + 700*v, 2600}
		for i := 0; ; i++ {
			more := false
			for k, st := range ss {
				if i >= starts[k] && next(st) {
					more = true
				}
			}
			if !more && i >= starts[2] {
				break
			}
			if i%400 == 0 {
				step()
			}
		}
		for _, s := range ss {
			fmt.Fprintf(&sb, "%c: %d tokens, %d with foreign bytes, err=%v; ", s.ch, s.tokens, s.foreign, s.z.Err())
			if s.foreign > 0 {
				sb.WriteString("SELF-CHECK FAILED: a stream lexer returned bytes of another lexer's stream; ")
			}
		}
		return sb.String()
	}},
	{"streamlexer-long-token", false, func(v int, step func()) string {
		var sb strings.Builder
		// one token much longer than the default buffer, then an ordinary stream with the default constructor
		long := &onlyReader{data: append(bytes.Repeat([]byte{'x'}, 20000+3000*v), ' ', 'y', ' ')}
		z := buffer.NewStreamLexer(long)
		for z.Peek(0) != ' ' && z.Err() == nil {
			z.Move(1)
		}
		fmt.Fprintf(&sb, "long token %d bytes, reads=%v; ", len(z.Shift()), long.sizes)
		step()
		small := &onlyReader{data: bytes.Repeat([]byte("ab "), 2500)}
		z2 := buffer.NewStreamLexer(small)
		n := 0
		for {
			c := z2.Peek(0)
			if c == 0 && z2.Err() != nil {
				break
			}
			z2.Move(1)
			if c == ' ' {
				z2.Shift()
				z2.Free(z2.ShiftLen())
				n++
			}
		}
		fmt.Fprintf(&sb, "%d tokens, reads=%v, min buffer %d", n, small.sizes, buffer.MinBuf)
		return sb.String()
	}},
	{"binary-readers-files", false, func(v int, step func()) string {
		var sb strings.Builder
		dir, err := os.MkdirTemp("", "c20files")
		if err != nil {
			return "no temp dir"
		}
		defer os.RemoveAll(dir)
		contents := [][]byte{{}, {}, []byte("hello"), {1, 2, 3, 4, 5, 6, 7, 8}}
		var paths []string
		for i, b := range contents {
			p := filepath.Join(dir, fmt.Sprintf("f%d", i))
			os.WriteFile(p, b, 0o600)
			paths = append(paths, p)
		}
		open := func(p string, mmap bool) *parse.BinaryReader {
			var r *parse.BinaryReader
			var err error
			if mmap {
				r, err = parse.NewBinaryReaderMmapPath(p)
			} else {
				r, err = parse.NewBinaryReaderPath(p)
			}
			if err != nil {
				fmt.Fprintf(&sb, "open: %v; ", err != nil)
				return nil
			}
			return r
		}
		for _, mmap := range []bool{v%2 == 0, v%2 != 0} {
			var rs []*parse.BinaryReader
			for _, p := range paths {
				rs = append(rs, open(p, mmap))
			}
			step()
			// close the first of the two readers of empty files, then use all the others
			if rs[0] != nil {
				fmt.Fprintf(&sb, "close0=%v ", rs[0].Close())
			}
			for i, r := range rs[1:] {
				if r == nil {
					continue
				}
				b := r.ReadBytes(2)
				all, rerr := io.ReadAll(r)
				fmt.Fprintf(&sb, "r%d: %q %q err=%v readall=%v len=%d; ", i+1, b, all, r.Err(), rerr, r.Len())
				step()
			}
			for _, r := range rs[1:] {
				if r != nil {
					r.Close()
				}
			}
			// an empty file opened after the others were closed
			if r := open(paths[1], mmap); r != nil {
				_, rerr := io.ReadAll(r)
				fmt.Fprintf(&sb, "again: err=%v readall=%v; ", r.Err(), rerr)
				r.Close()
			}
		}
		return sb.String()
	}},
	{"js-deep-print", false, func(v int, step func()) string {
		depth := 9 + 4*v
		src := strings.Repeat("if (a) { ", depth) + "b = `x\ny`; /*! c\n d */" + strings.Repeat(" }", depth)
		ast, err := js.Parse(parse.NewInputBytes(pick(0, src)), js.Options{})
		if err != nil {
			return "error " + err.Error()
		}
		step()
		s1 := ast.JSString()
		step()
		var buf bytes.Buffer
		w := parse.NewIndenter(&buf, 40+8*v)
		w.Write([]byte("p\nq\n"))
		return s1 + "|" + buf.String()
	}},
	// ---- a consumer that edits its own tree (as a minifier does): literals, names, operators ----
	{"js-ast-edit", true, func(v int, step func()) string {
		var sb strings.Builder
		ast, err := js.Parse(parse.NewInputBytes(pick(v,
			"var a = true, b = null; if (a === false) { this.c = b ?? 'x' + 1 } else { a = !0 }",
			"function f(p) { return p ? true : this === null || false }; let q = [true, false, null, 1e3, 'str', /re/g, `t`]")), js.Options{})
		if err != nil {
			return "error " + err.Error()
		}
		before := ast.JSString()
		step()
		ed := &editor{inPlace: v%2 == 1}
		js.Walk(ed, ast)
		step()
		for _, dv := range ast.BlockStmt.Scope.Declared {
			dv.Data = append([]byte("r_"), dv.Data...)
		}
		step()
		fmt.Fprintf(&sb, "%q -> %q (%d literals)", before, ast.JSString(), ed.n)
		return sb.String()
	}},
	// ---- two instances alive at the same time in one goroutine: what the first one handed out must not change ----
	{"js-two-asts", true, func(v int, step func()) string {
		var sb strings.Builder
		srcs := [][2]string{
			{"/*! license A */\nvar a = 1;", "/*! license B */\nvar b = 2;/*! c2 */"},
			{"/*! x */\n/*! y */\n/*! z */\nlet q = [1, 2]; q.push(3);", "/*! w */\nfunction f(){return 1}"},
		}[v%2]
		astA, errA := js.Parse(parse.NewInputBytes(pick(0, srcs[0])), js.Options{})
		if errA != nil {
			return "error " + errA.Error()
		}
		a1 := astA.JSString()
		step()
		astB, errB := js.Parse(parse.NewInputBytes(pick(0, srcs[1])), js.Options{})
		if errB != nil {
			return "error " + errB.Error()
		}
		b1 := astB.JSString()
		step()
		a2, b2 := astA.JSString(), astB.JSString()
		fmt.Fprintf(&sb, "%q %q", a1, b1)
		if a1 != a2 || b1 != b2 {
			fmt.Fprintf(&sb, " SELF-CHECK FAILED: the first tree printed %q before and %q after another Parse (second: %q / %q)", a1, a2, b1, b2)
		}
		return sb.String()
	}},
	{"two-lexers", true, func(v int, step func()) string {
		var sb strings.Builder
		type held struct {
			b []byte
			s string
		}
		var hs []held
		hold := func(b []byte) string {
			hs = append(hs, held{b, string(b)})
			return string(b)
		}
		// a stepper returns the next token of one instance as text, and false when the instance is finished
		mk := func(kind int, src string) func() (string, bool) {
			in := parse.NewInputBytes(pick(0, src))
			switch kind {
			case 0:
				l := css.NewLexer(in)
				return func() (string, bool) {
					tt, d := l.Next()
					return fmt.Sprintf("%v %q", tt, hold(d)), tt != css.ErrorToken
				}
			case 1:
				l := html.NewLexer(in)
				return func() (string, bool) {
					tt, d := l.Next()
					return fmt.Sprintf("%v %q %q %q", tt, hold(d), hold(l.Text()), hold(l.AttrVal())), tt != html.ErrorToken
				}
			case 2:
				l := xml.NewLexer(in)
				return func() (string, bool) {
					tt, d := l.Next()
					return fmt.Sprintf("%v %q %q %q", tt, hold(d), hold(l.Text()), hold(l.AttrVal())), tt != xml.ErrorToken
				}
			case 3:
				p := json.NewParser(in)
				return func() (string, bool) {
					gt, d := p.Next()
					return fmt.Sprintf("%v %q %v", gt, hold(d), p.State()), gt != json.ErrorGrammar
				}
			case 4:
				l := js.NewLexer(in)
				return func() (string, bool) {
					tt, d := l.Next()
					return fmt.Sprintf("%v %q", tt, hold(d)), tt != js.ErrorToken
				}
			default:
				p := css.NewParser(in, false)
				return func() (string, bool) {
					gt, _, d := p.Next()
					t := fmt.Sprintf("%v %q", gt, hold(d))
					for _, val := range p.Values() {
						t += fmt.Sprintf(" %q", hold(val.Data))
					}
					return t, gt != css.ErrorGrammar
				}
			}
		}
		all := func(f func() (string, bool)) []string {
			var r []string
			for i := 0; i < 10000; i++ {
				t, more := f()
				r = append(r, t)
				if !more {
					break
				}
			}
			return r
		}
		srcs := [][2]string{
			{"a{b:c d}@media x{e{f:g}}", "@font-face{h:i}j{k:l}"},
			{"<a b='c' d=\"e\">t</a><!--c-->", "<p><q r=s>u</q></p>"},
			{"<x y='z'>t<![CDATA[u]]></x>", "<?xml v='1'?><m><n o=\"p\"/></m>"},
			{"{\"a\":[1,\"b\"]}", "[[{\"c\":{\"d\":[]}}],2]"},
			{"let a = `t${b}` + /r/g;", "x = {y: `u${`v${w}`}`}"},
			{"a , b > c{d:e(f) g}", "@media x{h{i:j}}k{l:m}"},
		}
		k1, k2 := v%6, (v/6+v+1)%6
		if v >= 12 {
			k2 = k1 // two instances of the same kind
		}
		// each instance alone
		solo1 := all(mk(k1, srcs[k1][0]))
		solo2 := all(mk(k2, srcs[k2][1]))
		n1 := len(hs)
		step()
		// the two instances alive at the same time, stepped alternately
		f1, f2 := mk(k1, srcs[k1][0]), mk(k2, srcs[k2][1])
		var got1, got2 []string
		m1, m2 := true, true
		for i := 0; (m1 || m2) && i < 10000; i++ {
			if m1 {
				var t string
				t, m1 = f1()
				got1 = append(got1, t)
			}
			if m2 {
				var t string
				t, m2 = f2()
				got2 = append(got2, t)
			}
			if i%8 == 0 {
				step()
			}
		}
		if strings.Join(got1, "|") != strings.Join(solo1, "|") || strings.Join(got2, "|") != strings.Join(solo2, "|") {
			fmt.Fprintf(&sb, "SELF-CHECK FAILED: stepped alternately the two instances return %q and %q, alone they return %q and %q; ", got1, got2, solo1, solo2)
		}
		bad := 0
		for i, h := range hs {
			if string(h.b) != h.s {
				bad++
				if bad == 1 {
					fmt.Fprintf(&sb, "SELF-CHECK FAILED: slice %d handed out as %q now reads %q; ", i, h.s, h.b)
				}
			}
		}
		fmt.Fprintf(&sb, "%d+%d slices held, %d changed; %q", n1, len(hs)-n1, bad, got1)
		return sb.String()
	}},
	// ---- package strconv ----
	{"strconv-parse", true, func(v int, step func()) string {
		var sb strings.Builder
		for _, s := range []string{"0", "-12", "+7", "9223372036854775807", "9223372036854775808", "1.5", "1e10", "-1.234e-5x", ".5", "1e400", "4.9e-324", "123456789012345678901234567890", "abc", ""} {
			b := pick(0, s)
			i, n := strconv.ParseInt(b)
			u, m := strconv.ParseUint(b)
			f, k := strconv.ParseFloat(b)
			d, l := strconv.ParseDecimal(b)
			fmt.Fprintf(&sb, "%d/%d %d/%d %v/%d %v/%d ", i, n, u, m, f, k, d, l)
			if v%2 == 0 {
				step()
			}
		}
		step()
		for _, s := range []string{"1,234.56", "1.234,56", "12 345", "-1'000.5"} {
			n, dec, k := strconv.ParseNumber(pick(0, s), rune(",. '"[v%4]), '.')
			fmt.Fprintf(&sb, "%d/%d/%d ", n, dec, k)
		}
		return sb.String()
	}},
	{"strconv-append", true, func(v int, step func()) string {
		var sb strings.Builder
		for _, f := range []float64{0, 1, -1.5, 123456789, 1e21, 1e-7, 0.1 + 0.2, math.MaxFloat64, math.SmallestNonzeroFloat64, 1e308, 12345.6789e100, 0.000123456} {
			for _, prec := range []int{-1, 0, 3, 6} {
				fmt.Fprintf(&sb, "%q ", strconv.AppendFloat(nil, f, prec))
			}
			fmt.Fprintf(&sb, "%q ", strconv.AppendDecimal(nil, f, 2+v%2))
			step()
		}
		for _, n := range []int64{0, 7, -42, 1234567, math.MaxInt64, math.MinInt64} {
			fmt.Fprintf(&sb, "%q %d %d %q ", strconv.AppendInt(nil, n), strconv.LenInt(n), strconv.LenUint(uint64(n)), strconv.AppendNumber(nil, n, 2, 3, ',', '.'))
		}
		return sb.String()
	}},
}

// io kept for bodies that need it.
var _ = io.EOF
