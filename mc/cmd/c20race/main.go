// Command c20race is the free-running pass of the C20 check: the same bodies
// as the cooperative explorer, on real goroutines released by a start
// barrier, in a plain (uninstrumented) build of the library's current tree
// compiled with -race. The cooperative scheduler's hand-offs would be
// happens-before edges that blind the detector, hence this separate pass.
// Its job is to catch accesses the instrumentation does not model; it is a
// supplement to, not part of, the exhaustive exploration.
//
//	c20race quick|thorough
package main

import (
	"bytes"
	"encoding/json"
	"fmt"
	"os"
	"os/exec"
	"path/filepath"
	"regexp"
	"strings"
	"sync"
	"time"

	"verifmc/c20bodies"
)

const verifRoot = "/verif"

// outDir is where evidence and replays go: /verif, or a scratch directory for the self-tests of the machinery.
var verifDir = func() string {
	if d := os.Getenv("C20_OUT"); d != "" {
		return d
	}
	return verifRoot
}()

type item struct{ body, v int }

func variants(b int) int {
	switch c20bodies.All[b].Name {
	case "input-empty":
		return 3
	case "html-template-lexer":
		return 6
	case "two-lexers":
		return 18
	case "error-objects":
		return 6
	}
	return 2
}

func child(reps int) {
	var items []item
	for b := range c20bodies.All {
		for v := 0; v < variants(b); v++ {
			items = append(items, item{b, v})
		}
	}
	solo := map[item]string{}
	for _, it := range items {
		solo[it] = c20bodies.All[it.body].Run(it.v, func() {})
	}
	mism := 0
	pairs := 0
	for i := range items {
		for j := i; j < len(items); j++ {
			pairs++
			for r := 0; r < reps; r++ {
				var wg sync.WaitGroup
				start := make(chan struct{})
				outs := make([]string, 2)
				for k, it := range []item{items[i], items[j]} {
					wg.Add(1)
					go func(k int, it item) {
						defer wg.Done()
						defer func() {
							if r := recover(); r != nil {
								outs[k] += fmt.Sprintf(" PANIC: %v", r)
							}
						}()
						<-start
						outs[k] = c20bodies.All[it.body].Run(it.v, func() {})
					}(k, it)
				}
				close(start)
				wg.Wait()
				for k, it := range []item{items[i], items[j]} {
					if outs[k] != solo[it] && mism < 5 {
						mism++
						fmt.Printf("MISMATCH %s#%d || %s#%d: goroutine %d differs from its solo result\n", c20bodies.All[items[i].body].Name, items[i].v, c20bodies.All[items[j].body].Name, items[j].v, k)
					}
				}
			}
		}
	}
	fmt.Printf("PAIRS %d REPS %d\n", pairs, reps)
}

func main() {
	if len(os.Args) > 2 && os.Args[1] == "--child" {
		reps := 1
		fmt.Sscan(os.Args[2], &reps)
		child(reps)
		return
	}
	tier := "quick"
	if len(os.Args) > 1 {
		tier = os.Args[1]
	}
	reps := "3"
	if tier == "thorough" {
		reps = "40"
	}
	start := time.Now()
	cmd := exec.Command(os.Args[0], "--child", reps)
	cmd.Env = append(os.Environ(), "GORACE=halt_on_error=0 exitcode=0")
	var out bytes.Buffer
	cmd.Stdout = &out
	cmd.Stderr = &out
	err := cmd.Run()
	s := out.String()
	races := strings.Count(s, "WARNING: DATA RACE")
	mism := strings.Count(s, "MISMATCH ")
	done := strings.Contains(s, "PAIRS ")
	if err != nil || !done {
		fmt.Printf("c20race: INTERNAL ERROR: child failed: %v\n%s\n", err, tail(s, 3000))
		os.Exit(2)
	}
	// merge into the evidence written by the explorer
	evPath := filepath.Join(verifDir, "evidence", "C20.json")
	if b, e := os.ReadFile(evPath); e == nil {
		var ev map[string]interface{}
		if json.Unmarshal(b, &ev) == nil {
			if cov, ok := ev["coverage"].(map[string]interface{}); ok {
				cov["race_pass"] = map[string]interface{}{"pairs": regexp.MustCompile(`PAIRS (\d+)`).FindStringSubmatch(s)[1], "repetitions": reps, "data_race_reports": races, "result_mismatches": mism, "wall_s": time.Since(start).Seconds(), "role": "supplement on real goroutines under -race; not part of the exhaustive count"}
				if w, ok := ev["wall_s"].(float64); ok {
					ev["wall_s"] = w + time.Since(start).Seconds()
				}
				if races+mism > 0 {
					if n, ok := ev["violations"].(float64); ok {
						ev["violations"] = n + 1
					}
				}
				nb, _ := json.MarshalIndent(ev, "", " ")
				os.WriteFile(evPath, append(nb, '\n'), 0o644)
			}
		}
	}
	if races+mism > 0 {
		os.MkdirAll(filepath.Join(verifDir, "replays", "C20"), 0o755)
		path := filepath.Join(verifDir, "replays", "C20", tier+"-race.txt")
		os.WriteFile(path, []byte(s), 0o644)
		fmt.Printf("C20 race-detector: %d data race report(s), %d result mismatch(es) with real goroutines on private data:\n%s\n", races, mism, head(s, 2500))
		fmt.Printf("VIOLATION property=C20 replay=%s\n", path)
		os.Exit(1)
	}
	fmt.Printf("C20 race pass: %s, no data race reported, %.1fs\n", strings.TrimSpace(s[strings.Index(s, "PAIRS "):]), time.Since(start).Seconds())
}

func tail(s string, n int) string {
	if len(s) > n {
		return s[len(s)-n:]
	}
	return s
}
func head(s string, n int) string {
	if len(s) > n {
		return s[:n] + "\n…"
	}
	return s
}
