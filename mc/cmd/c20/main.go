//go:build verif

// Command c20 decides property C20 (distinct parser instances are independent
// and safe to use concurrently; no mutable package-level state leaks between
// calls) on the instrumented build of the library's current working tree.
//
//	c20 quick|thorough            run the check, write /verif/evidence/C20.json
//	c20 --replay <file>           re-execute one recorded harness + schedule / history
//	c20 --worker k n tier out     (internal) one shard of the harness list
package main

import (
	"encoding/json"
	"fmt"
	"os"
	"os/exec"
	"path/filepath"
	"sort"
	"strconv"
	"strings"
	"time"

	"verifmc/c20bodies"
	"verifmc/engine"

	"github.com/tdewolff/parse/v2/verifrt"
)

const verifRoot = "/verif"

// outDir is where evidence and replays go: /verif, or a scratch directory for the self-tests of the machinery.
var verifDir = func() string {
	if d := os.Getenv("C20_OUT"); d != "" {
		return d
	}
	return verifRoot
}()

type item struct{ body, v int }

func (it item) String() string { return fmt.Sprintf("%s#%d", c20bodies.All[it.body].Name, it.v) }

type soloInfo struct {
	obs     string
	touched map[string]bool
	writes  []string // written by name or atomically
	dirty   []string // memory differs after the run
	acc     int
	steps   int
	syncOps int
}

type replayCase struct {
	Mode     string   `json:"mode"` // "schedule" or "history"
	Items    []string `json:"items"`
	Schedule []int    `json:"schedule,omitempty"`
	W        []string `json:"scheduling_point_variables,omitempty"`
	Clause   string   `json:"clause"`
	Detail   string   `json:"detail"`
}

type violation struct {
	Clause string     `json:"clause"`
	Detail string     `json:"detail"`
	Case   replayCase `json:"case"`
}

type result struct {
	Harnesses     int            `json:"harnesses"`
	Executions    int            `json:"executions"`
	MaxSchedules  int            `json:"max_schedules_per_harness"`
	Points        int            `json:"scheduling_points"`
	Accesses      int64          `json:"global_accesses"`
	Steps         int64          `json:"steps"`
	SyncOps       int64          `json:"sync_ops"`
	Restarts      int            `json:"w_restarts"`
	Capped        []string       `json:"capped"`
	NontrivialH   int            `json:"harnesses_with_scheduling_points"`
	States        int            `json:"states"`
	Transitions   int            `json:"transitions"`
	HistDepth     int            `json:"history_depth"`
	Written       map[string]int `json:"written_variables"`
	SharedRead    map[string]int `json:"shared_read_variables"`
	Violations    []violation    `json:"violations"`
	ViolatingExec int            `json:"violating_executions"`
	Samples       []string       `json:"samples"`
	Notes         []string       `json:"notes"`
	BoundDone     int            `json:"preemption_bound_completed"`
	DistinctObs   int            `json:"distinct_observations"`
	Internal      string         `json:"internal_error"`
}

var selfFailed []violation

var (
	snap  *verifrt.Snapshot
	items []item
	solo  map[item]*soloInfo
)

func variantsOf(b int) int {
	switch c20bodies.All[b].Name {
	case "input-empty":
		return 3
	case "html-template-lexer":
		return 6
	case "two-lexers":
		return 18
	case "error-objects":
		return 6
	}
	return 2
}

func runBody(it item) func() (func(), *string) {
	return func() (func(), *string) {
		out := new(string)
		return func() { *out = c20bodies.All[it.body].Run(it.v, verifrt.Step) }, out
	}
}

func profile(it item) (*soloInfo, *verifrt.Execution) {
	f, out := runBody(it)()
	e := verifrt.Profile(f)
	si := &soloInfo{obs: *out, touched: e.Touched[0], acc: e.Accesses, steps: e.Steps, syncOps: e.SyncOps}
	if len(e.Panics) > 0 {
		si.obs += " PANIC: " + strings.Join(e.Panics, "; ")
	}
	si.writes = verifrt.SortedNames(e.Writes)
	si.dirty = snap.Dirty()
	return si, e
}

func setup() string {
	snap = verifrt.TakeSnapshot()
	solo = map[item]*soloInfo{}
	for b := range c20bodies.All {
		for v := 0; v < variantsOf(b); v++ {
			it := item{b, v}
			items = append(items, it)
			snap.Restore()
			s1, _ := profile(it)
			snap.Restore()
			s2, _ := profile(it)
			if s1.obs != s2.obs {
				return fmt.Sprintf("body %v is not deterministic when run alone from the same global state:\n %s\n %s", it, s1.obs, s2.obs)
			}
			solo[it] = s1
			if i := strings.Index(s1.obs, "SELF-CHECK FAILED"); i >= 0 {
				selfFailed = append(selfFailed, violation{Clause: "instances-interfere:" + c20bodies.All[b].Name,
					Detail: fmt.Sprintf("%v alone in a fresh process: what one instance handed out changed when another instance of the same goroutine was used: %s", it, clip(s1.obs[i:])),
					Case:   replayCase{Mode: "history", Items: []string{it.String()}}})
			}
		}
	}
	snap.Restore()
	return ""
}

// ---- histories: explicit-state search over global states ----

func stateKey() string {
	h, _ := verifrt.GlobalHash()
	return fmt.Sprintf("%016x", h)
}

func histories(res *result, depth int, addViol func(violation)) {
	snap.Restore()
	init0 := stateKey()
	type st struct {
		key  string
		hist []item
	}
	seen := map[string]bool{init0: true}
	frontier := []st{{init0, nil}}
	res.States = 1
	for d := 0; d < depth && len(frontier) > 0; d++ {
		var next []st
		for _, s := range frontier {
			for _, it := range items {
				snap.Restore()
				for _, h := range s.hist {
					f, _ := runBody(h)()
					verifrt.Profile(f)
				}
				if stateKey() != s.key {
					res.Internal = fmt.Sprintf("history %v does not reproduce its global state", s.hist)
					return
				}
				f, out := runBody(it)()
				e := verifrt.Profile(f)
				obs := *out
				if len(e.Panics) > 0 {
					obs += " PANIC: " + strings.Join(e.Panics, "; ")
				}
				res.Transitions++
				res.Executions++
				if obs != solo[it].obs {
					var names []string
					for _, h := range append(append([]item{}, s.hist...), it) {
						names = append(names, h.String())
					}
					addViol(violation{
						Clause: "history-dependence:" + c20bodies.All[it.body].Name,
						Detail: fmt.Sprintf("%v returns a different result after %v than in a fresh process (global state modified: %v)\n  fresh: %s\n  after: %s", it, s.hist, snap.Dirty(), clip(solo[it].obs), clip(obs)),
						Case:   replayCase{Mode: "history", Items: names},
					})
				}
				// the state includes what the sync shims hold (pool contents, Once flags), which the memory
				// comparison deliberately leaves out: identify it by the deep hash
				if k := stateKey(); k != s.key {
					if !seen[k] {
						seen[k] = true
						res.States++
						next = append(next, st{k, append(append([]item{}, s.hist...), it)})
						if len(res.Notes) < 20 {
							res.Notes = append(res.Notes, fmt.Sprintf("global state changes: after %v the variables %v differ from their initial content (an empty list means only state held by sync.Pool/Map/Once changed)", append(append([]item{}, s.hist...), it), snap.Dirty()))
						}
					}
				}
			}
		}
		frontier = next
		res.HistDepth = d + 1
	}
	snap.Restore()
}

func clip(s string) string {
	if len(s) > 600 {
		return s[:600] + "…"
	}
	return s
}

func diffAt(a, b string) string {
	i := 0
	for i < len(a) && i < len(b) && a[i] == b[i] {
		i++
	}
	lo := i - 60
	if lo < 0 {
		lo = 0
	}
	ha, hb := i+100, i+100
	if ha > len(a) {
		ha = len(a)
	}
	if hb > len(b) {
		hb = len(b)
	}
	return fmt.Sprintf("first difference at byte %d:\n  alone:      …%s\n  concurrent: …%s", i, a[lo:ha], b[lo:hb])
}

// ---- schedules ----

type harness struct{ its []item }

func (h harness) String() string {
	var s []string
	for _, it := range h.its {
		s = append(s, it.String())
	}
	return strings.Join(s, " || ")
}

func (h harness) names() []string {
	var s []string
	for _, it := range h.its {
		s = append(s, it.String())
	}
	return s
}

func harnessList(tier string) []harness {
	var hs []harness
	for i := range items {
		for j := i; j < len(items); j++ {
			hs = append(hs, harness{[]item{items[i], items[j]}})
		}
	}
	// triples over the core bodies
	var core []item
	for _, it := range items {
		if c20bodies.All[it.body].Core && (it.v == 0 || tier == "thorough" && it.v == 1) {
			core = append(core, it)
		}
	}
	if tier != "thorough" && len(core) > 10 {
		// quick: every third core triple
		n := 0
		for i := range core {
			for j := i; j < len(core); j++ {
				for k := j; k < len(core); k++ {
					if n%3 == 0 {
						hs = append(hs, harness{[]item{core[i], core[j], core[k]}})
					}
					n++
				}
			}
		}
		return hs
	}
	for i := range core {
		for j := i; j < len(core); j++ {
			for k := j; k < len(core); k++ {
				hs = append(hs, harness{[]item{core[i], core[j], core[k]}})
			}
		}
	}
	return hs
}

func (h harness) bodies() ([]func(), []*string) {
	var fs []func()
	var outs []*string
	for _, it := range h.its {
		f, out := runBody(it)()
		fs = append(fs, f)
		outs = append(outs, out)
	}
	return fs, outs
}

// evaluate checks one execution; returns violations found.
func (h harness) evaluate(x *verifrt.Execution, outs []*string, w map[string]bool) []violation {
	var vs []violation
	mk := func(clause, detail string) {
		var ws []string
		for k := range w {
			ws = append(ws, k)
		}
		sort.Strings(ws)
		vs = append(vs, violation{Clause: clause, Detail: detail, Case: replayCase{Mode: "schedule", Items: h.names(), Schedule: append([]int{}, x.Choices...), W: ws}})
	}
	if len(x.Races) > 0 {
		mk("data-race:"+x.RaceVars[0], fmt.Sprintf("harness %v (goroutine i runs the i-th body), schedule %v: %s", h, x.Choices, strings.Join(uniq(x.Races, 4), "; ")))
	}
	if x.Deadlock {
		mk("deadlock", fmt.Sprintf("harness %v, schedule %v: no goroutine can run but not all have finished", h, x.Choices))
	}
	for i, it := range h.its {
		obs := *outs[i]
		for _, p := range x.Panics {
			if strings.HasPrefix(p, fmt.Sprintf("goroutine %d:", i)) {
				obs += " PANIC: " + strings.TrimPrefix(p, fmt.Sprintf("goroutine %d: ", i))
			}
		}
		if x.Deadlock {
			continue
		}
		if obs != solo[it].obs {
			mk("interference:"+c20bodies.All[it.body].Name, fmt.Sprintf("harness %v, schedule %v: goroutine %d (%v) obtains a different result than when running alone; %s", h, x.Choices, i, it, diffAt(solo[it].obs, obs)))
		}
	}
	return vs
}

func uniq(s []string, max int) []string {
	seen := map[string]bool{}
	var r []string
	for _, x := range s {
		if !seen[x] {
			seen[x] = true
			r = append(r, x)
		}
	}
	if len(r) > max {
		r = append(r[:max], fmt.Sprintf("… (%d more)", len(r)-max))
	}
	return r
}

// initialW: variables written by some goroutine of the harness and touched by at least two of them (a variable
// only one goroutine ever touches is private to it in this harness: its accesses commute with everything else).
// The profile is only a first guess; every execution re-checks the rule on what actually happened (conflicts).
func (h harness) initialW() map[string]bool {
	written := map[string]bool{}
	for _, it := range h.its {
		for _, n := range solo[it].writes {
			written[n] = true
		}
		for _, n := range solo[it].dirty {
			written[n] = true
		}
	}
	w := map[string]bool{}
	for n := range written {
		c := 0
		for _, it := range h.its {
			if solo[it].touched[n] {
				c++
			}
		}
		if c >= 2 {
			w[n] = true
		}
	}
	return w
}

// conflicts lists variables written in x and touched by at least two goroutines that are not scheduling points yet.
func conflicts(x *verifrt.Execution, w map[string]bool) []string {
	var r []string
	for n := range x.Writes {
		if w[n] {
			continue
		}
		c := 0
		for _, t := range x.Touched {
			if t[n] {
				c++
			}
		}
		if c >= 2 {
			r = append(r, n)
		}
	}
	sort.Strings(r)
	return r
}

func explore(h harness, tier string, res *result, addViol func(violation), obsSet map[uint64]bool) {
	w := h.initialW()
	maxExec := 1500
	if tier == "thorough" {
		maxExec = 40000
	}
	res.Harnesses++
	total := 0
	nontrivial := false
	bounds := []int{0, 1, 2}
	if len(h.its) > 2 && tier != "thorough" {
		bounds = []int{0, 1}
	}
	for _, bound := range bounds {
	restart:
		var outs []*string
		found := false
		var newW []string
		first := true
		n, capped := verifrt.Explore(func() []func() {
			fs, o := h.bodies()
			outs = o
			return fs
		}, w, bound, maxExec, func(x *verifrt.Execution) bool {
			res.Accesses += int64(x.Accesses)
			res.Steps += int64(x.Steps)
			res.SyncOps += int64(x.SyncOps)
			res.Points += len(x.Points)
			if len(x.Points) > len(h.its) {
				nontrivial = true
			}
			for k, c := range x.Writes {
				res.Written[k] += c
			}
			if first {
				first = false
				shared := map[string]int{}
				for _, t := range x.Touched {
					for k := range t {
						shared[k]++
					}
				}
				for k, c := range shared {
					if c > 1 {
						res.SharedRead[k]++
					}
				}
			}
			for _, o := range outs {
				obsSet[engine.Hash64([]byte(*o))] = true
			}
			if c := conflicts(x, w); len(c) > 0 {
				newW = c
				return false
			}
			vs := h.evaluate(x, outs, w)
			if len(vs) > 0 {
				res.ViolatingExec++
				for _, v := range vs {
					addViol(v)
				}
				found = true
				return false
			}
			return true
		})
		total += n
		res.Executions += n
		if len(newW) > 0 {
			for _, k := range newW {
				w[k] = true
			}
			res.Restarts++
			goto restart
		}
		if capped {
			res.Capped = append(res.Capped, fmt.Sprintf("%v at preemption bound %d: %d executions", h, bound, n))
		}
		if found {
			break
		}
		if len(w) == 0 && !nontrivial {
			// no scheduling points at all: higher bounds explore the same single execution
			break
		}
	}
	if total > res.MaxSchedules {
		res.MaxSchedules = total
	}
	if nontrivial {
		res.NontrivialH++
	}
}

// determinism: replay one schedule twice and compare.
func replayTwice(h harness, w map[string]bool, sched []int) string {
	run := func() (string, []int) {
		snap.Restore()
		fs, outs := h.bodies()
		x := verifrt.RunOnce(fs, sched, w)
		var s []string
		for _, o := range outs {
			s = append(s, *o)
		}
		s = append(s, strings.Join(x.Races, ";"), strings.Join(x.Panics, ";"))
		return strings.Join(s, "\x00"), x.Choices
	}
	a, ca := run()
	b, cb := run()
	if a != b || fmt.Sprint(ca) != fmt.Sprint(cb) {
		return fmt.Sprintf("harness %v: the same schedule %v gave different observations when replayed", h, sched)
	}
	return ""
}

func runShard(tier string, k, n int) *result {
	res := &result{Written: map[string]int{}, SharedRead: map[string]int{}}
	if msg := setup(); msg != "" {
		res.Internal = msg
		return res
	}
	perClause := map[string]int{}
	addViol := func(v violation) {
		perClause[v.Clause]++
		if perClause[v.Clause] <= 2 && len(res.Violations) < 40 {
			res.Violations = append(res.Violations, v)
		}
	}
	obsSet := map[uint64]bool{}
	if k == 0 {
		for _, v := range selfFailed {
			addViol(v)
		}
		depth := 2
		if tier == "thorough" {
			depth = 3
		}
		histories(res, depth, addViol)
		if res.Internal != "" {
			return res
		}
	}
	hs := harnessList(tier)
	for i, h := range hs {
		if i%n != k {
			continue
		}
		if i%97 == k%97 {
			if msg := replayTwice(h, h.initialW(), nil); msg != "" {
				res.Internal = msg
				return res
			}
		}
		explore(h, tier, res, addViol, obsSet)
		if len(res.Samples) < 6 && i%(len(hs)/40+1) == 0 {
			res.Samples = append(res.Samples, fmt.Sprintf("harness %v: scheduling-point variables %v", h, keys(h.initialW())))
		}
	}
	res.BoundDone = 2
	res.DistinctObs = len(obsSet)
	snap.Restore()
	return res
}

func keys(m map[string]bool) []string {
	r := []string{}
	for k := range m {
		r = append(r, k)
	}
	sort.Strings(r)
	return r
}

func doReplay(path string) int {
	b, err := os.ReadFile(path)
	if err != nil {
		fmt.Println("c20: cannot read replay file:", err)
		return 2
	}
	var v violation
	if json.Unmarshal(b, &v) != nil {
		fmt.Println("c20: bad replay file")
		return 2
	}
	if msg := setup(); msg != "" {
		fmt.Println("c20: internal:", msg)
		return 2
	}
	byName := map[string]item{}
	for _, it := range items {
		byName[it.String()] = it
	}
	var its []item
	for _, n := range v.Case.Items {
		it, ok := byName[n]
		if !ok {
			fmt.Println("c20: unknown body", n)
			return 2
		}
		its = append(its, it)
	}
	fmt.Printf("replaying %s: %v\n", v.Case.Mode, v.Case.Items)
	bad := false
	if v.Case.Mode == "history" {
		snap.Restore()
		for i, it := range its {
			f, out := runBody(it)()
			e := verifrt.Profile(f)
			obs := *out
			if len(e.Panics) > 0 {
				obs += " PANIC: " + strings.Join(e.Panics, "; ")
			}
			same := obs == solo[it].obs
			fmt.Printf("  step %d %v: same as in a fresh process: %v; global variables differing from initial content: %v\n", i, it, same, snap.Dirty())
			if !same {
				fmt.Printf("    %s\n", diffAt(solo[it].obs, obs))
				bad = true
			}
		}
	} else {
		h := harness{its}
		w := map[string]bool{}
		for _, n := range v.Case.W {
			w[n] = true
		}
		snap.Restore()
		fs, outs := h.bodies()
		x := verifrt.RunOnce(fs, v.Case.Schedule, w)
		for _, vv := range h.evaluate(x, outs, w) {
			fmt.Printf("  %s: %s\n", vv.Clause, vv.Detail)
			bad = true
		}
	}
	if bad {
		fmt.Printf("VIOLATION property=C20 replay=%s\n", path)
		return 1
	}
	fmt.Println("no violation on this tree")
	return 0
}

func main() {
	if len(os.Args) >= 3 && os.Args[1] == "--replay" {
		os.Exit(doReplay(os.Args[2]))
	}
	if len(os.Args) >= 6 && os.Args[1] == "--worker" {
		k, _ := strconv.Atoi(os.Args[2])
		n, _ := strconv.Atoi(os.Args[3])
		res := runShard(os.Args[4], k, n)
		b, _ := json.Marshal(res)
		os.WriteFile(os.Args[5], b, 0o644)
		return
	}
	tier := "quick"
	if len(os.Args) > 1 {
		tier = os.Args[1]
	}
	start := time.Now()
	nw := 16
	os.MkdirAll(filepath.Join(verifRoot, ".cache"), 0o755)
	tmp, _ := os.MkdirTemp(filepath.Join(verifRoot, ".cache"), "c20-")
	defer os.RemoveAll(tmp)
	type wr struct {
		res *result
		err string
	}
	ch := make(chan wr, nw)
	for k := 0; k < nw; k++ {
		go func(k int) {
			out := filepath.Join(tmp, fmt.Sprintf("w%d.json", k))
			cmd := exec.Command(os.Args[0], "--worker", strconv.Itoa(k), strconv.Itoa(nw), tier, out)
			cmd.Env = append(os.Environ(), "GOMAXPROCS=1")
			ob, err := cmd.CombinedOutput()
			b, rerr := os.ReadFile(out)
			var r result
			if err != nil || rerr != nil || json.Unmarshal(b, &r) != nil {
				ch <- wr{nil, fmt.Sprintf("worker %d failed: %v\n%s", k, err, tailStr(string(ob), 3000))}
				return
			}
			ch <- wr{&r, ""}
		}(k)
	}
	total := &result{Written: map[string]int{}, SharedRead: map[string]int{}}
	var internal []string
	for k := 0; k < nw; k++ {
		w := <-ch
		if w.res == nil {
			internal = append(internal, w.err)
			continue
		}
		r := w.res
		if r.Internal != "" {
			internal = append(internal, r.Internal)
		}
		total.Harnesses += r.Harnesses
		total.Executions += r.Executions
		total.Points += r.Points
		total.Accesses += r.Accesses
		total.Steps += r.Steps
		total.SyncOps += r.SyncOps
		total.Restarts += r.Restarts
		total.NontrivialH += r.NontrivialH
		total.States += r.States
		total.Transitions += r.Transitions
		total.ViolatingExec += r.ViolatingExec
		total.DistinctObs += r.DistinctObs
		if r.HistDepth > total.HistDepth {
			total.HistDepth = r.HistDepth
		}
		if r.MaxSchedules > total.MaxSchedules {
			total.MaxSchedules = r.MaxSchedules
		}
		total.Capped = append(total.Capped, r.Capped...)
		total.Violations = append(total.Violations, r.Violations...)
		total.Samples = append(total.Samples, r.Samples...)
		total.Notes = append(total.Notes, r.Notes...)
		for k, c := range r.Written {
			total.Written[k] += c
		}
		for k, c := range r.SharedRead {
			total.SharedRead[k] += c
		}
	}
	sort.Strings(total.Samples)
	sort.Strings(total.Capped)
	sort.Slice(total.Violations, func(i, j int) bool {
		a, b := total.Violations[i], total.Violations[j]
		if a.Clause != b.Clause {
			return a.Clause < b.Clause
		}
		return len(a.Case.Schedule) < len(b.Case.Schedule)
	})
	if len(internal) > 0 {
		fmt.Println("c20: INTERNAL ERROR (the harness, not the library):")
		for _, m := range internal {
			fmt.Println("  " + m)
		}
		os.Exit(2)
	}

	// report
	known := engine.LoadKnown(filepath.Join(verifRoot, "known_findings.txt"), "C20")
	knownHit := []string{}
	seenClause := map[string]bool{}
	exit := 0
	os.MkdirAll(filepath.Join(verifDir, "replays", "C20"), 0o755)
	nrep := 0
	for _, v := range total.Violations {
		if seenClause[v.Clause] {
			continue
		}
		seenClause[v.Clause] = true
		ev := &engine.Violation{Property: "C20", Clause: v.Clause, Detail: v.Detail, Case: engine.Case{Space: v.Case.Mode, Input: strings.Join(v.Case.Items, ",")}}
		if t := known.Match(ev); t != "" {
			fmt.Printf("KNOWN-FINDING: %s\n", t)
			knownHit = append(knownHit, t)
			continue
		}
		v.Case.Clause, v.Case.Detail = v.Clause, v.Detail
		path := filepath.Join(verifDir, "replays", "C20", fmt.Sprintf("%s-%d.json", tier, nrep))
		nrep++
		b, _ := json.MarshalIndent(v, "", " ")
		os.WriteFile(path, b, 0o644)
		fmt.Printf("C20 %s\n  %s\n", v.Clause, v.Detail)
		fmt.Printf("VIOLATION property=C20 replay=%s\n", path)
		exit = 1
	}
	written := []string{}
	for k := range total.Written {
		written = append(written, k)
	}
	sort.Strings(written)
	shared := []string{}
	for k := range total.SharedRead {
		shared = append(shared, k)
	}
	sort.Strings(shared)
	if len(total.Samples) > 12 {
		total.Samples = total.Samples[:12]
	}
	bodyNames := []string{}
	for _, b := range c20bodies.All {
		bodyNames = append(bodyNames, b.Name)
	}
	cov := map[string]interface{}{
		"evaluations":                      total.Executions,
		"distinct_nontrivial":              total.Harnesses,
		"rule":                             "bodies = one per entry point of every package (each on freshly allocated private data, 2-6 data variants, observation = everything the calls returned, incl. the result of appending to returned slices); harnesses = every unordered pair of (body,variant) incl. a body with itself, and triples over the core bodies; per harness all schedules within the preemption bound, scheduling points = accesses to package-level variables that any body writes (by name, atomically, or found by comparing all memory reachable from package-level variables at every hand-off) + step() between library calls + sync/atomic operations; if nothing is written the goroutines share no mutable memory and the single execution represents every interleaving. histories = breadth-first search over global states (deep hash of all package-level variables), one transition per (state, body), new states only when a body changes global memory. distinct_nontrivial = harnesses (distinct multisets of ≥2 bodies)",
		"samples":                          total.Samples,
		"states":                           total.States,
		"transitions":                      total.Transitions,
		"traces_validated_against_impl":    total.Executions,
		"exhaustive":                       len(total.Capped) == 0,
		"harnesses":                        total.Harnesses,
		"harnesses_with_scheduling_points": total.NontrivialH,
		"schedules_executed":               total.Executions - total.Transitions,
		"max_schedules_per_harness":        total.MaxSchedules,
		"scheduling_points":                total.Points,
		"instrumented_global_accesses":     total.Accesses,
		"steps":                            total.Steps,
		"sync_ops":                         total.SyncOps,
		"preemption_bound_completed":       2,
		"history_depth_completed":          total.HistDepth,
		"package_level_variables":          verifrt.NumRegistered(),
		"snapshot_bytes":                   snap0Bytes(),
		"written_variables":                written,
		"variables_read_by_both_sides":     shared,
		"bodies":                           bodyNames,
		"caps_hit":                         total.Capped,
		"notes":                            total.Notes,
		"violating_executions":             total.ViolatingExec,
		"known_findings_hit":               knownHit,
		"state_definition":                 "content of all package-level variables of the eight packages and of all memory reachable from them (slices to capacity, pointers, maps); sync shim state excluded from comparison but restored",
		"workers":                          nw,
	}
	ev := &engine.Evidence{PropertyID: "C20", Tier: tier, Level: "model_checking", Coverage: cov, WallS: time.Since(start).Seconds(), Violations: len(seenClause),
		Assumptions: []string{
			"goroutines interact only through package-level variables of the module and memory reachable from them at process start (the library starts no goroutines and has no other shared roots); checked separately by the free-running -race pass",
			"a write that restores the previous content before the next scheduling point is invisible to the memory comparison (it is visible to the -race pass)",
			"the instrumented build differs from the plain build only by the Acc wrappers and the sync shims (generated from the current tree at check time)",
		}}
	if err := engine.WriteEvidence(filepath.Join(verifDir, "evidence"), ev); err != nil {
		fmt.Println("c20: cannot write evidence:", err)
		os.Exit(2)
	}
	fmt.Printf("C20 %s: %d harnesses, %d executions (%d with scheduling points, max %d schedules), %d global states, %d transitions, written variables %v, %.1fs\n",
		tier, total.Harnesses, total.Executions, total.NontrivialH, total.MaxSchedules, total.States, total.Transitions, written, time.Since(start).Seconds())
	os.Exit(exit)
}

func snap0Bytes() int {
	s := verifrt.TakeSnapshot()
	return s.Bytes
}

func tailStr(s string, n int) string {
	if len(s) > n {
		return s[len(s)-n:]
	}
	return s
}
