// Command instr generates, from the current working tree of the library, an
// overlay (for `go build -overlay`) in which every use of a package-level
// variable inside a function body goes through verifrt.Acc, every
// package-level variable is registered for deep hashing, and sync /
// sync/atomic are redirected to cooperative shims. The library tree itself
// is not touched.
//
// usage: instr <repo> <outdir> <verifrt_src> [srcdir]   → writes <outdir>/overlay.json
//
// With srcdir (self-tests of the machinery only) the sources are read from a
// scratch copy of the library instead and mapped onto <repo>'s paths, and
// <outdir>/plain.json maps them uninstrumented (for the -race pass).
package main

import (
	"encoding/json"
	"fmt"
	"go/ast"
	"go/parser"
	"go/token"
	"os"
	"path/filepath"
	"sort"
	"strings"
)

const modPath = "github.com/tdewolff/parse/v2"

type edit struct {
	start, end int
	text       string
}

func main() {
	repo, out, rtsrc := os.Args[1], os.Args[2], os.Args[3]
	src := repo
	if len(os.Args) > 4 {
		src = os.Args[4]
	}
	os.MkdirAll(out, 0o755)
	overlay := map[string]string{}
	plain := map[string]string{}
	// the virtual runtime packages
	filepath.Walk(rtsrc, func(p string, info os.FileInfo, err error) error {
		if err == nil && !info.IsDir() && strings.HasSuffix(p, ".go") {
			rel, _ := filepath.Rel(rtsrc, p)
			overlay[filepath.Join(repo, "verifrt", rel)] = p
		}
		return nil
	})
	pkgDirs := []string{"."}
	ents, _ := os.ReadDir(src)
	for _, e := range ents {
		if e.IsDir() && !strings.HasPrefix(e.Name(), ".") && e.Name() != "tests" && e.Name() != "verifrt" {
			pkgDirs = append(pkgDirs, e.Name())
		}
	}
	nextID := 1
	totalVars, totalUses := 0, 0
	var report []string
	for _, dir := range pkgDirs {
		abs := filepath.Join(src, dir)
		fset := token.NewFileSet()
		pkgs, err := parser.ParseDir(fset, abs, func(fi os.FileInfo) bool { return !strings.HasSuffix(fi.Name(), "_test.go") }, parser.ParseComments)
		if err != nil {
			fmt.Fprintln(os.Stderr, "instr: parse", abs, err)
			os.Exit(1)
		}
		for pkgName, pkg := range pkgs {
			if pkgName == "main" {
				continue
			}
			// package-level variables
			globals := map[string]int{} // name -> id
			var names []string
			for _, f := range pkg.Files {
				for _, d := range f.Decls {
					gd, ok := d.(*ast.GenDecl)
					if !ok || gd.Tok != token.VAR {
						continue
					}
					for _, sp := range gd.Specs {
						for _, n := range sp.(*ast.ValueSpec).Names {
							if n.Name != "_" {
								globals[n.Name] = nextID
								nextID++
								names = append(names, n.Name)
							}
						}
					}
				}
			}
			sort.Strings(names)
			totalVars += len(names)
			label := pkgName
			for fname, f := range pkg.Files {
				code, _ := os.ReadFile(fname)
				relName, _ := filepath.Rel(src, fname)
				key := filepath.Join(repo, relName)
				if src != repo {
					overlay[key] = fname
					plain[key] = fname
				}
				var edits []edit
				// top-level var specs of this file (to recognise resolved objects)
				topDecl := map[interface{}]bool{}
				for _, d := range f.Decls {
					if gd, ok := d.(*ast.GenDecl); ok && gd.Tok == token.VAR {
						for _, sp := range gd.Specs {
							topDecl[sp] = true
						}
					}
				}
				uses := 0
				atomicAlias := map[string]bool{}
				for _, imp := range f.Imports {
					if strings.Trim(imp.Path.Value, "\"") == "sync/atomic" {
						if imp.Name != nil {
							atomicAlias[imp.Name.Name] = true
						} else {
							atomicAlias["atomic"] = true
						}
					}
				}
				for _, d := range f.Decls {
					fd, ok := d.(*ast.FuncDecl)
					if !ok || fd.Body == nil {
						continue
					}
					var stack []ast.Node
					ast.Inspect(fd.Body, func(n ast.Node) bool {
						if n == nil {
							stack = stack[:len(stack)-1]
							return true
						}
						stack = append(stack, n)
						id, ok := n.(*ast.Ident)
						if !ok {
							return true
						}
						gid, isGlobalName := globals[id.Name]
						if !isGlobalName {
							return true
						}
						if id.Obj != nil && !(id.Obj.Kind == ast.Var && topDecl[id.Obj.Decl]) {
							return true // a local object shadowing the name
						}
						parent := stack[len(stack)-2]
						switch p := parent.(type) {
						case *ast.SelectorExpr:
							if p.Sel == id {
								return true // field or method name
							}
						case *ast.KeyValueExpr:
							if p.Key == id && id.Obj == nil {
								return true // (possibly) a struct field key
							}
						case *ast.Field, *ast.LabeledStmt, *ast.BranchStmt:
							return true
						}
						kind := 0
						// climb through x[i], x.f, (x), *x, x[a:b] to the statement that uses it
						var child ast.Node = id
						for i := len(stack) - 2; i >= 0; i-- {
							switch p := stack[i].(type) {
							case *ast.ParenExpr:
								child = p
								continue
							case *ast.IndexExpr:
								if p.X == child {
									child = p
									continue
								}
							case *ast.SelectorExpr:
								if p.X == child {
									child = p
									continue
								}
							case *ast.SliceExpr:
								if p.X == child {
									child = p
									continue
								}
							case *ast.StarExpr:
								child = p
								continue
							case *ast.AssignStmt:
								for _, l := range p.Lhs {
									if l == child && p.Tok != token.DEFINE {
										kind = 1
									}
								}
							case *ast.IncDecStmt:
								if p.X == child {
									kind = 1
								}
							case *ast.UnaryExpr:
								if p.Op == token.AND && p.X == child {
									kind = 4 // address taken: a read here; writes through the pointer are found by memory comparison
									if i > 0 {
										if call, ok := stack[i-1].(*ast.CallExpr); ok {
											if sel, ok := call.Fun.(*ast.SelectorExpr); ok {
												if x, ok := sel.X.(*ast.Ident); ok && atomicAlias[x.Name] {
													kind = 2
													if strings.HasPrefix(sel.Sel.Name, "Load") {
														kind = 3
													}
												}
											}
										}
									}
								}
							case *ast.RangeStmt:
								if (p.Key == child || p.Value == child) && p.Tok == token.ASSIGN {
									kind = 1
								}
							case *ast.CallExpr:
								if fn, ok := p.Fun.(*ast.Ident); ok && (fn.Name == "copy" || fn.Name == "clear") && len(p.Args) > 0 && p.Args[0] == child {
									kind = 1
								}
								if fn, ok := p.Fun.(*ast.Ident); ok && fn.Name == "delete" && len(p.Args) > 0 && p.Args[0] == child {
									kind = 1
								}
							}
							break
						}
						s, e := fset.Position(id.Pos()).Offset, fset.Position(id.End()).Offset
						edits = append(edits, edit{s, e, fmt.Sprintf("(*verifrt.Acc(%d, %d, &%s))", gid, kind, id.Name)})
						uses++
						return true
					})
				}
				// redirect sync imports
				needRT := uses > 0
				for _, imp := range f.Imports {
					path := strings.Trim(imp.Path.Value, "\"")
					var repl, alias string
					switch path {
					case "sync":
						repl, alias = modPath+"/verifrt/vsync", "sync"
					case "sync/atomic":
						repl, alias = modPath+"/verifrt/vatomic", "atomic"
					default:
						continue
					}
					s, e := fset.Position(imp.Pos()).Offset, fset.Position(imp.End()).Offset
					if imp.Name != nil {
						alias = imp.Name.Name
					}
					edits = append(edits, edit{s, e, alias + " \"" + repl + "\""})
				}
				if len(edits) == 0 {
					continue
				}
				if needRT {
					e := fset.Position(f.Name.End()).Offset
					edits = append(edits, edit{e, e, "\nimport verifrt \"" + modPath + "/verifrt\"\n"})
				}
				sort.Slice(edits, func(i, j int) bool { return edits[i].start > edits[j].start })
				b := code
				for _, ed := range edits {
					b = append(append(append([]byte{}, b[:ed.start]...), ed.text...), b[ed.end:]...)
				}
				dst := filepath.Join(out, strings.ReplaceAll(relName, string(filepath.Separator), "__"))
				os.WriteFile(dst, b, 0o644)
				overlay[key] = dst
				totalUses += uses
			}
			// registration file
			if len(names) == 0 {
				report = append(report, label+":0")
				continue
			}
			var sb strings.Builder
			sb.WriteString("//go:build verif\n\npackage " + pkgName + "\n\nimport verifrt \"" + modPath + "/verifrt\"\n\nfunc init() {\n")
			for _, n := range names {
				fmt.Fprintf(&sb, "\tverifrt.Register(%q, &%s)\n\tverifrt.Name(%d, %q)\n", label+"."+n, n, globals[n], label+"."+n)
			}
			sb.WriteString("}\n")
			dst := filepath.Join(out, "reg__"+pkgName+".go")
			os.WriteFile(dst, []byte(sb.String()), 0o644)
			overlay[filepath.Join(repo, dir, "zz_verif_register.go")] = dst
			report = append(report, fmt.Sprintf("%s:%d", label, len(names)))
		}
	}
	ov, _ := json.MarshalIndent(map[string]interface{}{"Replace": overlay}, "", " ")
	os.WriteFile(filepath.Join(out, "overlay.json"), ov, 0o644)
	pl, _ := json.MarshalIndent(map[string]interface{}{"Replace": plain}, "", " ")
	os.WriteFile(filepath.Join(out, "plain.json"), pl, 0o644)
	sort.Strings(report)
	fmt.Printf("instr: %d package-level variables (%s), %d instrumented uses, %d overlay files\n", totalVars, strings.Join(report, " "), totalUses, len(overlay))
}
