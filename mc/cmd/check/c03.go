package main

// C03 — js.Parse builds the tree the ECMAScript grammar prescribes; rejects bad code.

import (
	"fmt"
	"strconv"
	"strings"

	"verifmc/engine"

	"github.com/tdewolff/parse/v2/js"
)

func c03Tree(c *engine.Ctx, in []byte, args map[string]string) {
	o := jsOptions(args["opts"])
	ast, err := jsParseCopy(in, o)
	if err != nil {
		c.Fail("valid-rejected", fmt.Sprintf("program %q (opts %s) is derived from the grammar but rejected: %s", in, args["opts"], firstLine(err)))
		return
	}
	want := args["exp"]
	if o.WhileToFor && args["expw"] != "" {
		want = args["expw"]
	}
	if got := ast.String(); got != want {
		c.Fail("tree", fmt.Sprintf("program %q (opts %s)\n      parsed: %s\n      grammar: %s", in, args["opts"], got, want))
		return
	}
	c.Observe(engine.Hash64([]byte(want)))
}

func c03Reject(c *engine.Ctx, in []byte, args map[string]string) {
	ast, err := jsParseCopy(in, jsOptions(args["opts"]))
	if err == nil {
		c.Fail("invalid-accepted:"+args["why"], fmt.Sprintf("program %q (opts %s) must be rejected (%s) but is returned as the tree %s", in, args["opts"], args["why"], ast.String()))
	}
}

// c03Flat: a program that repeats one construct n times side by side (no nesting) is derived from the grammar and
// must be accepted whatever n is. input = one unit; args: n, head, sep, tail
func c03Flat(c *engine.Ctx, in []byte, args map[string]string) {
	n, _ := strconv.Atoi(args["n"])
	var sb strings.Builder
	sb.WriteString(args["head"])
	for i := 0; i < n; i++ {
		if i > 0 {
			sb.WriteString(args["sep"])
		}
		sb.WriteString(strings.ReplaceAll(string(in), "@", strconv.Itoa(i)))
	}
	sb.WriteString(args["tail"])
	if _, err := jsParseCopy([]byte(sb.String()), jsOptions(args["opts"])); err != nil {
		e := err.Error()
		if i := strings.IndexByte(e, '\n'); i > 0 {
			e = e[:i]
		}
		c.Fail("flat-program-rejected", fmt.Sprintf("%s%q repeated %d times (separator %q)%s is rejected (opts %s): %s", args["head"], in, n, args["sep"], args["tail"], args["opts"], e))
	}
}

var c03Contexts = []string{"%s", "function c(){%s}", "async function c(){%s}", "function* c(){%s}", "async function* c(){%s}", "c = () => {%s};", "c = async () => {%s};",
	"c = {m(){%s}};", "c = {async *m(){%s}};", "class c{static{%s}}", "for(;;){%s}", "switch(c){case 1:%s}", "if(c){%s}", "c = function(){%s};"}

// c03Sibling: what a finished construct K leaves behind must not influence how the next statement F is parsed: in
// every context, "K F" and "0; F" are both accepted or both rejected, and F gets the same tree.
// input = K (valid on its own at the top level); args: ctx, f
func c03Sibling(c *engine.Ctx, in []byte, args map[string]string) {
	ci, _ := strconv.Atoi(args["ctx"])
	o := jsOptions(args["opts"])
	k, f := string(in), args["f"]
	kAlone, err := jsParseCopy([]byte(k), o)
	if err != nil {
		c.Fail("harness-sibling", fmt.Sprintf("construct %q is not valid on its own: %v", k, err))
		return
	}
	p1 := fmt.Sprintf(c03Contexts[ci], "0;"+f)
	p2 := fmt.Sprintf(c03Contexts[ci], k+f)
	a1, e1 := jsParseCopy([]byte(p1), o)
	a2, e2 := jsParseCopy([]byte(p2), o)
	if (e1 == nil) != (e2 == nil) {
		c.Fail("sibling-changes-acceptance", fmt.Sprintf("%q is accepted=%v but %q is accepted=%v (opts %s): a completed construct changes how the following statement is parsed", p1, e1 == nil, p2, e2 == nil, args["opts"]))
		return
	}
	if e1 != nil {
		c.Count("sibling-both-rejected", 1)
		return
	}
	s1 := strings.Replace(a1.String(), "Stmt(0) ", "", 1)
	s2 := strings.Replace(a2.String(), kAlone.String()+" ", "", 1)
	if s1 != s2 {
		c.Fail("sibling-changes-tree", fmt.Sprintf("%q ⇒ %s but %q ⇒ %s (opts %s): the statement after the construct gets another tree", p1, a1.String(), p2, a2.String(), args["opts"]))
	}
}

// c03ASI: a statement S that can be ended by automatic semicolon insertion gets the same tree in every context whether
// it is followed by ";", by a line break or directly by the closing brace (or the end of the program).
// input = S without terminator; args: ctx
func c03ASI(c *engine.Ctx, in []byte, args map[string]string) {
	ci, _ := strconv.Atoi(args["ctx"])
	o := jsOptions(args["opts"])
	stmt := string(in)
	ref := fmt.Sprintf(c03Contexts[ci], stmt+";")
	a0, e0 := jsParseCopy([]byte(ref), o)
	for _, term := range []string{"", "\n", " /*c*/ ", "\n;", ";;"} {
		p := fmt.Sprintf(c03Contexts[ci], stmt+term)
		a1, e1 := jsParseCopy([]byte(p), o)
		if (e0 == nil) != (e1 == nil) {
			c.Fail("asi-changes-acceptance", fmt.Sprintf("%q is accepted=%v but %q is accepted=%v (opts %s): the spelling of the statement's end decides", ref, e0 == nil, p, e1 == nil, args["opts"]))
			return
		}
		if e0 != nil {
			c.Count("asi-both-rejected", 1)
			continue
		}
		s0, s1 := a0.String(), a1.String()
		if term == ";;" {
			s1 = strings.Replace(s1, " Stmt()", "", 1) // the second semicolon is an empty statement; one on the next line is the statement's own
		}
		if s0 != s1 {
			c.Fail("asi-changes-tree", fmt.Sprintf("%q ⇒ %s but %q ⇒ %s (opts %s)", ref, s0, p, s1, args["opts"]))
			return
		}
	}
}

func c03Setup(c *engine.Ctx) {
	c.Register(&engine.Space{Name: "js-asi", Run: c03ASI, NoMinimise: true})
	c.Register(&engine.Space{Name: "js-tree", Run: c03Tree, NoMinimise: true})
	c.Register(&engine.Space{Name: "js-reject", Run: c03Reject, NoMinimise: true})
	c.Register(&engine.Space{Name: "js-flat", Run: c03Flat, NoMinimise: true})
	c.Register(&engine.Space{Name: "js-sibling", Run: c03Sibling, NoMinimise: true})
}

// ---- statements ----

type st struct {
	src, exp, expw                   string // expw: with WhileToFor ("" = same as exp)
	isBlock, isEmpty, isDecl         bool
	openIf                           bool // the statement ends with an if that has no else: a following else would attach to it
	tailEmpty                        bool // the statement ends with an empty statement as its last sub-statement (its ';' is not a terminator)
	needsFunc, needsLoop, moduleOnly bool
}

func (s st) w() string {
	if s.expw != "" {
		return s.expw
	}
	return s.exp
}

func exprStmtExp(x string) string {
	if len(x) > 0 && x[0] == '(' && x[len(x)-1] == ')' {
		return "Stmt" + x
	}
	return "Stmt(" + x + ")"
}

func forBody(s st, w bool) string {
	x := s.exp
	if w {
		x = s.w()
	}
	if s.isBlock {
		return x
	}
	if s.isEmpty {
		return "Stmt({ })"
	}
	return "Stmt({ " + x + " })"
}

func whileAsFor(cond string, s st) string {
	if s.isBlock {
		return "Stmt(for ; " + cond + " ; " + s.w() + ")"
	}
	return "Stmt(for ; " + cond + " ; Stmt({ " + s.w() + " }))"
}

type exprPoolItem struct{ src, exp string }

var c03Exprs = []exprPoolItem{
	{"a", "a"}, {"a+b", "(a+b)"}, {"f(a)", "(f(a))"}, {"a=b", "(a=b)"}, {"a,b", "(a,b)"}, {"a?b:c", "(a ? b : c)"}, {"!a", "(!a)"}, {"a.b", "(a.b)"}, {"`t`", "`t`"}, {"/r/", "/r/"},
	{"[a]", "[a]"}, {"a in b", "(a in b)"}, {"a=>b", "(Params(Binding(a)) => Stmt({ Stmt(return b) }))"}, {"new a", "(new a)"}, {"a++", "(a++)"}, {"1", "1"}, {"\"s\"", "\"s\""},
}

func leafStmts() []st {
	var r []st
	r = append(r, st{src: ";", exp: "Stmt()", isEmpty: true}, st{src: "{}", exp: "Stmt({ })", isBlock: true}, st{src: "{a;b}", exp: "Stmt({ Stmt(a) Stmt(b) })", isBlock: true},
		st{src: "debugger;", exp: "Stmt(debugger)"}, st{src: "var v;", exp: "Decl(var Binding(v))", isDecl: true}, st{src: "var v=a,w;", exp: "Decl(var Binding(v = a) Binding(w))", isDecl: true},
		st{src: "throw a;", exp: "Stmt(throw a)"}, st{src: "return;", exp: "Stmt(return)", needsFunc: true}, st{src: "return a;", exp: "Stmt(return a)", needsFunc: true},
		st{src: "break;", exp: "Stmt(break)", needsLoop: true}, st{src: "continue;", exp: "Stmt(continue)", needsLoop: true})
	for _, e := range c03Exprs[:9] {
		r = append(r, st{src: e.src + ";", exp: exprStmtExp(e.exp)})
	}
	return r
}

// compound builds every statement kind around sub-statements s, t and expression e.
func compound(s, t st, e exprPoolItem) []st {
	var r []st
	add := func(src, exp, expw string) {
		last := s
		if strings.HasSuffix(src, t.src) && strings.Contains(src, "else ") {
			last = t
		}
		r = append(r, st{src: src, exp: exp, expw: expw, needsFunc: s.needsFunc || t.needsFunc, needsLoop: false, tailEmpty: !strings.HasSuffix(src, "}") && !strings.HasSuffix(src, "};") && strings.HasSuffix(src, last.src) && (last.isEmpty || last.tailEmpty)})
	}
	nl := s.needsLoop || t.needsLoop
	E, X := e.src, e.exp
	if !nl {
		add("if("+E+")"+s.src, "Stmt(if "+X+" "+s.exp+")", "Stmt(if "+X+" "+s.w()+")")
		r[len(r)-1].openIf = true
		if !s.openIf {
			add("if("+E+")"+s.src+"else "+t.src, "Stmt(if "+X+" "+s.exp+" else "+t.exp+")", "Stmt(if "+X+" "+s.w()+" else "+t.w()+")")
			r[len(r)-1].openIf = t.openIf
		}
		add("with("+E+")"+s.src, "Stmt(with "+X+" "+s.exp+")", "Stmt(with "+X+" "+s.w()+")")
		r[len(r)-1].openIf = s.openIf
		add("l:"+s.src, "Stmt(l : "+s.exp+")", "Stmt(l : "+s.w()+")")
		r[len(r)-1].openIf = s.openIf
		if s.isBlock {
			add("try"+s.src+"catch(e)"+s.src, "Stmt(try "+s.exp+" catch Binding(e) "+s.exp+")", "")
			add("try"+s.src+"catch"+s.src+"finally"+s.src, "Stmt(try "+s.exp+" catch "+s.exp+" finally "+s.exp+")", "")
			add("try"+s.src+"finally"+s.src, "Stmt(try "+s.exp+" finally "+s.exp+")", "")
			add("try"+s.src+"catch({a,b:[c]})"+s.src, "Stmt(try "+s.exp+" catch Binding({ Binding(a), b: Binding([ Binding(c) ]) }) "+s.exp+")", "")
		}
		if !s.isDecl {
			add("function f(p,q=1){"+s.src+"}", "Decl(function f Params(Binding(p), Binding(q = 1)) Stmt({ "+s.exp+" }))", "Decl(function f Params(Binding(p), Binding(q = 1)) Stmt({ "+s.w()+" }))")
			r[len(r)-1].needsFunc = false
			add("x=()=>{"+s.src+"};", "Stmt(x=(Params() => Stmt({ "+s.exp+" })))", "Stmt(x=(Params() => Stmt({ "+s.w()+" })))")
			r[len(r)-1].needsFunc = false
			if !t.needsFunc { // return is not allowed in a static block
				add("class C{m(){"+s.src+"}static{"+t.src+"}}", "Decl(class C Method(m Params() Stmt({ "+s.exp+" })) Static(Stmt({ "+t.exp+" })))", "Decl(class C Method(m Params() Stmt({ "+s.w()+" })) Static(Stmt({ "+t.w()+" })))")
				r[len(r)-1].needsFunc = false
			}
		}
	}
	// loops (sub-statements may break/continue)
	loop := func(src, exp, expw string) {
		r = append(r, st{src: src, exp: exp, expw: expw, needsFunc: s.needsFunc, tailEmpty: !strings.HasPrefix(src, "do ") && !strings.HasPrefix(src, "switch") && strings.HasSuffix(src, s.src) && (s.isEmpty || s.tailEmpty),
			openIf: !strings.HasPrefix(src, "do ") && !strings.HasPrefix(src, "switch") && s.openIf})
	}
	loop("for(;;)"+s.src, "Stmt(for ; ; "+forBody(s, false)+")", "Stmt(for ; ; "+forBody(s, true)+")")
	EI, XI := E, X // the initialiser of a for statement is an Expression[~In]
	if E == "a in b" {
		EI, XI = "(a in b)", "((a in b))"
	}
	loop("for("+EI+";"+E+";"+E+")"+s.src, "Stmt(for "+XI+" ; "+X+" ; "+X+" "+forBody(s, false)+")", "Stmt(for "+XI+" ; "+X+" ; "+X+" "+forBody(s, true)+")")
	loop("for(var i=0,j;;)"+s.src, "Stmt(for Decl(var Binding(i = 0) Binding(j)) ; ; "+forBody(s, false)+")", "Stmt(for Decl(var Binding(i = 0) Binding(j)) ; ; "+forBody(s, true)+")")
	EA, XA := E, X // the right-hand side of for-of is an AssignmentExpression
	if E == "a,b" {
		EA, XA = "(a,b)", "((a,b))"
	}
	loop("for(let k of "+EA+")"+s.src, "Stmt(for Decl(let Binding(k)) of "+XA+" "+forBody(s, false)+")", "Stmt(for Decl(let Binding(k)) of "+XA+" "+forBody(s, true)+")")
	loop("for(const [m,n] in o)"+s.src, "Stmt(for Decl(const Binding([ Binding(m), Binding(n) ])) in o "+forBody(s, false)+")", "Stmt(for Decl(const Binding([ Binding(m), Binding(n) ])) in o "+forBody(s, true)+")")
	loop("for(z of y)"+s.src, "Stmt(for z of y "+forBody(s, false)+")", "Stmt(for z of y "+forBody(s, true)+")")
	loop("while("+E+")"+s.src, "Stmt(while "+X+" "+s.exp+")", whileAsFor(X, s))
	loop("do "+s.src+"while("+E+");", "Stmt(do "+s.exp+" while "+X+")", "Stmt(do "+s.w()+" while "+X+")")
	if !s.isDecl && !t.isDecl {
		loop("switch("+E+"){case 1:"+s.src+"case 2:default:"+t.src+"}", "Stmt(switch "+X+" Clause(case 1 "+s.exp+") Clause(case 2) Clause(default "+t.exp+"))", "Stmt(switch "+X+" Clause(case 1 "+s.w()+") Clause(case 2) Clause(default "+t.w()+"))")
		r[len(r)-1].needsFunc = s.needsFunc || t.needsFunc
		if s.src == "continue;" || t.src == "continue;" {
			r = r[:len(r)-1] // continue needs a loop, a switch is not one
		}
	}
	return r
}

// declarations, classes, functions, imports/exports with their expected forms
func declarationForms() []st {
	var r []st
	add := func(src, exp string) { r = append(r, st{src: src, exp: exp, isDecl: true}) }
	mod := func(src, exp string) { r = append(r, st{src: src, exp: exp, isDecl: true, moduleOnly: true}) }
	add("let [a,{b,c:[d=1]},...e]=f;", "Decl(let Binding([ Binding(a), Binding({ Binding(b), c: Binding([ Binding(d = 1) ]) }), ...Binding(e) ] = f))")
	add("const {a,b:{c},...d}=e;", "Decl(const Binding({ Binding(a), b: Binding({ Binding(c) }), ...Binding(d) } = e))")
	add("var [,a,,]=b;", "Decl(var Binding([ Binding(), Binding(a) ] = b))") // trailing elisions of a pattern bind nothing and are not represented
	for _, p := range []struct{ src, exp string }{{"", ""}, {"a", "Binding(a)"}, {"a,b=1", "Binding(a), Binding(b = 1)"}, {"{c},[d]", "Binding({ Binding(c) }), Binding([ Binding(d) ])"}, {"...e", "...Binding(e)"}, {"a,...[b]", "Binding(a), ...Binding([ Binding(b) ])"}, {"a=b,", "Binding(a = b)"}} {
		for _, k := range []struct{ src, exp string }{{"function f", "function f"}, {"async function f", "async function f"}, {"function*f", "function* f"}, {"async function*f", "async function* f"}} {
			add(k.src+"("+p.src+"){}", "Decl("+k.exp+" Params("+p.exp+") Stmt({ }))")
		}
		add("x=("+p.src+")=>y;", "Stmt(x=(Params("+p.exp+") => Stmt({ Stmt(return y) })))")
		add("x=async("+p.src+")=>{};", "Stmt(x=(async Params("+p.exp+") => Stmt({ })))")
		add("x=function("+p.src+"){};", "Stmt(x=Decl(function Params("+p.exp+") Stmt({ })))")
		add("x={m("+p.src+"){}};", "Stmt(x={Method(m Params("+p.exp+") Stmt({ }))})")
	}
	elems := []struct{ src, exp string }{
		{"a;", "Field(a)"}, {"a=1;", "Field(a = 1)"}, {"static a;", "Field(static a)"}, {"#p=1;", "Field(#p = 1)"}, {"static #q;", "Field(static #q)"}, {"[k]=v;", "Field([k] = v)"}, {"'s';", "Field(s)"},
		{"m(){}", "Method(m Params() Stmt({ }))"}, {"static m(){}", "Method(static m Params() Stmt({ }))"}, {"async m(){}", "Method(async m Params() Stmt({ }))"}, {"*m(){}", "Method(* m Params() Stmt({ }))"},
		{"async*m(){}", "Method(async * m Params() Stmt({ }))"}, {"get x(){}", "Method(get x Params() Stmt({ }))"}, {"set x(v){}", "Method(set x Params(Binding(v)) Stmt({ }))"}, {"static get x(){}", "Method(static get x Params() Stmt({ }))"},
		{"[k](){}", "Method([k] Params() Stmt({ }))"}, {"'s'(){}", "Method(s Params() Stmt({ }))"}, {"1(){}", "Method(1 Params() Stmt({ }))"}, {"#r(){}", "Method(#r Params() Stmt({ }))"}, {"static{}", "Static(Stmt({ }))"},
		{"static{a;}", "Static(Stmt({ Stmt(a) }))"}, {"constructor(){}", "Method(constructor Params() Stmt({ }))"}, {"get;", "Field(get)"}, {"static;", "Field(static)"}, {"async;", "Field(async)"}, {"get(){}", "Method(get Params() Stmt({ }))"},
		{"static static(){}", "Method(static static Params() Stmt({ }))"}, {";", ""},
	}
	for i, e := range elems {
		for _, f := range []struct{ src, exp string }{elems[(i+5)%len(elems)], {"", ""}} {
			body := strings.TrimSpace(e.exp + " " + f.exp)
			if body != "" {
				body = " " + body
			}
			add("class A{"+e.src+f.src+"}", "Decl(class A"+body+")")
			add("x=class extends B{"+e.src+f.src+"};", "Stmt(x=Decl(class extends B"+body+"))")
		}
	}
	add("class A extends B.c{}", "Decl(class A extends (B.c))")
	add("x=class A extends f(){};", "Stmt(x=Decl(class A extends (f())))")
	mod("import a from 'm';", "Stmt(import a from 'm')")
	mod("import {a,b as c,default as d} from 'm';", "Stmt(import { a , b as c , default as d } from 'm')")
	mod("import * as ns from \"m\";", "Stmt(import * as ns from \"m\")")
	mod("import a,{b} from 'm';", "Stmt(import a , { b } from 'm')")
	mod("import a,* as b from 'm';", "Stmt(import a , * as b from 'm')")
	mod("import 'm';", "Stmt(import 'm')")
	mod("import {} from 'm';", "Stmt(import { } from 'm')")
	mod("export {a as b,c};", "Stmt(export { a as b , c })")
	mod("export * from 'm';", "Stmt(export * from 'm')")
	mod("export * as n from 'm';", "Stmt(export * as n from 'm')")
	mod("export {a} from 'm';", "Stmt(export { a } from 'm')")
	mod("export default function(){}", "Stmt(export default Decl(function Params() Stmt({ })))")
	mod("export default class{}", "Stmt(export default Decl(class))")
	mod("export default a+b;", "Stmt(export default (a+b))")
	mod("export const x=1,y=2;", "Stmt(export Decl(const Binding(x = 1) Binding(y = 2)))")
	mod("export function f(){}", "Stmt(export Decl(function f Params() Stmt({ })))")
	mod("export async function*f(){}", "Stmt(export Decl(async function* f Params() Stmt({ })))")
	mod("export class C{}", "Stmt(export Decl(class C))")
	add("'use strict';a;", "Stmt('use strict') Stmt(a)")
	add("x={a,b:c,[d]:e,f(){},get g(){},set h(v){},async i(){},*j(){},async*k(){},...l,'m':1,2:3};", "Stmt(x={a, b: c, [d]: e, Method(f Params() Stmt({ })), Method(get g Params() Stmt({ })), Method(set h Params(Binding(v)) Stmt({ })), Method(async i Params() Stmt({ })), Method(* j Params() Stmt({ })), Method(async * k Params() Stmt({ })), ...l, m: 1, 2: 3})")
	add("x=[a,,b,...c];", "Stmt(x=[a, , b, ...c])")
	add("x=`a${b}c${`d${e}f`}g`;", "Stmt(x=`a${b}c${`d${e}f`}g`)")
	add("x=new.target;", "Stmt(x=(new.target))")
	mod("x=import.meta.u;", "Stmt(x=((import.meta).u))")
	add("x=import('m');", "Stmt(x=(import('m')))")
	return r
}

// ---- ASI ----

type asiCase struct {
	src, exp string
	reject   bool
}

func asiCases() []asiCase {
	var r []asiCase
	// a line terminator counts wherever it stands between the two tokens: also before a comment without one
	for _, nl := range []string{"\n", "\r\n", "\u2028", "/*\n*/", "//c\n", "\n/* c */", "\n/**/ ", "//c\n/*d*/ /*e*/", "/*\n*/ /* c */ "} {
		ok := func(src, exp string) { r = append(r, asiCase{strings.ReplaceAll(src, "\n", nl), exp, false}) }
		bad := func(src string) { r = append(r, asiCase{strings.ReplaceAll(src, "\n", nl), "", true}) }
		ok("a\nb", "Stmt(a) Stmt(b)")
		ok("a\n++b", "Stmt(a) Stmt(++b)")
		ok("a\n--\nb", "Stmt(a) Stmt(--b)")
		ok("a++\nb", "Stmt(a++) Stmt(b)")
		ok("a\n(b)", "Stmt(a(b))")
		ok("a\n[b]", "Stmt(a[b])")
		ok("a\n`t`", "Stmt(a`t`)")
		ok("a\n.b", "Stmt(a.b)")
		ok("a\n+b", "Stmt(a+b)")
		ok("a\n/b/c", "Stmt((a/b)/c)")
		ok("a=b\n,c", "Stmt((a=b),c)")
		ok("var a\nb", "Decl(var Binding(a)) Stmt(b)")
		ok("var a=b\nc", "Decl(var Binding(a = b)) Stmt(c)")
		ok("let a\nlet b", "Decl(let Binding(a)) Decl(let Binding(b))")
		ok("x=a=>b\nc", "Stmt(x=(Params(Binding(a)) => Stmt({ Stmt(return b) }))) Stmt(c)")
		ok("do a\nwhile(b)\nc", "Stmt(do Stmt(a) while b) Stmt(c)")
		ok("do;while(b) c", "Stmt(do Stmt() while b) Stmt(c)")
		ok("{a\n}b", "Stmt({ Stmt(a) }) Stmt(b)")
		ok("{a}", "Stmt({ Stmt(a) })")
		ok("function f(){return\na}", "Decl(function f Params() Stmt({ Stmt(return) Stmt(a) }))")
		ok("function f(){return a\n+b}", "Decl(function f Params() Stmt({ Stmt(return (a+b)) }))")
		ok("for(;;){break\nl}", "Stmt(for ; ; Stmt({ Stmt(break) Stmt(l) }))")
		ok("l:for(;;){continue\nl}", "Stmt(l : Stmt(for ; ; Stmt({ Stmt(continue) Stmt(l) })))")
		ok("l:for(;;){continue l\n}", "Stmt(l : Stmt(for ; ; Stmt({ Stmt(continue l) })))")
		ok("function*g(){yield\na}", "Decl(function* g Params() Stmt({ Stmt(yield) Stmt(a) }))")
		ok("x=async\nfunction f(){}", "Stmt(x=async) Decl(function f Params() Stmt({ }))")
		ok("if(a)b\nelse c", "Stmt(if a Stmt(b) else Stmt(c))")
		ok("class A{a\nb\n*c(){}}", "Decl(class A Field(a) Field(b) Method(* c Params() Stmt({ })))")
		ok("class A{a=1\nb}", "Decl(class A Field(a = 1) Field(b))")
		ok("import a from 'm'\nb", "Stmt(import a from 'm') Stmt(b)")
		ok("throw a\n", "Stmt(throw a)")
		bad("throw\na")
		bad("a\n=>b")
		bad("x=(a)\n=>b")
		bad("for(a\nb\nc);")
		bad("if(a)\nelse b")
		bad("a b")
		bad("a++b")
		bad("var a b")
		bad("x=async a\n=>b")
	}
	// no line terminator: the same token pairs must not get a semicolon
	for _, c := range []asiCase{{"a b", "", true}, {"a ++ b", "", true}, {"var a b", "", true}, {"{a b}", "", true}, {"do a while(b)", "", true}, {"[a b];", "", true}, {"a;b", "Stmt(a) Stmt(b)", false}, {"a}", "", true}} {
		r = append(r, c)
	}
	return r
}

// ---- redeclarations ----

func redeclCases() []asiCase {
	var r []asiCase
	decls := map[string]string{"let": "let a;", "const": "const a=1;", "class": "class a{}"}
	scopes := []struct{ pre, post string }{
		{"", ""}, {"{", "}"}, {"function f(){", "}"}, {"for(;;){", "}"}, {"switch(x){case 1:", "}"}, {"try{}catch(e){", "}"}, {"class C{static{", "}}"}, {"x=()=>{", "}"}, {"if(x){", "}"}, {"l:{", "}"}, {"x=function(){", "}"}, {"x={m(){", "}}"},
		// scopes whose own name, parameter or catch variable is the redeclared name (one shadowing is legal, two are not)
		{"x=function a(){", "}"}, {"x=function*a(){", "}"}, {"x=async function a(){", "}"}, {"x=class a{m(){", "}}"}, {"x=class a{static{", "}}"}, {"function a(){", "}"},
		{"try{}catch(a){{", "}}"}, {"x={a(){", "}}"}, {"a:{", "}"},
	}
	for _, sc := range scopes {
		for k1, d1 := range decls {
			for k2, d2 := range decls {
				r = append(r, asiCase{sc.pre + d1 + d2 + sc.post, k1 + "+" + k2, true})
				// any statement between the two declarations (loops matter: WhileToFor rewrites them) must not hide the first one
				for _, mid := range []string{"y;", "while(x){}", "while(x);", "for(;;){break}", "for(let i of y){}", "{}", "{let a}", "if(x){}else{}", "switch(x){}", "try{}catch{}", "l:;", "do{}while(x);", "function g(){let a}", "x=()=>{};", "class D{}", "var v;"} {
					r = append(r, asiCase{sc.pre + d1 + mid + d2 + sc.post, k1 + "+" + k2, true})
				}
			}
		}
		// the same names in different scopes are fine
		r = append(r, asiCase{sc.pre + "let a;{let a;}" + sc.post, "", false}, asiCase{sc.pre + "let a;x=function(){let a};" + sc.post, "", false})
	}
	r = append(r, asiCase{"let a,a;", "let+let", true}, asiCase{"let [a,a]=b;", "let+let", true}, asiCase{"let {a,b:a}=c;", "let+let", true}, asiCase{"const a=1,b=2,a=3;", "const+const", true},
		asiCase{"switch(x){case 1:let a;case 2:let a}", "let+let", true}, asiCase{"for(let a,a;;);", "let+let", true})
	return r
}

func c03Work(c *engine.Ctx) {
	tree := c.SpaceByName("js-tree")
	rej := c.SpaceByName("js-reject")
	k := 0
	emitTree := func(src, exp, expw string, moduleOnly bool) {
		k++
		if !c.Mine(k) {
			return
		}
		for _, o := range jsOptionNames {
			if moduleOnly && o[1] == '1' {
				continue
			}
			c.Exec(tree, []byte(src), map[string]string{"opts": o, "exp": exp, "expw": expw})
			c.Count("exec", 1)
		}
		c.Count("programs", 1)
		c.Count("distinct_nontrivial", 1)
		if k%4001 == 0 {
			c.Sample(src + "  ⇒  " + exp)
		}
	}
	emitReject := func(src, why string) {
		k++
		if !c.Mine(k) {
			return
		}
		for _, o := range jsOptionNames {
			c.Exec(rej, []byte(src), map[string]string{"opts": o, "why": why})
			c.Count("exec", 1)
		}
		c.Count("negatives", 1)
	}
	brackets := func(src string) {
		// every single deletion of a bracket, every insertion of a bracket at every position outside literals
		atomic := make([]bool, len(src)+1)
		for _, lit := range []string{"\"s\"", "`t`", "/r/"} {
			for i := 0; i+len(lit) <= len(src); i++ {
				if src[i:i+len(lit)] == lit {
					for j := i + 1; j < i+len(lit); j++ {
						atomic[j] = true
					}
				}
			}
		}
		for i := 0; i < len(src); i++ {
			if strings.IndexByte("()[]{}", src[i]) >= 0 {
				emitReject(src[:i]+src[i+1:], "bracket deleted")
			}
		}
		for i := 0; i <= len(src); i++ {
			if atomic[i] {
				continue
			}
			for _, b := range "()[]{}" {
				emitReject(src[:i]+string(b)+src[i:], "bracket inserted")
			}
		}
	}
	emitExpr := func(e *ex, modes bool, neg bool) {
		yield := e.hasYield()
		if yield && e.hasAwait() {
			return
		}
		wrap := func(s, x string) (string, string) {
			if e.level() < 2 {
				return "(" + s + ")", "(" + x + ")" // an array element is an AssignmentExpression
			}
			return s, x
		}
		s0, x0 := wrap(e.render(0, nil))
		src, exp := exprProgram(s0, x0, yield)
		emitTree(src, exp, "", false)
		if neg {
			brackets(src)
		}
		if modes {
			s1, x1 := wrap(e.render(1, nil))
			if s1 != s0 {
				src, exp = exprProgram(s1, x1, yield)
				emitTree(src, exp, "", false)
			}
			var ns []*ex
			e.nodes(&ns)
			for _, n := range ns[1:] {
				s2, x2 := wrap(e.render(2, n))
				src, exp = exprProgram(s2, x2, yield)
				emitTree(src, exp, "", false)
			}
			// whitespace, line breaks and comments around the whole expression
			src, exp = exprProgram(" "+s0+"\n", x0, yield)
			emitTree(src, exp, "", false)
			src, exp = exprProgram("/**/"+s0+"/*\n*/", x0, yield)
			emitTree(src, exp, "", false)
		}
	}
	specs := allOpSpecs()
	// one operator: every leaf kind at every operand position
	for _, sp := range specs {
		var rec func(i int, kids []*ex)
		rec = func(i int, kids []*ex) {
			if i == sp.arity {
				e := &ex{kind: sp.kind, op: sp.op, kids: append([]*ex{}, kids...)}
				if e.valid() {
					emitExpr(e, true, sp.arity <= 2)
				}
				return
			}
			pool := exLeafPool
			if i > 0 && sp.arity > 2 {
				pool = exLeafPool[:4]
			}
			for _, l := range pool {
				lc := *l
				rec(i+1, append(kids, &lc))
			}
		}
		rec(0, nil)
	}
	// two operators: all pairs in all shapes, all spellings
	enumTrees(specs, 2, func(e *ex) { emitExpr(e, true, false) })
	// three operators
	if c.Thorough() {
		enumTrees(specs, 3, func(e *ex) { emitExpr(e, true, false) })
		enumTrees(binarySpecs(), 4, func(e *ex) { emitExpr(e, false, false) })
	} else {
		enumTrees(binarySpecs(), 3, func(e *ex) { emitExpr(e, false, false) })
		enumTrees(specs, 3, func(e *ex) { emitExpr(e, false, false) })
		var core []opSpec
		for _, sp := range specs {
			switch sp.op {
			case "!", "-", "typeof", "++", "**", "+", "??", "||", "in", "=", "?:", ",", "p", "()", "new", "new()", "q", "yield":
				if !(sp.kind == kCall && sp.arity == 3) && !(sp.kind == kComma && sp.arity == 3) {
					core = append(core, sp)
				}
			}
		}
		enumTrees(core, 3, func(e *ex) { emitExpr(e, false, false) })
	}
	// forbidden operator sequences at every operand position of every one-operator expression
	var forb []string
	for _, u := range prefixOps {
		sp := ""
		if isWord(u) {
			sp = " "
		}
		forb = append(forb, u+sp+"a**b")
	}
	forb = append(forb, "a??b||c", "a||b??c", "a&&b??c", "a??b&&c", "a??b||c??d")
	for _, b := range binOps {
		for _, a := range assignOps {
			if isWord(b) {
				forb = append(forb, "a "+b+" b"+a+"c")
			} else {
				forb = append(forb, "a"+b+"b"+a+"c")
			}
		}
	}
	for _, f := range forb {
		emitReject("["+f+"];", "forbidden operator sequence")
		emitReject(f, "forbidden operator sequence")
		for _, sp := range specs {
			if sp.kind == kYield || sp.kind == kYieldStar || sp.kind == kPreUpdate || sp.kind == kPostUpdate {
				continue
			}
			for pos := 0; pos < sp.arity; pos++ {
				if pos == 0 && (sp.kind == kAssign) {
					continue
				}
				e := &ex{kind: sp.kind, op: sp.op}
				for i := 0; i < sp.arity; i++ {
					nm := exLeafNames[4+i]
					e.kids = append(e.kids, &ex{kind: kLeaf, src: nm, exp: nm, lhs: true})
				}
				e.kids[pos] = &ex{kind: kLeaf, src: f, exp: "?"}
				s, _ := e.render(0, nil)
				emitReject("["+s+"];", "forbidden operator sequence")
			}
		}
	}
	// statements: every kind × sub-statements × expressions, nesting depth 2 (3 in thorough over a core)
	leaves := leafStmts()
	emitStmt := func(s st) {
		if s.needsLoop {
			return
		}
		if s.needsFunc {
			emitTree("function w(){"+s.src+"}", "Decl(function w Params() Stmt({ "+s.exp+" }))", "Decl(function w Params() Stmt({ "+s.w()+" }))", false)
			// at top level `return` is only allowed with Options.Inline
			k++
			if c.Mine(k) {
				for _, o := range []string{"01", "11"} {
					ew := ""
					if o[0] == '1' {
						ew = s.w()
					}
					c.Exec(tree, []byte(s.src), map[string]string{"opts": o, "exp": s.exp, "expw": ew})
					c.Count("exec", 1)
				}
				if strings.HasPrefix(s.src, "return") {
					c.Exec(rej, []byte(s.src), map[string]string{"opts": "00", "why": "return outside a function"})
					c.Count("exec", 1)
				}
			}
			return
		}
		emitTree(s.src, s.exp, s.expw, s.moduleOnly)
	}
	for _, s := range leaves {
		emitStmt(s)
	}
	var level1 []st
	for i, s := range leaves {
		for j, t := range leaves {
			if (i+j)%3 != 0 && !c.Thorough() {
				continue
			}
			for ei, e := range c03Exprs {
				if (i+j+ei)%4 != 0 && !(i < 3 && j < 3) {
					continue
				}
				for _, cs := range compound(s, t, e) {
					emitStmt(cs)
					if len(level1) < 4000 && (i+j+ei)%5 == 0 {
						level1 = append(level1, cs)
					}
				}
			}
		}
	}
	// bracket mutations of the statement programs
	for i, s := range level1 {
		if i%c.Pick(40, 8) == 0 && !s.needsFunc && !s.needsLoop && !strings.Contains(s.src, "/r/") && !strings.Contains(s.src, "`t`") {
			brackets(s.src)
		}
	}
	// depth 2: compound statements as sub-statements
	step := c.Pick(37, 7)
	for i := 0; i < len(level1); i += step {
		s := level1[i]
		t := level1[(i*7+3)%len(level1)]
		if s.needsLoop || t.needsLoop {
			continue
		}
		s.isBlock, t.isBlock = false, false
		s.isDecl = strings.HasPrefix(s.exp, "Decl(")
		t.isDecl = strings.HasPrefix(t.exp, "Decl(")
		if s.isDecl || t.isDecl {
			continue // function declarations are not allowed as bodies of if/while/…
		}
		for _, cs := range compound(s, t, c03Exprs[i%len(c03Exprs)]) {
			emitStmt(cs)
		}
	}
	for _, d := range declarationForms() {
		emitTree(d.src, d.exp, "", d.moduleOnly)
		emitTree(" "+strings.ReplaceAll(d.src, ";", " ;\n")+"\n", d.exp, "", d.moduleOnly)
		if !strings.Contains(d.src, "`") && !strings.Contains(d.src, "'") && !strings.Contains(d.src, "\"") {
			brackets(d.src)
		}
	}
	// statement sequences of length 2 with every separator
	seqPool := append(append([]st{}, leaves[:8]...), level1[:min(len(level1), 40)]...)
	for _, a := range seqPool {
		for _, b := range seqPool {
			if a.needsFunc || b.needsFunc || a.needsLoop || b.needsLoop {
				continue
			}
			if strings.Contains(a.src, "class C") && strings.Contains(b.src, "class C") || strings.Contains(a.src, "function f") && strings.Contains(b.src, "function f") {
				continue // would declare the same name twice
			}
			for _, sep := range []string{"", " ", "\n", "/*\n*/", "\u2028", "\n/* c */ "} {
				if b.isEmpty && (a.isEmpty || a.tailEmpty || !strings.HasSuffix(a.src, ";")) && !strings.ContainsAny(sep, "\n\u2028") {
					// representation convention: the parser swallows one ';' on the same line after any statement,
					// so an empty statement directly after a block-like statement (or after another ';') is not represented
					emitTree(a.src+sep+b.src, a.exp, a.w(), false)
					continue
				}
				emitTree(a.src+sep+b.src, a.exp+" "+b.exp, a.w()+" "+b.w(), false)
			}
		}
	}
	for _, a := range asiCases() {
		if a.reject {
			emitReject(a.src, "ASI not applicable")
		} else {
			emitTree(a.src, a.exp, "", strings.HasPrefix(a.src, "import"))
		}
	}
	// the [In] grammar parameter: inside the initialiser of a for statement `in` is an operator only where the grammar
	// switches the parameter back on (middle operand of ?:, brackets, parentheses, arguments, literals, function bodies)
	for _, a := range []asiCase{
		{"for(var x=a?b in c:d;;){}", "Stmt(for Decl(var Binding(x = (a ? (b in c) : d))) ; ; Stmt({ }))", false},
		{"for(x=a?b in c:d;;){}", "Stmt(for (x=(a ? (b in c) : d)) ; ; Stmt({ }))", false},
		{"for(x=a?b?c in d:e:f;;){}", "Stmt(for (x=(a ? (b ? (c in d) : e) : f)) ; ; Stmt({ }))", false},
		{"for(a?b in c:d;;){}", "Stmt(for (a ? (b in c) : d) ; ; Stmt({ }))", false},
		{"for(var x=[a in b];;){}", "Stmt(for Decl(var Binding(x = [(a in b)])) ; ; Stmt({ }))", false},
		{"for(var x=f(a in b);;){}", "Stmt(for Decl(var Binding(x = (f((a in b))))) ; ; Stmt({ }))", false},
		{"for(var x={k:a in b};;){}", "Stmt(for Decl(var Binding(x = {k: (a in b)})) ; ; Stmt({ }))", false},
		{"for(var x=(a in b);;){}", "Stmt(for Decl(var Binding(x = ((a in b)))) ; ; Stmt({ }))", false},
		{"for(var x=a[b in c];;){}", "Stmt(for Decl(var Binding(x = (a[(b in c)]))) ; ; Stmt({ }))", false},
		{"for(var x=y=>{a in b};;){}", "Stmt(for Decl(var Binding(x = (Params(Binding(y)) => Stmt({ Stmt(a in b) })))) ; ; Stmt({ }))", false},
		{"for(var x=function(){a in b};;){}", "Stmt(for Decl(var Binding(x = Decl(function Params() Stmt({ Stmt(a in b) })))) ; ; Stmt({ }))", false},
		{"for(;a in b;c in d){}", "Stmt(for ; (a in b) ; (c in d) Stmt({ }))", false},
		{"for(let [a=b in c] of d);", "Stmt(for Decl(let Binding([ Binding(a = (b in c)) ])) of d Stmt({ }))", false},
		{"for(var {a=b in c}=d;;);", "Stmt(for Decl(var Binding({ Binding(a = (b in c)) } = d)) ; ; Stmt({ }))", false},
		{"for(let {x:[a=b in c]} in d);", "Stmt(for Decl(let Binding({ x: Binding([ Binding(a = (b in c)) ]) })) in d Stmt({ }))", false},
		{"for(var x=a?.[b in c];;){}", "Stmt(for Decl(var Binding(x = (a?.[(b in c)]))) ; ; Stmt({ }))", false},
		{"for(var x=a?.(b in c);;){}", "Stmt(for Decl(var Binding(x = (a?.((b in c))))) ; ; Stmt({ }))", false},
		{"for(var x=new A(b in c);;){}", "Stmt(for Decl(var Binding(x = (new A((b in c))))) ; ; Stmt({ }))", false},
		{"for(var x=`${a in b}`;;){}", "Stmt(for Decl(var Binding(x = `${(a in b)}`)) ; ; Stmt({ }))", false},
		{"for(var x=class{[a in b](){}};;){}", "Stmt(for Decl(var Binding(x = Decl(class Method([a in b] Params() Stmt({ }))))) ; ; Stmt({ }))", false},
		{"for(var x={[a in b]:1};;){}", "Stmt(for Decl(var Binding(x = {[a in b]: 1})) ; ; Stmt({ }))", false},
		{"for(var x=function(y=a in b){};;){}", "Stmt(for Decl(var Binding(x = Decl(function Params(Binding(y = (a in b))) Stmt({ })))) ; ; Stmt({ }))", false},
		{"for(var x=(y=a in b)=>1;;){}", "Stmt(for Decl(var Binding(x = (Params(Binding(y = (a in b))) => Stmt({ Stmt(return 1) })))) ; ; Stmt({ }))", false},
		{"for(var x=a in b;;){}", "", true},
		{"for(x=a?b:c in d;;){}", "", true},
		{"for(var x=y=>a in b;;){}", "", true},
		{"for(let x=a||b in c;;){}", "", true},
	} {
		if a.reject {
			emitReject(a.src, "`in` where the grammar parameter [In] is off")
		} else {
			emitTree(a.src, a.exp, "", false)
		}
	}
	// class elements: every modifier combination × every kind of name, in particular the names that are modifiers
	// themselves (get, set, async, static)
	{
		names := [][2]string{{"a", "a"}, {"get", "get"}, {"set", "set"}, {"async", "async"}, {"static", "static"}, {"'k'", "k"}, {"1", "1"}, {"[k]", "[k]"}, {"#p", "#p"}, {"of", "of"}, {"await", "await"}}
		for _, nm := range names {
			for _, st := range []string{"", "static "} {
				type member struct{ src, exp string }
				ms := []member{
					{nm[0] + "(){}", "Method(" + st + nm[1] + " Params() Stmt({ }))"},
					{"get " + nm[0] + "(){}", "Method(" + st + "get " + nm[1] + " Params() Stmt({ }))"},
					{"set " + nm[0] + "(v){}", "Method(" + st + "set " + nm[1] + " Params(Binding(v)) Stmt({ }))"},
					{"async " + nm[0] + "(){}", "Method(" + st + "async " + nm[1] + " Params() Stmt({ }))"},
					{"*" + nm[0] + "(){}", "Method(" + st + "* " + nm[1] + " Params() Stmt({ }))"},
					{"async*" + nm[0] + "(){}", "Method(" + st + "async * " + nm[1] + " Params() Stmt({ }))"},
					{nm[0] + ";", "Field(" + st + nm[1] + ")"},
					{nm[0] + "=1;", "Field(" + st + nm[1] + " = 1)"},
				}
				for _, m := range ms {
					emitTree("class A{"+st+m.src+"}", "Decl(class A "+m.exp+")", "", false)
					emitTree("x=class{"+st+m.src+"m(){}}", "Stmt(x=Decl(class "+m.exp+" Method(m Params() Stmt({ }))))", "", false)
				}
			}
		}
	}
	// flat repetition: size without nesting (lists of statements, elements, arguments, properties, members, cases,
	// bindings, parameters, substitutions; chains of binary or member operators are left out: they are nested in the
	// grammar's derivation and in the tree, and the documented NestedExprLimit applies to them)
	flat := c.SpaceByName("js-flat")
	type flatCase struct{ unit, head, sep, tail string }
	for _, fc := range []flatCase{
		{"a=1;", "", "", ""}, {"a=1", "", "\n", ""}, {"1", "x=[", ",", "];"}, {"1", "f(", ",", ");"}, {"k@:1", "x={", ",", "};"}, {"if(1<2)b=3*4", "", "\n", ""},
		{"a@", "let ", ",", ";"}, {"a@=1", "var ", ",", ";"}, {"case @:;", "switch(x){", "", "}"}, {"m@(){}", "class C{", "", "}"}, {"#p@=1", "class C{", ";", "}"}, {"a", "x=(", ",", ");"},
		{"${1}", "x=`", "", "`;"}, {"p@", "function f(", ",", "){}"}, {"{}", "", "", ""}, {";", "", "", ""},
		{"a@=>1", "x=[", ",", "];"}, {"function f@(){}", "", "", ""}, {"[1]", "x=[", ",", "];"}, {"{a:1}", "x=[", ",", "];"}, {"-1", "x=[", ",", "];"}, {"!0", "x=[", ",", "];"}, {"/r/", "x=[", ",", "];"},
		{"l@:;", "", "", ""},
		// every expression form as a list element, every statement form in a row: a depth counter that is not
		// restored on some path adds up
		{"(1)", "x=[", ",", "];"}, {"`t${1}`", "x=[", ",", "];"}, {"a?1:2", "x=[", ",", "];"}, {"a=1", "x=[", ",", "];"}, {"f(1)", "x=[", ",", "];"}, {"a[1]", "x=[", ",", "];"}, {"async()=>1", "x=[", ",", "];"},
		{"function(){}", "x=[", ",", "];"}, {"class{}", "x=[", ",", "];"}, {"(1,2)", "x=[", ",", "];"}, {"a??b", "x=[", ",", "];"}, {"typeof a", "x=[", ",", "];"}, {"a++", "x=[", ",", "];"}, {"a.b", "x=[", ",", "];"},
		{"...a", "x=[", ",", "];"}, {"1n", "x=[", ",", "];"}, {"'s'", "x=[", ",", "];"}, {"this", "x=[", ",", "];"}, {"null", "x=[", ",", "];"}, {"a`t`", "x=[", ",", "];"}, {"import.meta", "x=[", ",", "];"}, {"1+2", "x=[", ",", "];"},
		{"await 1", "async function f(){x=[", ",", "];}"}, {"yield 1", "function*f(){x=[", ",", "];}"}, {"new.target", "function f(){x=[", ",", "];}"},
		{"if(a)b;", "", "", ""}, {"if(a)b;else c;", "", "", ""}, {"for(;;)break;", "", "", ""}, {"for(a in b);", "", "", ""}, {"for(a of b);", "", "", ""}, {"while(0);", "", "", ""}, {"do;while(0)", "", "\n", ""},
		{"switch(a){case 1:}", "", "", ""}, {"try{}catch{}finally{}", "", "", ""}, {"class C@{}", "", "", ""}, {"throw a;", "", "", ""}, {"debugger;", "", "", ""}, {"var a;", "", "", ""}, {"let b@;", "", "", ""},
		{"return;", "function f(){", "", "}"}, {"return 1;", "x=()=>{", "", "};"}, {"break;", "for(;;){", "", "}"}, {"continue;", "for(;;){", "", "}"}, {"x=1", "", ";", ""}, {"a:b", "x={", ",", "};"}, {"[a@]", "let[", ",", "]=z;"},
		{"k@:v@", "let{", ",", "}=z;"}, {"a@=1", "function f(", ",", "){}"}, {"static{}", "class C{", "", "}"}, {"get g@(){}", "class C{", "", "}"}, {"${1}", "x=f`", "", "`;"}, {"a?.b", "x=[", ",", "];"}, {"new A(1)", "x=[", ",", "];"}, {"import a@ from 'm'", "", "\n", ""}, {"export var e@=1", "", "\n", ""},
	} {
		for _, n := range []int{999, 1000, 1001, 2500} {
			k++
			if !c.Mine(k) {
				continue
			}
			for _, o := range jsOptionNames {
				if strings.Contains(fc.unit, "import") || strings.Contains(fc.unit, "export") {
					if o[1] == '1' {
						continue
					}
				}
				c.Exec(flat, []byte(fc.unit), map[string]string{"opts": o, "n": strconv.Itoa(n), "head": fc.head, "sep": fc.sep, "tail": fc.tail})
				c.Count("exec", 1)
			}
			c.Count("flat-programs", 1)
		}
	}
	// sibling independence: constructs that switch parser context on and must switch it back
	sib := c.SpaceByName("js-sibling")
	constructs := []string{"g = async a => a;", "g = async a => { await a };", "g = async (a) => { await a };", "g = a => a;", "g = (a) => { };", "g = async function(){ await 1 };", "g = function*(){ yield 1 };",
		"g = async function*(){ yield await 1 };", "g = function(){ return new.target };", "function k(){ return 1 }", "async function k(){ await 1 }", "function* k(){ yield }",
		"class K { async *m(){ yield await 1 } static { this.x } get p(){ return super.p } }", "g = { async m(){ await 1 }, *n(){ yield 1 }, get p(){ return 1 } };", "for (const z of []) { continue }", "l: for(;;){ break l }",
		"for (var i = 0 in {};;) ;", "g = `${async a => a}`;", "g = [async a => a, function*(){ yield }];", "do ; while (0)", "switch (g) { case 1: break }", "try { } catch { } finally { }", "if (g) ; else ;", "g = class { static async m(){ await 1 } };"}
	follow := []string{"await x;", "yield x;", "yield;", "var await;", "var yield;", "await: 1;", "yield: 1;", "for await (x of y);", "return;", "return 1;", "break;", "continue;", "x = y in z;", "new.target;", "super.x;",
		"arguments;", "let await;", "x = await;", "x = yield;", "x = async () => await y;", "this;", "for (x = y in z;;);", "x = await + 1;", "x = yield * 2;", "async function q(){ await 1 }", "function* q(){ yield 1 }", "let x = 1;", "break l;", "'use strict';", "'x'; y;", "export default 1;", "export default function(){}", "import q from 'm';", "x = a ? b in c : d;"}
	for ci := range c03Contexts {
		for _, kc := range constructs {
			if kc == "for (var i = 0 in {};;) ;" {
				continue // not valid; kept out (placeholder for the [In] family above)
			}
			for _, f := range follow {
				k++
				if !c.Mine(k) {
					continue
				}
				for _, o := range jsOptionNames {
					c.Exec(sib, []byte(kc), map[string]string{"opts": o, "ctx": strconv.Itoa(ci), "f": f})
					c.Count("exec", 1)
				}
				c.Count("sibling-programs", 1)
			}
		}
	}
	// the end of a statement: ";", line break, nothing before "}" — for statements that begin with every word that the
	// statement parser looks at first
	asi := c.SpaceByName("js-asi")
	for ci := range c03Contexts {
		for _, st := range []string{"async", "async(a)", "async () => {}", "async a => a", "async.b", "async\n(a)", "let", "let.a", "of", "get", "set", "static", "x", "x = 1", "x++", "x()", "x`t`", "x.y", "new x", "new x()", "this", "null", "1", "'s'", "/r/g",
			"[a]", "(a)", "`t`", "+a", "-a", "!a", "~a", "typeof a", "void 0", "delete a.b", "a ? b : c", "a, b", "a => a", "() => {}", "function(){}.call()", "class{}.x", "yield", "yield 1", "await", "await 1", "return", "return 1", "break", "continue", "throw a", "debugger",
			"var v", "var v = 1", "let w = 1", "const k = 1", "do x; while (y)", "import('m')", "import.meta", "x = function(){}", "x = class{}", "x = {a}", "x = a => {}", "x = async () => {}", "super.x", "new.target", "arguments", "eval('1')"} {
			k++
			if !c.Mine(k) {
				continue
			}
			for _, o := range jsOptionNames {
				c.Exec(asi, []byte(st), map[string]string{"opts": o, "ctx": strconv.Itoa(ci)})
				c.Count("exec", 1)
			}
			c.Count("asi-programs", 1)
		}
	}
	// operand-less yield in front of every token that can follow it; restricted productions in class bodies; the
	// automatic semicolon after an arrow function with a block body; cover grammar of arrow parameters
	for _, a := range []asiCase{
		{"function*g(){x=`${yield}`}", "Decl(function* g Params() Stmt({ Stmt(x=`${(yield)}`) }))", false},
		{"function*g(){x=`a${yield}b${yield 1}c`}", "Decl(function* g Params() Stmt({ Stmt(x=`a${(yield)}b${(yield 1)}c`) }))", false},
		{"function*g(){x=[yield]}", "Decl(function* g Params() Stmt({ Stmt(x=[(yield)]) }))", false},
		{"function*g(){x=a?yield:yield}", "Decl(function* g Params() Stmt({ Stmt(x=(a ? (yield) : (yield))) }))", false},
		{"class A{static\nfoo(){}}", "Decl(class A Method(static foo Params() Stmt({ })))", false},
		{"class A{get\nfoo(){}}", "Decl(class A Method(get foo Params() Stmt({ })))", false},
		{"class A{async\nfoo(){}}", "Decl(class A Field(async) Method(foo Params() Stmt({ })))", false},
		{"x=a=>{}\n(b)", "Stmt(x=(Params(Binding(a)) => Stmt({ }))) Stmt((b))", false},
		{"x=a=>{}\n[b]", "Stmt(x=(Params(Binding(a)) => Stmt({ }))) Stmt([b])", false},
		{"x=a=>{}\n/re/g", "Stmt(x=(Params(Binding(a)) => Stmt({ }))) Stmt(/re/g)", false},
		{"function*g(){yield\n/re/g}", "Decl(function* g Params() Stmt({ Stmt(yield) Stmt(/re/g) }))", false},
		{"if(a)b\n;else c", "Stmt(if a Stmt(b) else Stmt(c))", false},
		{"do a\n;while(b)", "Stmt(do Stmt(a) while b)", false},
		{"a\n;b", "Stmt(a) Stmt(b)", false},
		{"async:for(;;)break async;", "Stmt(async : Stmt(for ; ; Stmt({ Stmt(break async) })))", false},
		{"let f;{function f(){}}", "Decl(let Binding(f)) Stmt({ Decl(function f Params() Stmt({ })) })", false},
		{"for(let in a);", "Stmt(for let in a Stmt({ }))", false},
		{"for(async in x);", "Stmt(for async in x Stmt({ }))", false},
		{"for((async) of x);", "Stmt(for (async) of x Stmt({ }))", false},
		{"for await(async of x);", "Stmt(for await async of x Stmt({ }))", false},
		{"({[[1][0]]:b})=>b", "Stmt(Params(Binding({ [[1][0]]: Binding(b) })) => Stmt({ Stmt(return b) }))", false},
		{"({[{x:1}.x]:b})=>b", "Stmt(Params(Binding({ [{x: 1}.x]: Binding(b) })) => Stmt({ Stmt(return b) }))", false},
		{"for(x={['a' in b]:1};;);", "Stmt(for (x={['a' in b]: 1}) ; ; Stmt({ }))", false},
		{"([a]=[1])=>x", "Stmt(Params(Binding([ Binding(a) ] = [1])) => Stmt({ Stmt(return x) }))", false},
		{"({a}={b:1})=>x", "Stmt(Params(Binding({ Binding(a) } = {b: 1})) => Stmt({ Stmt(return x) }))", false},
	} {
		emitTree(a.src, a.exp, "", false)
	}
	// an imported binding is a lexical declaration of the module scope
	emitReject("import a from 'm';let a;", "redeclaration-import+let")
	emitReject("import {a} from 'm';class a{}", "redeclaration-import+class")
	emitReject("import * as a from 'm';const a=1;", "redeclaration-import+const")
	for _, a := range redeclCases() {
		if a.reject {
			emitReject(a.src, "redeclaration "+a.exp)
		} else {
			k++
			if c.Mine(k) {
				// must be accepted (the expected tree is not of interest here)
				if _, err := jsParseCopy([]byte(a.src), js.Options{}); err != nil {
					c.Exec(tree, []byte(a.src), map[string]string{"opts": "00", "exp": "(accepted)"})
				}
				c.Count("exec", 1)
			}
		}
	}
	_ = strconv.Itoa
}

func c03Finish(c *engine.Ctx, cov map[string]interface{}) string {
	if c.Counters["programs"] < 50000 || c.Counters["negatives"] < 20000 {
		return fmt.Sprintf("vacuous: programs=%d negatives=%d", c.Counters["programs"], c.Counters["negatives"])
	}
	return ""
}

func init() {
	register(&engine.Check{
		ID: "C03", Level: "exploration",
		Rule:        "generator grammar with the expected AST.String() by construction: every expression with one operator over 14 leaf kinds, every expression with two operators (all of ~70 operator forms: every binary, assignment, prefix, update, conditional, comma, member, optional-chain, call, new, tagged-template, arrow, yield form) in every tree shape, every three-operator tree over all binary operators and over a 17-form core (all forms in thorough), each spelled with minimal parentheses from an independent ECMA-262 precedence table, fully parenthesised, with one redundant pair at every node, and with whitespace/comments around; every statement kind × sub-statements × expressions to nesting depth 2 incl. functions, arrows, classes, static blocks, loops, switch, try, labels; ~300 declaration/class-element/parameter/import/export forms; all ordered pairs of 48 statements × 5 separators; 45 ASI situations × 5 line-terminator kinds; × 4 Options (WhileToFor expectation = the equivalent for-loop). Negatives: every single bracket deletion and every bracket insertion at every position of the one-operator programs, a sample of statement programs and all declaration forms; every forbidden operator sequence (unary before **, ?? mixed with ||/&&, assignment to a binary expression: all 25×16 operator pairs) alone and at every operand position of every one-operator expression; every ordered pair of lexical declarations of one name in 12 scope kinds",
		Assumptions: []string{"trusted: the renderer's transcription of the String() layout of js/ast.go and its precedence table", "representation conventions of the tree (loop bodies are blocks, empty argument lists of new are dropped) are part of the expectation"},
		Setup:       c03Setup, Work: c03Work, Finish: c03Finish,
	})
}
