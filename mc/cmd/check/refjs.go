package main

// Reference ECMAScript lexer (ECMA-262 §12, ES2022 + Annex B HTML-like
// comments), written independently of the library: longest match over the
// token classes of the lexical grammar, '}' resolved with a brace/template
// stack, '/' always read as a division punctuator unless the caller marks the
// offset as the start of a regular-expression literal (the goal symbol is a
// syntactic matter; the harness knows it by construction).
// Inputs outside the lexical grammar are flagged (outside=true), not guessed.

import (
	"unicode"
	"unicode/utf8"

	"github.com/tdewolff/parse/v2/js"
)

type rjTok struct {
	tt         js.TokenType
	start, end int
	regexp     bool
}

type refJS struct {
	b        []byte
	p        int
	toks     []rjTok
	outside  bool
	why      string
	regexpAt map[int]bool
}

func (r *refJS) at(i int) int {
	if r.p+i < len(r.b) {
		return int(r.b[r.p+i])
	}
	return -1
}

func (r *refJS) rune(i int) (rune, int) {
	if r.p+i >= len(r.b) {
		return -1, 0
	}
	return utf8.DecodeRune(r.b[r.p+i:])
}

func jsIsWS(c rune) bool {
	return c == '\t' || c == '\v' || c == '\f' || c == ' ' || c == 0xA0 || c == 0xFEFF || c > 0x7F && unicode.Is(unicode.Zs, c)
}
func jsIsLT(c rune) bool { return c == '\n' || c == '\r' || c == 0x2028 || c == 0x2029 }

func jsIDStart(c rune) bool {
	return c == '$' || c == '_' || c < 0x80 && (c >= 'a' && c <= 'z' || c >= 'A' && c <= 'Z') ||
		c >= 0x80 && (unicode.IsLetter(c) || unicode.Is(unicode.Nl, c) || unicode.Is(unicode.Other_ID_Start, c))
}
func jsIDPart(c rune) bool {
	return jsIDStart(c) || c >= '0' && c <= '9' || c == 0x200C || c == 0x200D ||
		c >= 0x80 && (unicode.Is(unicode.Mn, c) || unicode.Is(unicode.Mc, c) || unicode.Is(unicode.Nd, c) || unicode.Is(unicode.Pc, c) || unicode.Is(unicode.Other_ID_Continue, c))
}

func (r *refJS) bad(why string) {
	if !r.outside {
		r.outside, r.why = true, why
	}
}

// unicodeEscapeLen returns the length of \uXXXX or \u{X…} at p+i, or 0.
func (r *refJS) unicodeEscapeLen(i int) int {
	if r.at(i) != '\\' || r.at(i+1) != 'u' {
		return 0
	}
	if r.at(i+2) == '{' {
		j := i + 3
		for isHex(r.at(j)) {
			j++
		}
		if j == i+3 || r.at(j) != '}' {
			return 0
		}
		return j + 1 - i
	}
	for k := 2; k < 6; k++ {
		if !isHex(r.at(i + k)) {
			return 0
		}
	}
	return 6
}

// identLen: length of an IdentifierName at p+i, or 0.
func (r *refJS) identLen(i int) int {
	j := i
	c, n := r.rune(j)
	if jsIDStart(c) && c != utf8.RuneError {
		j += n
	} else if e := r.unicodeEscapeLen(j); e > 0 {
		j += e
	} else {
		return 0
	}
	for {
		c, n = r.rune(j)
		if n > 0 && c != utf8.RuneError && jsIDPart(c) {
			j += n
		} else if e := r.unicodeEscapeLen(j); e > 0 {
			j += e
		} else {
			return j - i
		}
	}
}

func (r *refJS) ltLen(i int) int {
	c, n := r.rune(i)
	if c == '\r' && r.at(i+1) == '\n' {
		return 2
	}
	if n > 0 && jsIsLT(c) {
		return n
	}
	return 0
}

func (r *refJS) digits(i int, ok func(int) bool) int {
	// Digits with single numeric separators between digits
	j := i
	if !ok(r.at(j)) {
		return 0
	}
	j++
	for {
		if ok(r.at(j)) {
			j++
		} else if r.at(j) == '_' && ok(r.at(j+1)) {
			j += 2
		} else {
			return j - i
		}
	}
}

func isBin(c int) bool { return c == '0' || c == '1' }
func isOct(c int) bool { return c >= '0' && c <= '7' }

func (r *refJS) number() (js.TokenType, int) {
	c := r.at(0)
	if c == '0' {
		x := r.at(1)
		var ok func(int) bool
		var tt js.TokenType
		switch x {
		case 'x', 'X':
			ok, tt = isHex, js.HexadecimalToken
		case 'b', 'B':
			ok, tt = isBin, js.BinaryToken
		case 'o', 'O':
			ok, tt = isOct, js.OctalToken
		}
		if ok != nil {
			n := r.digits(2, ok)
			if n == 0 {
				r.bad("radix prefix without digits")
				return js.IntegerToken, 1
			}
			l := 2 + n
			if r.at(l) == 'n' {
				l++
			}
			return tt, l
		}
		if isDigit(x) || x == '_' {
			r.bad("legacy octal / leading zero")
			return js.IntegerToken, 1
		}
	}
	l := 0
	tt := js.IntegerToken
	if c != '.' {
		l = r.digits(0, isDigit)
		if r.at(l) == 'n' {
			return js.IntegerToken, l + 1
		}
	}
	if r.at(l) == '.' {
		if c == '.' && !isDigit(r.at(l+1)) {
			return js.ErrorToken, 0
		}
		tt = js.DecimalToken
		l++
		l += r.digits(l, isDigit)
	}
	if e := r.at(l); e == 'e' || e == 'E' {
		k := l + 1
		if s := r.at(k); s == '+' || s == '-' {
			k++
		}
		if n := r.digits(k, isDigit); n > 0 {
			l = k + n
			tt = js.DecimalToken
		}
	}
	return tt, l
}

var jsPunct = []struct {
	s  string
	tt js.TokenType
}{
	{">>>=", js.GtGtGtEqToken}, {"...", js.EllipsisToken}, {"===", js.EqEqEqToken}, {"!==", js.NotEqEqToken}, {"**=", js.ExpEqToken}, {"<<=", js.LtLtEqToken},
	{">>=", js.GtGtEqToken}, {">>>", js.GtGtGtToken}, {"&&=", js.AndEqToken}, {"||=", js.OrEqToken}, {"??=", js.NullishEqToken},
	{"=>", js.ArrowToken}, {"==", js.EqEqToken}, {"!=", js.NotEqToken}, {"<=", js.LtEqToken}, {">=", js.GtEqToken}, {"<<", js.LtLtToken}, {">>", js.GtGtToken},
	{"+=", js.AddEqToken}, {"-=", js.SubEqToken}, {"*=", js.MulEqToken}, {"/=", js.DivEqToken}, {"%=", js.ModEqToken}, {"&=", js.BitAndEqToken}, {"|=", js.BitOrEqToken},
	{"^=", js.BitXorEqToken}, {"++", js.IncrToken}, {"--", js.DecrToken}, {"**", js.ExpToken}, {"&&", js.AndToken}, {"||", js.OrToken}, {"??", js.NullishToken}, {"?.", js.OptChainToken},
	{"{", js.OpenBraceToken}, {"}", js.CloseBraceToken}, {"(", js.OpenParenToken}, {")", js.CloseParenToken}, {"[", js.OpenBracketToken}, {"]", js.CloseBracketToken},
	{".", js.DotToken}, {";", js.SemicolonToken}, {",", js.CommaToken}, {"?", js.QuestionToken}, {":", js.ColonToken}, {"=", js.EqToken}, {"!", js.NotToken},
	{"<", js.LtToken}, {">", js.GtToken}, {"+", js.AddToken}, {"-", js.SubToken}, {"*", js.MulToken}, {"/", js.DivToken}, {"%", js.ModToken}, {"&", js.BitAndToken},
	{"|", js.BitOrToken}, {"^", js.BitXorToken}, {"~", js.BitNotToken},
}

func (r *refJS) hasPrefix(s string) bool {
	if r.p+len(s) > len(r.b) {
		return false
	}
	return string(r.b[r.p:r.p+len(s)]) == s
}

// template scans a template span starting at p (on ` or }) and returns its length and whether it ends with ${ .
func (r *refJS) template() (int, bool, bool) {
	j := 1
	for {
		c := r.at(j)
		switch {
		case c == -1:
			return j, false, false
		case c == '`':
			return j + 1, false, true
		case c == '$' && r.at(j+1) == '{':
			return j + 2, true, true
		case c == '\\':
			if r.at(j+1) == -1 {
				return j + 1, false, false
			}
			_, n := r.rune(j + 1)
			j += 1 + n
		default:
			j++
		}
	}
}

func (r *refJS) singleLineComment(j int) int {
	for r.p+j < len(r.b) && r.ltLen(j) == 0 {
		j++
	}
	return j
}

func refJSLex(b []byte, regexpAt map[int]bool) *refJS {
	r := &refJS{b: b, regexpAt: regexpAt}
	if !utf8.Valid(b) {
		r.bad("invalid UTF-8")
		return r
	}
	lineStart := true      // only whitespace/comments since the last line terminator
	commentOnLine := false // a delimited comment precedes on this line: the library (pinned by its tests) does not treat --> as a comment then
	var parenStack []int   // paren/bracket depth at each open template substitution
	parens := 0
	afterNumber := false
	var braceStack []bool // true: a template substitution opened this level
	for r.p < len(b) && !r.outside {
		start := r.p
		c, n := r.rune(0)
		var tt js.TokenType
		prevNumber := afterNumber
		afterNumber = false
		isRe := false
		switch {
		case jsIsWS(c):
			for {
				c, n = r.rune(0)
				if n == 0 || !jsIsWS(c) {
					break
				}
				r.p += n
			}
			tt = js.WhitespaceToken
		case jsIsLT(c):
			for {
				l := r.ltLen(0)
				if l == 0 {
					break
				}
				r.p += l
			}
			tt = js.LineTerminatorToken
			lineStart = true
		case c == '/' && r.at(1) == '/':
			r.p += r.singleLineComment(2)
			tt = js.CommentToken
		case c == '/' && r.at(1) == '*':
			j := 2
			tt = js.CommentToken
			for {
				if r.at(j) == -1 {
					r.bad("unterminated comment")
					break
				}
				if r.at(j) == '*' && r.at(j+1) == '/' {
					j += 2
					break
				}
				if l := r.ltLen(j); l > 0 {
					tt = js.CommentLineTerminatorToken
					j += l
				} else {
					j++
				}
			}
			r.p += j
			if tt == js.CommentLineTerminatorToken {
				lineStart = true
			}
		case r.hasPrefix("<!--"):
			r.p += r.singleLineComment(4)
			tt = js.CommentToken
		case lineStart && r.hasPrefix("-->"):
			if commentOnLine {
				r.bad("--> after a delimited comment on the same line (library deviates deliberately)")
				break
			}
			r.p += r.singleLineComment(3)
			tt = js.CommentToken
		case c == '/' && regexpAt[start]:
			j := 1
			inClass := false
			for {
				ch := r.at(j)
				if ch == -1 || r.ltLen(j) > 0 {
					r.bad("unterminated regexp")
					break
				}
				if ch == '\\' {
					if r.at(j+1) == -1 || r.ltLen(j+1) > 0 {
						r.bad("unterminated regexp")
						break
					}
					_, m := r.rune(j + 1)
					j += 1 + m
					continue
				}
				if ch == '[' {
					inClass = true
				} else if ch == ']' {
					inClass = false
				} else if ch == '/' && !inClass {
					j++
					break
				}
				_, m := r.rune(j)
				j += m
			}
			r.p += j
			for { // flags: IdentifierPart without escapes
				fc, fn := r.rune(0)
				if fn == 0 || fc == utf8.RuneError || !jsIDPart(fc) {
					break
				}
				r.p += fn
			}
			tt = js.RegExpToken
			isRe = true
		case c == '"' || c == '\'':
			j := 1
			for {
				ch := r.at(j)
				if ch == int(c) {
					j++
					break
				}
				if ch == -1 || ch == '\n' || ch == '\r' {
					r.bad("unterminated string")
					break
				}
				if ch == '\\' {
					if l := r.ltLen(j + 1); l > 0 {
						j += 1 + l
					} else if r.at(j+1) == -1 {
						r.bad("unterminated string")
						break
					} else {
						_, m := r.rune(j + 1)
						j += 1 + m
					}
					continue
				}
				_, m := r.rune(j)
				j += m
			}
			r.p += j
			tt = js.StringToken
		case c == '`':
			l, subst, ok := r.template()
			if !ok {
				r.bad("unterminated template")
			}
			r.p += l
			if subst {
				tt = js.TemplateStartToken
				braceStack = append(braceStack, true)
				parenStack = append(parenStack, parens)
			} else {
				tt = js.TemplateToken
			}
		case c == '}' && len(braceStack) > 0 && braceStack[len(braceStack)-1]:
			braceStack = braceStack[:len(braceStack)-1]
			if parens != parenStack[len(parenStack)-1] {
				r.bad("unbalanced parentheses inside a template substitution: the goal symbol at } is a syntactic matter")
				break
			}
			parenStack = parenStack[:len(parenStack)-1]
			l, subst, ok := r.template()
			if !ok {
				r.bad("unterminated template")
			}
			r.p += l
			if subst {
				tt = js.TemplateMiddleToken
				braceStack = append(braceStack, true)
				parenStack = append(parenStack, parens)
			} else {
				tt = js.TemplateEndToken
			}
		case isDigit(int(c)) || c == '.' && isDigit(r.at(1)):
			t, l := r.number()
			tt = t
			r.p += l
			afterNumber = true
		case c == '#':
			if l := r.identLen(1); l > 0 {
				r.p += 1 + l
				tt = js.PrivateIdentifierToken
			} else {
				r.bad("stray #")
			}
		default:
			if l := r.identLen(0); l > 0 {
				if prevNumber {
					r.bad("identifier directly after a numeric literal")
					break
				}
				word := string(b[r.p : r.p+l])
				r.p += l
				if k, ok := refKeywords[word]; ok {
					tt = k
				} else {
					tt = js.IdentifierToken
				}
				break
			}
			found := false
			for _, p := range jsPunct {
				if r.hasPrefix(p.s) {
					if p.s == "?." && isDigit(r.at(2)) {
						continue
					}
					r.p += len(p.s)
					tt = p.tt
					found = true
					break
				}
			}
			if !found {
				r.bad("character outside the lexical grammar")
			}
			if tt == js.OpenParenToken {
				parens++
			} else if tt == js.CloseParenToken {
				parens--
				if len(parenStack) > 0 && parens < parenStack[len(parenStack)-1] {
					r.bad("unbalanced parentheses inside a template substitution")
				}
			}
			if tt == js.OpenBraceToken {
				braceStack = append(braceStack, false)
			} else if tt == js.CloseBraceToken && len(braceStack) > 0 {
				braceStack = braceStack[:len(braceStack)-1]
			}
		}
		if r.outside {
			break
		}
		if prevNumber && afterNumber {
			r.bad("digit directly after a numeric literal")
			break
		}
		if r.p == start {
			r.bad("no progress")
			break
		}
		if tt != js.WhitespaceToken && tt != js.CommentToken && tt != js.LineTerminatorToken && tt != js.CommentLineTerminatorToken {
			lineStart = false
		}
		if tt == js.LineTerminatorToken {
			commentOnLine = false
		} else if tt == js.CommentToken || tt == js.CommentLineTerminatorToken {
			commentOnLine = true
		}
		r.toks = append(r.toks, rjTok{tt, start, r.p, isRe})
	}
	return r
}

// refKeywords: the reference's own table of reserved and contextual words (ECMA-262 §12.7.2 + the contextual ones the library types).
var refKeywords = map[string]js.TokenType{
	"await":      js.AwaitToken,
	"break":      js.BreakToken,
	"case":       js.CaseToken,
	"catch":      js.CatchToken,
	"class":      js.ClassToken,
	"const":      js.ConstToken,
	"continue":   js.ContinueToken,
	"debugger":   js.DebuggerToken,
	"default":    js.DefaultToken,
	"delete":     js.DeleteToken,
	"do":         js.DoToken,
	"else":       js.ElseToken,
	"enum":       js.EnumToken,
	"export":     js.ExportToken,
	"extends":    js.ExtendsToken,
	"false":      js.FalseToken,
	"finally":    js.FinallyToken,
	"for":        js.ForToken,
	"function":   js.FunctionToken,
	"if":         js.IfToken,
	"import":     js.ImportToken,
	"in":         js.InToken,
	"instanceof": js.InstanceofToken,
	"new":        js.NewToken,
	"null":       js.NullToken,
	"return":     js.ReturnToken,
	"super":      js.SuperToken,
	"switch":     js.SwitchToken,
	"this":       js.ThisToken,
	"throw":      js.ThrowToken,
	"true":       js.TrueToken,
	"try":        js.TryToken,
	"typeof":     js.TypeofToken,
	"var":        js.VarToken,
	"void":       js.VoidToken,
	"while":      js.WhileToken,
	"with":       js.WithToken,
	"yield":      js.YieldToken,
	"let":        js.LetToken,
	"static":     js.StaticToken,
	"implements": js.ImplementsToken,
	"interface":  js.InterfaceToken,
	"package":    js.PackageToken,
	"private":    js.PrivateToken,
	"protected":  js.ProtectedToken,
	"public":     js.PublicToken,
	"as":         js.AsToken,
	"async":      js.AsyncToken,
	"from":       js.FromToken,
	"get":        js.GetToken,
	"meta":       js.MetaToken,
	"of":         js.OfToken,
	"set":        js.SetToken,
	"target":     js.TargetToken,
}
