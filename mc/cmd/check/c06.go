package main

// C06 — JS tokens follow the ECMAScript lexical grammar.

import (
	"bytes"
	"fmt"
	"strconv"
	"strings"

	"verifmc/engine"

	parse "github.com/tdewolff/parse/v2"
	"github.com/tdewolff/parse/v2/js"
)

type jsTok struct {
	tt   js.TokenType
	data string
}

func fmtJSToks(ts []jsTok) string {
	var sb strings.Builder
	for _, t := range ts {
		fmt.Fprintf(&sb, "%s(%q) ", tokName(t.tt), t.data)
	}
	return sb.String()
}

func tokName(tt js.TokenType) string {
	switch {
	case js.IsOperator(tt):
		return "Op"
	case js.IsPunctuator(tt):
		return "Punct"
	case js.IsReservedWord(tt):
		return "Reserved"
	case js.IsIdentifier(tt) && tt != js.IdentifierToken:
		return "Contextual"
	case tt == js.IdentifierToken:
		return "Identifier"
	}
	return tt.String()
}

func parseOffsets(s string) map[int]bool {
	m := map[int]bool{}
	for _, f := range strings.Split(s, ",") {
		if f != "" {
			n, _ := strconv.Atoi(f)
			m[n] = true
		}
	}
	return m
}

var seenJSState = map[uint32]bool{}
var seenJSTrans = map[uint32]bool{}

func c06Compare(c *engine.Ctx, in []byte, args map[string]string) {
	b := append([]byte{}, in...)
	reAt := parseOffsets(args["re"])
	ref := refJSLex(b, reAt)
	if ref.outside {
		c.Count("outside-grammar", 1)
		return
	}
	c.Count("compared", 1)
	// library
	buf := append(make([]byte, 0, len(b)+1), b...)
	z := parse.NewInputBytes(buf)
	l := js.NewLexer(z)
	var got []jsTok
	for i := 0; i < 4*len(b)+8; i++ {
		start := z.Offset()
		tt, d := l.Next()
		if (tt == js.DivToken || tt == js.DivEqToken) && reAt[start] {
			tt, d = l.RegExp()
		}
		if tt == js.ErrorToken {
			if len(d) > 0 || l.Err() != nil && l.Err().Error() != "EOF" {
				got = append(got, jsTok{tt, string(d) + "<" + errText(l.Err()) + ">"})
			}
			break
		}
		got = append(got, jsTok{tt, string(d)})
	}
	want := make([]jsTok, len(ref.toks))
	prev := uint32(255)
	for i, t := range ref.toks {
		want[i] = jsTok{t.tt, string(b[t.start:t.end])}
		cls := uint32(t.tt >> 8 << 4)
		if t.tt < 0x100 {
			cls = uint32(t.tt)
		}
		if !seenJSState[cls] {
			seenJSState[cls] = true
			c.State(tokName(t.tt))
		}
		k := prev<<16 | uint32(t.tt)
		if len(seenJSTrans) < 200000 && !seenJSTrans[k] {
			seenJSTrans[k] = true
			c.Transition(fmt.Sprintf("%d>%d", prev, t.tt))
		}
		prev = uint32(t.tt)
	}
	for i := 0; i < len(got) || i < len(want); i++ {
		if i >= len(got) || i >= len(want) || got[i] != want[i] {
			g, w := "end", "end"
			if i < len(got) {
				g = tokName(got[i].tt)
			}
			if i < len(want) {
				w = tokName(want[i].tt)
			}
			c.Fail("tokens:"+w+"-lexed-as-"+g, fmt.Sprintf("token %d: lexer: %s| ECMA-262: %s", i, fmtJSToks(got), fmtJSToks(want)))
			return
		}
	}
	// canonical spellings
	for _, t := range got {
		if js.IsOperator(t.tt) || js.IsPunctuator(t.tt) || js.IsReservedWord(t.tt) || js.IsIdentifier(t.tt) && t.tt != js.IdentifierToken {
			if string(t.tt.Bytes()) != t.data || t.tt.String() != t.data {
				c.Fail("canonical-spelling", fmt.Sprintf("token text %q has a type whose Bytes()/String() is %q/%q", t.data, t.tt.Bytes(), t.tt.String()))
				return
			}
		}
	}
	c.Observe(engine.Hash64([]byte(fmtJSToks(got))))
}

func c06Keywords(c *engine.Ctx, in []byte, args map[string]string) {
	for w, tt := range js.Keywords {
		if string(tt.Bytes()) != w {
			c.Fail("keyword-table", fmt.Sprintf("Keywords[%q] has canonical spelling %q", w, tt.Bytes()))
		}
		if refKeywords[w] != tt {
			c.Fail("keyword-table", fmt.Sprintf("Keywords[%q]=%d, the reserved/contextual word table says %d", w, tt, refKeywords[w]))
		}
	}
	for w := range refKeywords {
		if _, ok := js.Keywords[w]; !ok {
			c.Fail("keyword-table", fmt.Sprintf("Keywords lacks %q", w))
		}
	}
}

type jsVocab struct {
	s  string
	re bool
}

var c06Vocab = func() []jsVocab {
	var v []jsVocab
	add := func(ss ...string) {
		for _, s := range ss {
			v = append(v, jsVocab{s, false})
		}
	}
	for w := range refKeywords {
		add(w)
	}
	for _, p := range jsPunct {
		add(p.s)
	}
	add("a", "$", "_1", "é", "a\u200cb", "ab", "\\u0062c", "\\u{62}c", "a\\u0062", "aé", "ifx", "xif", "a1", "#a", "#$", "#é", "#if", "#\\u0061bc", "#\\u{61}", "#a\\u0062",
		"0", "1", "12", "1.5", ".5", "1.", "1e3", "1E-3", "1e+3", "1.5e3", "0x1F", "0XaB", "0b1", "0B10", "0o7", "0O17", "1n", "0n", "0x1n", "0b1n", "0o7n", "1_000", "0.0_1", "1e1_0", "0x1_F", "1_0n", "0.5", "0e0",
		"'a'", "\"a\"", "''", "'\\''", "\"\\\"\"", "'\\\\'", "'\\n\\x41\\u0041\\u{41}\\0'", "'a\\\nb'", "'a\\\r\nb'", "'a\\\rb'", "'a\\ b'", "'a b'", "\"a'b\"", "'a\"b'", "'\\\n'",
		"`t`", "``", "`\\``", "`\\${`", "`$`", "`$a`", "`a\nb`", "`{`", "`}`", "`${a}`", "`a${b}c`", "`${a}${b}`", "`${`n`}`", "`a${`b${c}d`}e`", "`${{}}`", "`${'}'}`",
		"//c", "// c ", "/**/", "/* c */", "/*\n*/", "/*\r\n*/", "/* */", "/***/", "/* // */", "<!--c", "<!-- c -->",
		" ", "\t", "\v", "\f", "\u00a0", "\ufeff", "\u2003", "  ", "\n", "\r", "\r\n", "\u2028", "\u2029", "\n\n")
	for _, s := range []string{"/ab+c/g", "/[/]\\//", "/a/", "/\\//", "/[\\]/]/u", "/=/", "/=a/i", "/a[/]b/gim", "/(?:)/", "/a\\/b/é", "/[[]/", "/[a[b]+/", "/=[[]/", "/[[][/]]/", "/[\\[]/"} {
		v = append(v, jsVocab{s, true})
	}
	return v
}()

var c06CoreIdx []int

func init() {
	core := map[string]bool{"a": true, "if": true, "in": true, "of": true, "let": true, "async": true, "1": true, "1.": true, ".5": true, "0x1": true, "1n": true, "'a'": true, "`t`": true, "`${a}`": true,
		"//c": true, "/**/": true, "/*\n*/": true, "<!--c": true, " ": true, "\n": true, "\u2028": true, "{": true, "}": true, "(": true, ")": true, "[": true, ".": true, "...": true, "?": true, "?.": true, "??": true,
		":": true, "=": true, "=>": true, "==": true, "+": true, "++": true, "-": true, "--": true, "*": true, "**": true, "/": true, "/=": true, "<": true, ">": true, ">>": true, ">>>": true, ">=": true, "!": true, "&": true, "&&": true, "|": true,
		"/a/": true, "#a": true, "é": true, "\\u0062c": true, ";": true, ",": true, "%": true, "~": true, "^": true, "1e3": true, "0": true}
	for i, v := range c06Vocab {
		if core[v.s] {
			c06CoreIdx = append(c06CoreIdx, i)
		}
	}
}

var c06Seps = []string{"", " ", "\t", "\n", "\u2028", "/**/", "/*\n*/"}

func c06Setup(c *engine.Ctx) {
	c.Register(&engine.Space{Name: "js-ref", Run: c06Compare})
	c.Register(&engine.Space{Name: "js-keywords", Run: c06Keywords, NoMinimise: true})
}

func c06Work(c *engine.Ctx) {
	sp := c.SpaceByName("js-ref")
	if c.Mine(0) {
		c.Exec(c.SpaceByName("js-keywords"), nil, nil)
		c.Count("exec", 1)
	}
	var sb bytes.Buffer
	var offs []string
	begin := func() { sb.Reset(); offs = offs[:0] }
	put := func(v jsVocab) {
		if v.re {
			offs = append(offs, strconv.Itoa(sb.Len()))
		}
		sb.WriteString(v.s)
	}
	run := func() {
		var args map[string]string
		if len(offs) > 0 {
			args = map[string]string{"re": strings.Join(offs, ",")}
		}
		c.Exec(sp, append([]byte{}, sb.Bytes()...), args)
		c.Count("exec", 1)
	}
	wrappers := [][2]string{{"", ""}, {"`a${", "}b`"}, {"`${`${", "}`}`"}, {"x={", "}"}, {"`${{a:", "}}`"}}
	if c.Thorough() {
		wrappers = append(wrappers, [2]string{"`${`${`${", "}`}`}`"}, [2]string{"`${(", ")}`"})
	}
	k := 0
	for _, a := range c06Vocab {
		for _, b := range c06Vocab {
			k++
			if !c.Mine(k) {
				continue
			}
			for _, s := range c06Seps {
				for wi, w := range wrappers {
					if wi > 0 && !(s == "" || s == " " || s == "\n") {
						continue
					}
					begin()
					sb.WriteString(w[0])
					put(a)
					sb.WriteString(s)
					put(b)
					sb.WriteString(w[1])
					run()
				}
			}
			c.Count("distinct_nontrivial", 1)
		}
	}
	seps3 := []string{"", " "}
	if c.Thorough() {
		seps3 = []string{"", " ", "\n", "/**/"}
	}
	for _, ai := range c06CoreIdx {
		for _, bi := range c06CoreIdx {
			k++
			if !c.Mine(k) {
				continue
			}
			for _, di := range c06CoreIdx {
				for _, s1 := range seps3 {
					for _, s2 := range seps3 {
						begin()
						put(c06Vocab[ai])
						sb.WriteString(s1)
						put(c06Vocab[bi])
						sb.WriteString(s2)
						put(c06Vocab[di])
						run()
					}
				}
				c.Count("distinct_nontrivial", 1)
			}
		}
	}
	// character sweep: every code point of U+0080..U+00FF, U+1680, U+180E, U+2000..U+206F, U+3000, U+FEFF and samples of the
	// other planes inside each kind of token that takes arbitrary characters (the code points next to the two
	// line terminators U+2028/U+2029 and to the Zs blanks are where a byte-wise test can go wrong)
	{
		var cps []rune
		for r := rune(0x80); r <= 0xFF; r++ {
			cps = append(cps, r)
		}
		for r := rune(0x2000); r <= 0x206F; r++ {
			cps = append(cps, r)
		}
		cps = append(cps, 0x1680, 0x180E, 0x20A8, 0x20A9, 0x2128, 0x2129, 0x22A8, 0x3000, 0x3028, 0xA028, 0xE028, 0xFEFF, 0xFFFD, 0x10000, 0x1F600, 0x2028A)
		type ctx struct {
			pre, post string
			re        bool // a regular-expression literal starts right after "x="
		}
		ctxs := []ctx{{"x=/a", "b/g", true}, {"x=/[", "]/", true}, {"x=/[a", "/]/u", true}, {"x=/\\", "/", true}, {"x=/a/", "", true}, {"'a", "b'", false}, {"\"", "\"", false},
			{"`a", "b`", false}, {"`${`", "`}`", false}, {"//a", "b\nx", false}, {"/*a", "b*/x", false}, {"a", "b", false}, {"a ", " b", false}, {"1", "", false}, {"", "=1", false}, {"#a", "", false}, {"'\\", "'", false}}
		for _, r := range cps {
			k++
			if !c.Mine(k) {
				continue
			}
			for _, cx := range ctxs {
				begin()
				sb.WriteString(cx.pre)
				sb.WriteString(string(r))
				sb.WriteString(cx.post)
				if cx.re {
					offs = append(offs, "2")
				}
				run()
				c.Count("character-sweep", 1)
			}
		}
	}
	c.Sample("pair in template: `a${" + "1." + "" + ".5" + "}b`")
	c.Sample("triple: a /**/ /a/ with RegExp() called at the offset of the literal")
	// all strings over the JS alphabets (division goal only)
	for pi, pl := range []enumPlan{{alphaJS, c.Pick(3, 3), nil}, {alphaJSCore, c.Pick(4, 5), nil}} {
		al := engine.NewAlphabet(pl.alpha)
		lvl := c.EnumSeq(al, 0, pl.maxLen, func(in []byte, idx []int) {
			c.Exec(sp, in, nil)
			c.Count("exec", 1)
			if len(idx) >= 2 && al.Canonical(idx, in) {
				c.Count("distinct_nontrivial", 1)
			}
		})
		c.Count(fmt.Sprintf("min:level_plan%d", pi), int64(lvl))
	}
	for _, seed := range seedsJS {
		c.EditBall([]byte(seed), alphaJSCore, func(in []byte) {
			c.Exec(sp, in, nil)
			c.Count("exec", 1)
		})
		c.ByteSweep([]byte(seed), true, func(in []byte) {
			c.Exec(sp, in, nil)
			c.Count("exec", 1)
			c.Count("byte-sweep", 1)
		})
	}
}

func c06Finish(c *engine.Ctx, cov map[string]interface{}) string {
	cov["states"] = len(c.States)
	cov["transitions"] = len(c.Trans)
	cov["traces_validated_against_impl"] = c.Counters["compared"]
	cov["vocabulary_size"] = len(c06Vocab)
	cov["state_definition"] = "token classes of the reference lexer; transitions = adjacent (token type, token type) pairs seen in reference traces; every accepted reference trace is compared with the implementation"
	if c.Counters["compared"] < 200000 {
		return "vacuous: fewer than 200000 inputs inside the lexical grammar compared"
	}
	return ""
}

func init() {
	register(&engine.Check{
		ID: "C06", Level: "model_checking",
		Rule:        "vocabulary of ~250 token spellings (every reserved and contextual word, every punctuator, identifiers with Unicode letters/ZWNJ/\\u escapes, private names, numeric literals of all radixes with separators and BigInt suffix, strings with every escape and line-continuation kind, templates incl. nested substitutions, all comment kinds, every whitespace and line-terminator kind, regular-expression literals with classes and escaped slashes): all ordered pairs × 7 separators, pairs inside 4-6 template/brace wrappers, all triples over a 60-spelling core × separators; all strings ≤k atoms over the JS alphabets; edit balls around the JS seeds; 400 code points (U+0080..U+00FF, U+2000..U+206F, blanks and look-alikes of the line terminators in other blocks) inside 17 token contexts (regular-expression body, class and escape, strings, templates, comments, identifiers, blanks). js.Lexer (RegExp() called where the generator placed a regexp literal) must return exactly the reference lexer's (type,text) list whenever the reference accepts the input; canonical spelling of every operator/punctuator/keyword token; Keywords table entry by entry",
		Assumptions: []string{"reference = hand-written ECMA-262 §12 lexer (longest match, brace/template stack), consecutive whitespace and consecutive line terminators are one token each as in the library", "inputs the reference places outside the lexical grammar (unterminated literals, identifier or digit directly after a number, legacy octal, stray characters, invalid UTF-8) are not compared"},
		Setup:       c06Setup, Work: c06Work, Finish: c06Finish,
	})
}
