package main

// C08 — CSS parser emits a well-nested, token-conserving grammar stream.

import (
	"bytes"
	"fmt"
	"io"
	"strings"

	"verifmc/engine"

	parse "github.com/tdewolff/parse/v2"
	"github.com/tdewolff/parse/v2/css"
)

type cUnit struct {
	gt   css.GrammarType
	data string
	vals []cssTok
}

func (u cUnit) String() string {
	return fmt.Sprintf("%s(%q %s)", u.gt, u.data, fmtCSSToks(u.vals))
}

type cssRun struct {
	units      []cUnit
	parseErrAt int // index of the first unit at which HasParseError() was true, -1 if never
	endErr     error
	offsets    []int
}

func cssParseAll(src []byte, inline bool) *cssRun {
	in := append(make([]byte, 0, len(src)+1), src...)
	p := css.NewParser(parse.NewInputBytes(in), inline)
	r := &cssRun{parseErrAt: -1}
	for i := 0; i < 4*len(src)+16; i++ {
		gt, _, data := p.Next()
		if p.HasParseError() && r.parseErrAt < 0 {
			r.parseErrAt = len(r.units)
		}
		if gt == css.ErrorGrammar && !p.HasParseError() {
			r.endErr = p.Err()
			return r
		}
		u := cUnit{gt: gt, data: string(data)}
		for _, v := range p.Values() {
			u.vals = append(u.vals, cssTok{v.TokenType, string(v.Data)})
		}
		r.units = append(r.units, u)
		r.offsets = append(r.offsets, p.Offset())
	}
	r.endErr = fmt.Errorf("no end")
	return r
}

func isWordLike(tt css.TokenType) bool {
	switch tt {
	case css.IdentToken, css.NumberToken, css.DimensionToken, css.PercentageToken, css.HashToken, css.StringToken, css.FunctionToken, css.URLToken, css.CustomPropertyNameToken, css.UnicodeRangeToken:
		return true
	}
	return false
}

// source component tokens of a prelude/value: reference tokens without whitespace and comments,
// with the information whether whitespace/comment separated them in the source
type srcTok struct {
	cssTok
	sepBefore bool // whitespace or a comment stands before it
	wsBefore  bool // whitespace stands before it
}

func srcTokens(s string) []srcTok {
	ref := refCSSLex([]byte(s))
	var r []srcTok
	sep, ws := false, false
	for _, t := range ref.toks {
		if t.tt == css.WhitespaceToken || t.tt == css.CommentToken {
			sep = true
			ws = ws || t.tt == css.WhitespaceToken
			continue
		}
		r = append(r, srcTok{cssTok{t.tt, s[t.start:t.end]}, sep, ws})
		sep, ws = false, false
	}
	return r
}

// checkValues compares Values() of one unit with the source piece it stands for.
// ctx: "selector", "value", "prelude"
func checkValues(ctx string, src string, vals []cssTok) string {
	want := srcTokens(src)
	// 1. without whitespace: exactly the source's component tokens
	var got []cssTok
	for _, v := range vals {
		if v.tt != css.WhitespaceToken {
			got = append(got, v)
		}
	}
	if len(got) != len(want) {
		return fmt.Sprintf("%d component tokens, the source %q has %d", len(got), src, len(want))
	}
	for i := range got {
		if got[i] != want[i].cssTok {
			return fmt.Sprintf("component %d is %s(%q), the source %q has %s(%q)", i, got[i].tt, got[i].data, src, want[i].tt, want[i].data)
		}
	}
	// 2. whitespace tokens: single " ", never leading/trailing/adjacent, only where the source had whitespace or a comment
	k := 0 // index into want of the next non-ws token
	inAttr := 0
	for i, v := range vals {
		if v.tt != css.WhitespaceToken {
			// 3. whitespace that carries meaning must be kept
			if k > 0 && (want[k].wsBefore || ctx != "selector" && want[k].sepBefore) && (i == 0 || vals[i-1].tt != css.WhitespaceToken) {
				a, b := want[k-1], want[k]
				must := false
				switch ctx {
				case "selector":
					endsCompound := isWordLike(a.tt) && a.tt != css.FunctionToken || a.data == "]" || a.data == ")" || a.data == "*" || a.data == "&"
					startsCompound := b.tt == css.IdentToken || b.tt == css.HashToken || b.data == "." || b.data == ":" || b.data == "[" || b.data == "*" || b.data == "&" || b.tt == css.FunctionToken
					must = endsCompound && startsCompound && inAttr == 0
					// two tokens that are not punctuation (an+b arguments such as "2n +1", attribute words)
					must = must || isWordLike(a.tt) && a.tt != css.FunctionToken && isWordLike(b.tt)
				case "value":
					must = (isWordLike(a.tt) && a.tt != css.FunctionToken || a.data == ")") && isWordLike(b.tt)
				case "prelude":
					must = (isWordLike(a.tt) && a.tt != css.FunctionToken || a.data == ")") && (isWordLike(b.tt) || b.data == "(")
				}
				if must && !want[k].wsBefore {
					// a comment alone: a separator is needed only where the two tokens would merge into one
					must = isWordLike(a.tt) && a.tt != css.FunctionToken && a.tt != css.StringToken && a.tt != css.URLToken && isWordLike(b.tt) && b.tt != css.StringToken && b.tt != css.URLToken
				}
				if must {
					return fmt.Sprintf("the whitespace between %q and %q in %q separates two tokens that would otherwise merge or change meaning, but Values() has none there", a.data, b.data, src)
				}
			}
			if v.data == "[" {
				inAttr++
			} else if v.data == "]" && inAttr > 0 {
				inAttr--
			}
			k++
			continue
		}
		if v.data != " " {
			return fmt.Sprintf("whitespace token %q is not a single space", v.data)
		}
		if i == 0 && ctx == "prelude" && len(want) > 0 {
			if want[0].data == "(" || want[0].data == "[" {
				return fmt.Sprintf("whitespace token between the at-keyword and the bracket %q that opens the prelude %q", want[0].data, src)
			}
			continue // the at-keyword (reported as data) is the left neighbour of the prelude: the parser keeps that separator
		}
		if i == 0 || i == len(vals)-1 {
			return "leading or trailing whitespace token"
		}
		if vals[i-1].tt == css.WhitespaceToken {
			return "two adjacent whitespace tokens"
		}
		if k >= len(want) || !want[k].sepBefore {
			return fmt.Sprintf("whitespace token before %q although the source %q has none there", vals[i+1].data, src)
		}
		// 4. in a selector whitespace is kept only between tokens that are not punctuation: never next to a combinator or comma,
		// for the selector of a nested ruleset as for that of a top-level one
		if ctx == "selector" && !want[k].wsBefore {
			// a comment alone does not separate two compound selectors: ".a/**/.b" is ".a.b", not ".a .b"
			return fmt.Sprintf("whitespace token before %q in the selector %q although the source has only a comment there", vals[i+1].data, src)
		}
		if ctx == "selector" && inAttr == 0 {
			for _, nb := range []string{vals[i-1].data, vals[i+1].data} {
				if nb == "," || nb == ">" || nb == "+" || nb == "~" {
					return fmt.Sprintf("whitespace token next to %q in the selector %q", nb, src)
				}
			}
		}
	}
	return ""
}

// ---- generator ----

type cItem struct {
	src   string
	units []gUnit // expected
}

type gUnit struct {
	gt   css.GrammarType
	data string
	ctx  string // how to check Values: "selector", "value", "prelude", "custom" (exact), "tokens" (exact token list incl. whitespace), "" (must be empty)
	src  string
}

func gCat(items ...cItem) cItem {
	var r cItem
	for _, it := range items {
		r.src += it.src
		r.units = append(r.units, it.units...)
	}
	return r
}

type declSpec struct{ prop, val string }

var c08Decls = []declSpec{
	{"color", "red"}, {"margin", "0 auto"}, {"padding", "1px 2em 3% 4.5e-1pt"}, {"font", "a , b"}, {"font", "a,b"}, {"COLOR", "rgb( 0 0 0 / 50% )"}, {"width", "calc(1px + (2em * 3))"},
	{"background", "url(x) \"s\" 't'"}, {"c", "d!important"}, {"c", "d ! important"}, {"content", "\"\\201C\""}, {"aspect-ratio", "1 / 2"}, {"*zoom", "1"}, {"_height", "1px"},
	{"filter", "progid:DXImageTransform.Microsoft.gradient(startColorstr='#80000000')"}, {"grid-area", "a/b/c"}, {"x", "-1 -.5 +2"}, {"x", "f(g(h(1)))[i]"}, {"x", "a/**/ b"}, {"x", "1 /* c */ 2"},
}

var c08Customs = []string{" {a;b} [c] (d)", "", "1", " a  b\tc ", "{ x: y }", " \"s;\" ';' url(;)", "(a;b)"}

var c08Selectors = []string{".a /*c*/.b", ".a/*c*/ .b", "a /*c*/[b]", "a /*c*//*d*/b:hover", "li:nth-child(2n +1)", "li:nth-child( 2n + 1 )", ":nth-child(-n +3) b", "a:nth-of-type(+3n -2)", "a:nth-child(2n+1 of .b  .c)", "a", "a b", "a>b", "a > b", "a , b", "a,b", ".c", "a.c #d", "#d:hover", "a :first-child", "a[b=\"c\"]", "a[ b = \"c\" i ]", "a:not(b , .c) d", "a:not([href]) b", "* + *", "a::before", "a~b", "A B", "a\tb\n>\nc", "a /**/ b", ":is( [x] , .y ) z", "h1 , h2:where(.a .b) c", "a [b]", "a:not([b]) [c]"}

var c08Preludes = []string{"a/**/b", "a/**/1px /**/(x)/**/and/**/y", "(a;b) c", "x f(a;b)", "[a;b]", "screen /*c*/and (x)", "screen/*c*/ and (x)", "'a.css' /*c*/print", "", "screen", "screen and (min-width:100px)", "screen and ( min-width : 100px )", "a , b", "url(x) print", "(display:grid) and (not (a:b))", "x y"}

func declItem(d declSpec, term string) cItem {
	return cItem{d.prop + ":" + d.val + term, []gUnit{{css.DeclarationGrammar, strings.ToLower(d.prop), "value", d.val}}}
}

func customItem(v string, term string) cItem {
	return cItem{"--x:" + v + term, []gUnit{{css.CustomPropertyGrammar, "--x", "custom", v}}}
}

func ruleset(sel string, body cItem) cItem {
	r := cItem{src: sel + "{"}
	r.units = append(r.units, gUnit{css.BeginRulesetGrammar, "", "selector", sel})
	r = gCat(r, body)
	r.src += "}"
	r.units = append(r.units, gUnit{css.EndRulesetGrammar, "}", "", ""})
	return r
}

func atBlock(name, prelude string, body cItem) cItem {
	sp := ""
	if prelude != "" {
		sp = " "
	}
	r := cItem{src: name + sp + prelude + "{"}
	r.units = append(r.units, gUnit{css.BeginAtRuleGrammar, strings.ToLower(name), "prelude", prelude})
	r = gCat(r, body)
	r.src += "}"
	r.units = append(r.units, gUnit{css.EndAtRuleGrammar, "}", "", ""})
	return r
}

func atStatement(name, prelude string) cItem {
	return cItem{name + " " + prelude + ";", []gUnit{{css.AtRuleGrammar, strings.ToLower(name), "prelude", prelude}}}
}

// unknown at-rule block: every token of the body is a Token unit (whitespace kept, comments dropped)
func atUnknown(name, body string) cItem { return atUnknownP(name, "", body) }

func atUnknownP(name, prelude, body string) cItem {
	sp := ""
	if prelude != "" {
		sp = " "
	}
	r := cItem{src: name + sp + prelude + "{" + body + "}"}
	r.units = append(r.units, gUnit{css.BeginAtRuleGrammar, strings.ToLower(name), "prelude", prelude})
	ref := refCSSLex([]byte(body))
	for i, t := range ref.toks {
		if t.tt == css.CommentToken || i == 0 && t.tt == css.WhitespaceToken {
			continue // comments are dropped; whitespace directly after '{' is skipped before the unknown block takes over
		}
		r.units = append(r.units, gUnit{css.TokenGrammar, body[t.start:t.end], "", ""})
	}
	r.units = append(r.units, gUnit{css.EndAtRuleGrammar, "}", "", ""})
	return r
}

func declLists() []cItem {
	var r []cItem
	r = append(r, cItem{})
	for i, d := range c08Decls {
		r = append(r, declItem(d, ""), declItem(d, ";"))
		d2 := c08Decls[(i+7)%len(c08Decls)]
		r = append(r, gCat(declItem(d, ";"), declItem(d2, "")), gCat(declItem(d, " ; "), declItem(d2, ";;")), gCat(cItem{src: ";"}, declItem(d, ";"), customItem(c08Customs[i%len(c08Customs)], "")))
	}
	for _, v := range c08Customs {
		r = append(r, customItem(v, ""), customItem(v, ";"), gCat(customItem(v, ";"), declItem(c08Decls[0], "")))
	}
	// comments between declarations are dropped, wherever they stand relative to the semicolons and empty declarations
	cm := cItem{src: "/*c*/"}
	for i, d := range c08Decls[:6] {
		d2 := c08Decls[i+6]
		r = append(r, gCat(declItem(d, ";"), cm, cItem{src: ";"}, declItem(d2, "")), gCat(cm, cItem{src: ";"}, declItem(d, "")), gCat(declItem(d, ";"), cm, declItem(d2, ";")), gCat(cm, declItem(d, ";"), cm),
			gCat(declItem(d, ";"), cItem{src: " "}, cm, cItem{src: " ;"}, cm, cm, cItem{src: ";;"}, declItem(d2, ";"), cm, cItem{src: ";"}), gCat(cm, cm, cItem{src: ";"}, cm, declItem(d, "")))
	}
	return r
}

func c08TopItems(thorough bool) []cItem {
	var items []cItem
	dl := declLists()
	for i, s := range c08Selectors {
		items = append(items, ruleset(s, dl[(i*5)%len(dl)]), ruleset(s, dl[(i*11+3)%len(dl)]))
	}
	for i, l := range dl {
		items = append(items, ruleset(c08Selectors[i%len(c08Selectors)], l))
	}
	// nested rulesets and at-rules inside rulesets (stylesheet mode)
	for i, s := range c08Selectors[:10] {
		inner := ruleset("&:hover", dl[(i*3+1)%len(dl)])
		items = append(items, ruleset(s, gCat(declItem(c08Decls[i], ";"), inner, declItem(c08Decls[i+1], ""))), ruleset(s, inner), ruleset(s, gCat(inner, ruleset(".d &", dl[2]))),
			ruleset(s, gCat(declItem(c08Decls[i], ";"), atBlock("@media", "print", ruleset("b", dl[1])))))
	}
	// every selector that the parser can take for the start of a nested ruleset (an identifier or a delimiter first), nested
	for i, s := range c08Selectors {
		if c := s[0]; c >= 'a' && c <= 'z' || c >= 'A' && c <= 'Z' || c == '.' || c == '*' {
			items = append(items, ruleset("x", ruleset(s, dl[(i*7+1)%len(dl)])), ruleset("x", gCat(declItem(c08Decls[i%len(c08Decls)], ";"), ruleset(s, dl[1]), ruleset("& "+s, dl[2]))))
		}
	}
	for _, s := range []string{"*.b", "*[c]", "*:hover", "*", "*#d", "* b", "* > b", ".a/*c*/.b", ".a/*c*/ /*d*/.b", "b/**/c", "& /**/> b", "b [c]", "b[c] [d]", "b[ c ]", "b , c", "b ,c", "b, c", "b + c", "b ~ c", "b >c", "b> c"} {
		items = append(items, ruleset("x", ruleset(s, dl[1])), ruleset(s, dl[1]))
	}
	// names are reported in lower case, whichever single letter is written in upper case
	for L := byte('A'); L <= 'Z'; L++ {
		u, l := string([]byte{L}), string([]byte{L + 32})
		items = append(items,
			ruleset("a", gCat(declItem(declSpec{"b" + u + "c", "d"}, ";"), declItem(declSpec{u + "oom", "1"}, ";"), declItem(declSpec{"-mo" + u + "-x", "y"}, ""))),
			atStatement("@x"+u+"y", "z"), atUnknown("@-mo"+u+"-viewport", "a"))
		_ = l
	}
	for _, n := range []string{"media", "supports", "font-face", "-moz-document", "keyframes"} {
		for i := range n {
			if n[i] >= 'a' && n[i] <= 'z' {
				name := "@" + n[:i] + strings.ToUpper(n[i:i+1]) + n[i+1:]
				if n == "font-face" {
					items = append(items, atBlock(name, "", dl[1]))
				} else {
					items = append(items, atBlock(name, "x", ruleset("a", dl[1])))
				}
			}
		}
	}
	// at-rules
	for i, p := range c08Preludes {
		rules := gCat(ruleset("a", dl[1]), ruleset("b c", dl[(i+4)%len(dl)]))
		for _, n := range []string{"@media", "@MEDIA", "@supports", "@document", "@layer", "@-webkit-keyframes", "@keyframes", "@-moz-document"} {
			items = append(items, atBlock(n, p, rules), atBlock(n, p, cItem{}))
		}
		items = append(items, atBlock("@media", p, atBlock("@supports", "(a:b)", rules)), atBlock("@keyframes", "k", gCat(ruleset("from", dl[1]), ruleset("50%", dl[2]), ruleset("to", dl[3]))))
		for _, n := range []string{"@font-face", "@page", "@Font-Face", "@-x-page"} {
			items = append(items, atBlock(n, p, dl[(i*7+2)%len(dl)]))
		}
		if p != "" {
			for _, n := range []string{"@import", "@charset", "@namespace", "@unknown", "@layer"} {
				items = append(items, atStatement(n, p))
			}
		}
	}
	items = append(items, atStatement("@import", "url(\"a.css\") screen"), atStatement("@import", "'a.css'"), atStatement("@namespace", "svg url(http://www.w3.org/2000/svg)"))
	for _, b := range []string{"a:b;c{d:e}", " a : b ", "", "x y{z}", "a/* c */b", "(a{b}c)"} {
		items = append(items, atUnknown("@unknown", b), atUnknown("@-ms-viewport", b))
	}
	// unknown at-rules whose block contains functions, brackets and nested blocks; with and without a prelude
	for _, b := range []string{"a{width:calc(1px + 2px)}", "w:rgb(0 0 0)", "f(g(h))", "a{b:url(x) c(d)}e{f:g}", "(a(b)c)", "a[b(c)]{d}", "x:f(", "{}{{}}", "a{b:c(d)}e", "[f(]g)"} {
		if strings.Count(b, "(") == strings.Count(b, ")") && strings.Count(b, "[") == strings.Count(b, "]") {
			for _, p := range []string{"", "(min-width:400px)", "name (a) and (b:c(d))", "f(x) y"} {
				items = append(items, atUnknownP("@container", p, b), atUnknownP("@Unknown", p, b))
			}
		}
	}
	// top-level comments, CDO/CDC
	items = append(items, cItem{"/* c */", []gUnit{{css.CommentGrammar, "/* c */", "", ""}}}, cItem{"<!--", []gUnit{{css.TokenGrammar, "<!--", "", ""}}}, cItem{"-->", []gUnit{{css.TokenGrammar, "-->", "", ""}}})
	return items
}

// c08Gen: input = the stylesheet; args: mode (inline 0/1), exp = expected units rendered as gt|data|ctx|src lines
func c08Gen(c *engine.Ctx, in []byte, args map[string]string) {
	src := append([]byte{}, in...)
	run := cssParseAll(src, args["inline"] == "1")
	var exp []gUnit
	for _, ln := range strings.Split(args["exp"], "\x1e") {
		if ln == "" {
			continue
		}
		f := strings.SplitN(ln, "\x1f", 4)
		var gt int
		fmt.Sscanf(f[0], "%d", &gt)
		exp = append(exp, gUnit{css.GrammarType(gt), f[1], f[2], f[3]})
	}
	fail := func(clause, msg string) {
		var us []string
		for _, u := range run.units {
			us = append(us, u.String())
		}
		c.Fail(clause, fmt.Sprintf("stylesheet %q (inline=%s): %s\n      stream: %s", src, args["inline"], msg, strings.Join(us, " ")))
	}
	if run.parseErrAt >= 0 {
		fail("well-formed-rejected", fmt.Sprintf("a parse error is reported at unit %d", run.parseErrAt))
		return
	}
	if run.endErr != io.EOF {
		fail("end", fmt.Sprintf("the stream ends with %v", run.endErr))
		return
	}
	if len(run.units) != len(exp) {
		fail("units", fmt.Sprintf("%d units, the source contains %d", len(run.units), len(exp)))
		return
	}
	for i, u := range run.units {
		e := exp[i]
		if u.gt != e.gt {
			fail("units", fmt.Sprintf("unit %d is %s, the source has %s there", i, u.gt, e.gt))
			return
		}
		wantData := e.data
		if e.gt == css.EndRulesetGrammar || e.gt == css.EndAtRuleGrammar {
			if u.data != "}" && u.data != "" {
				fail("unit-data", fmt.Sprintf("unit %d %s has data %q", i, u.gt, u.data))
				return
			}
		} else if u.data != wantData {
			fail("unit-data", fmt.Sprintf("unit %d %s has data %q, want %q", i, u.gt, u.data, wantData))
			return
		}
		switch e.ctx {
		case "selector", "value", "prelude":
			if msg := checkValues(e.ctx, e.src, u.vals); msg != "" {
				fail("values", fmt.Sprintf("unit %d %s(%q): Values() = %s: %s", i, u.gt, u.data, fmtCSSToks(u.vals), msg))
				return
			}
		case "custom":
			if len(u.vals) != 1 || u.vals[0].tt != css.CustomPropertyValueToken || u.vals[0].data != e.src {
				fail("custom-property-value", fmt.Sprintf("unit %d: Values() = %s, the source text is %q", i, fmtCSSToks(u.vals), e.src))
				return
			}
		default:
			if len(u.vals) != 0 && u.gt != css.TokenGrammar && u.gt != css.CommentGrammar && u.gt != css.EndRulesetGrammar && u.gt != css.EndAtRuleGrammar {
				fail("values", fmt.Sprintf("unit %d %s has unexpected Values() %s", i, u.gt, fmtCSSToks(u.vals)))
				return
			}
		}
	}
}

// c08Any: nesting and conservation clauses on arbitrary input
func c08Any(c *engine.Ctx, in []byte, args map[string]string) {
	src := append([]byte{}, in...)
	run := cssParseAll(src, args["inline"] == "1")
	lower := asciiLower(src)
	var stack []css.GrammarType
	pos := 0
	desc := func() string {
		var us []string
		for _, u := range run.units {
			us = append(us, u.String())
		}
		return fmt.Sprintf("input %q (inline=%s) stream: %s then %v", src, args["inline"], strings.Join(us, " "), run.endErr)
	}
	for i, u := range run.units {
		noErrYet := run.parseErrAt < 0 || i < run.parseErrAt
		switch u.gt {
		case css.BeginAtRuleGrammar, css.BeginRulesetGrammar:
			stack = append(stack, u.gt)
		case css.EndAtRuleGrammar, css.EndRulesetGrammar:
			if len(stack) == 0 {
				if noErrYet {
					c.Fail("nesting-negative", desc()+": End unit without open Begin (depth would become negative)")
					return
				}
				continue
			}
			top := stack[len(stack)-1]
			stack = stack[:len(stack)-1]
			if noErrYet && (top == css.BeginAtRuleGrammar) != (u.gt == css.EndAtRuleGrammar) {
				c.Fail("nesting-mismatch", desc()+fmt.Sprintf(": unit %d %s closes a %s", i, u.gt, top))
				return
			}
		}
		// conservation: every reported token is a token of the input in source order
		texts := []cssTok{{css.IdentToken, u.data}}
		if u.gt == css.EndAtRuleGrammar || u.gt == css.EndRulesetGrammar || u.gt == css.ErrorGrammar {
			texts = nil // "}" or nothing: may be the documented constant
		}
		if u.gt == css.AtRuleGrammar || u.gt == css.BeginAtRuleGrammar || u.gt == css.BeginRulesetGrammar || u.gt == css.DeclarationGrammar || u.gt == css.CustomPropertyGrammar {
			texts = append(texts, u.vals...) // Values() is documented for these units only
		}
		if u.gt == css.ErrorGrammar {
			// a parse error in mid-stream: Values() holds the tokens the parser could not place; they too must be
			// tokens of the input that have not been reported before
			texts = append(texts, u.vals...)
		}
		for _, t := range texts {
			if t.data == "" || t.tt == css.WhitespaceToken && t.data == " " {
				continue
			}
			lt := asciiLower([]byte(t.data))
			j := bytes.Index(lower[pos:], lt)
			if j < 0 {
				// the same text may legitimately be reported twice (a '}' that ends a declaration is delivered again)
				if k := bytes.LastIndex(lower[:pos], lt); k >= 0 && k+len(lt) == pos {
					continue
				}
				c.Fail("token-not-in-source", desc()+fmt.Sprintf(": unit %d reports %q which does not occur in the input at or after byte %d (source order)", i, t.data, pos))
				return
			}
			pos += j + len(lt)
		}
	}
	if run.parseErrAt < 0 && len(stack) != 0 {
		c.Fail("unclosed-at-eof", desc()+fmt.Sprintf(": %d Begin units are not closed before the end-of-input report although no parse error was reported", len(stack)))
		return
	}
	if run.endErr != io.EOF {
		c.Fail("end", desc()+": the stream does not end with io.EOF")
	}
}

func c08Setup(c *engine.Ctx) {
	c.Register(&engine.Space{Name: "css-gen", Run: c08Gen, NoMinimise: true})
	c.Register(&engine.Space{Name: "css-any", Run: c08Any})
}

func renderExp(units []gUnit) string {
	var sb strings.Builder
	for _, u := range units {
		fmt.Fprintf(&sb, "%d\x1f%s\x1f%s\x1f%s\x1e", int(u.gt), u.data, u.ctx, u.src)
	}
	return sb.String()
}

func c08Work(c *engine.Ctx) {
	gen := c.SpaceByName("css-gen")
	k := 0
	emit := func(it cItem, inline string) {
		k++
		if !c.Mine(k) {
			return
		}
		c.Exec(gen, []byte(it.src), map[string]string{"inline": inline, "exp": renderExp(it.units)})
		c.Count("exec", 1)
		c.Count("distinct_nontrivial", 1)
		if k%2003 == 0 {
			c.Sample(it.src)
		}
	}
	items := c08TopItems(c.Thorough())
	seps := []string{"", " ", "\n/* x */\n"}
	for _, a := range items {
		emit(a, "0")
		emit(cItem{" " + a.src + "\n", a.units}, "0")
	}
	step := c.Pick(1, 1)
	for i, a := range items {
		for j, b := range items {
			if (i+j)%step != 0 {
				continue
			}
			for _, s := range seps {
				if s == "\n/* x */\n" {
					// a top-level comment is a unit of its own
					emit(gCat(a, cItem{s, []gUnit{{css.CommentGrammar, "/* x */", "", ""}}}, b), "0")
				} else {
					emit(gCat(a, cItem{src: s}, b), "0")
				}
			}
		}
	}
	if c.Thorough() {
		// triples over every fifth item
		var sub []cItem
		for i := 0; i < len(items); i += 5 {
			sub = append(sub, items[i])
		}
		for _, a := range sub {
			for _, b := range sub {
				for _, d := range sub {
					emit(gCat(a, b, cItem{src: " "}, d), "0")
				}
			}
		}
	}
	// inline declaration lists
	for _, l := range declLists() {
		emit(l, "1")
		if n := len(l.units); n == 0 || l.units[n-1].ctx != "custom" || strings.HasSuffix(l.src, ";") {
			emit(cItem{" " + l.src + " ", l.units}, "1") // (an unterminated custom property value would include the trailing space)
		}
	}
	for i, d := range c08Decls {
		for j, e := range c08Decls {
			emit(gCat(declItem(d, ";"), declItem(e, "")), "1")
			if (i+j)%3 == 0 {
				emit(gCat(declItem(d, " ;\n"), customItem(c08Customs[j%len(c08Customs)], ";"), declItem(e, ";")), "1")
			}
		}
	}
	// arbitrary input: nesting and conservation
	anysp := c.SpaceByName("css-any")
	for _, pl := range []enumPlan{{alphaCSS, c.Pick(3, 4), nil}, {alphaCSSCore, c.Pick(4, 5), nil}} {
		al := engine.NewAlphabet(pl.alpha)
		c.EnumSeq(al, 0, pl.maxLen, func(in []byte, idx []int) {
			c.Exec(anysp, in, map[string]string{"inline": "0"})
			c.Exec(anysp, in, map[string]string{"inline": "1"})
			c.Count("exec", 2)
		})
	}
	for _, seed := range seedsCSS {
		c.EditBall([]byte(seed), alphaCSSCore, func(in []byte) {
			c.Exec(anysp, in, map[string]string{"inline": "0"})
			c.Exec(anysp, in, map[string]string{"inline": "1"})
			c.Count("exec", 2)
		})
		c.ByteSweep([]byte(seed), true, func(in []byte) {
			c.Exec(anysp, in, map[string]string{"inline": "0"})
			c.Exec(anysp, in, map[string]string{"inline": "1"})
			c.Count("exec", 2)
			c.Count("byte-sweep", 1)
		})
	}
}

func init() {
	register(&engine.Check{
		ID: "C08", Level: "exploration",
		Rule:        "well-formed stylesheets = every single and every ordered pair (every third pair in quick) of ~330 top-level items × {adjacent, space, comment between}: rulesets (24 selectors incl. combinators, attribute selectors, functional pseudo-classes, comments) × declaration lists (20 declarations incl. functions, nested parentheses, strings, urls, !important, IE hacks, progid filters; 7 custom-property values incl. braces and semicolons; ';' variants), nested rulesets and at-rules inside rulesets, every block at-rule kind of css/hash.go in three spellings + vendor prefixes × 16 preludes (among them semicolons inside brackets) × bodies, statement at-rules, unknown at-rules (token soup), top-level comments and CDO/CDC; inline declaration lists. Expected unit stream (type, lower-cased name) by construction; Values() without whitespace == the source's component tokens (reference tokenizer of C07), whitespace tokens single/non-adjacent/only where the source has whitespace and present where it separates compound selectors or word-like value tokens, absent next to a combinator or comma of a selector (nested rulesets as top-level ones); custom-property values exact. All byte strings ≤3-4 (4-5) atoms over the CSS alphabets and edit balls around the CSS seeds in both modes: shadow stack of Begin/End units, no unclosed Begin at the EOF report unless a parse error was reported, every reported token occurs in the input in source order",
		Assumptions: []string{"'whitespace must be kept' is required only where it separates two compound selectors, two word-like value tokens, or a word-like token and a parenthesis in an at-rule prelude", "after a reported parse error only the conservation clause is checked"},
		Setup:       c08Setup, Work: c08Work,
	})
}
