package main

// C05 — printing a JS tree and parsing the text again gives the same tree.

import (
	"bytes"
	"fmt"
	"reflect"
	"sort"
	"strconv"
	"strings"
	"unicode/utf8"
	"unsafe"

	"verifmc/engine"

	parse "github.com/tdewolff/parse/v2"
	"github.com/tdewolff/parse/v2/js"
)

var tGroupPtr = reflect.TypeOf(&js.GroupExpr{})

// stripGroups replaces every *GroupExpr held in an interface field (or slice element) by its operand, in place.
func stripGroups(v reflect.Value) {
	switch v.Kind() {
	case reflect.Interface:
		if v.IsNil() {
			return
		}
		for v.Elem().Type() == tGroupPtr && v.CanSet() {
			g := v.Elem().Interface().(*js.GroupExpr)
			if g.X == nil {
				break
			}
			v.Set(reflect.ValueOf(g.X))
		}
		stripGroups(v.Elem())
	case reflect.Ptr:
		if v.IsNil() || v.Type().Elem() == tScope {
			return
		}
		if v.Elem().Kind() == reflect.Struct {
			stripGroups(v.Elem())
		}
	case reflect.Struct:
		if v.Type() == tScope {
			return
		}
		t := v.Type()
		for i := 0; i < t.NumField(); i++ {
			f := t.Field(i)
			if f.Type == tScope || f.Type.Kind() == reflect.Ptr && f.Type.Elem() == tScope || t == tVar && f.Name == "Link" {
				continue
			}
			fv := v.Field(i)
			if !fv.CanSet() && fv.CanAddr() {
				fv = reflect.NewAt(fv.Type(), unsafe.Pointer(fv.UnsafeAddr())).Elem()
			}
			stripGroups(fv)
		}
	case reflect.Slice:
		if v.Type().Elem().Kind() == reflect.Uint8 {
			return
		}
		for i := 0; i < v.Len(); i++ {
			stripGroups(v.Index(i))
		}
	}
}

// literalBytes collects the source bytes of literal-like nodes (strings, templates, regexps, numbers, kept comments, directives)
func literalBytes(v reflect.Value, out *[][]byte) {
	switch v.Kind() {
	case reflect.Interface, reflect.Ptr:
		if v.IsNil() || v.Kind() == reflect.Ptr && v.Type().Elem() == tScope {
			return
		}
		literalBytes(v.Elem(), out)
	case reflect.Struct:
		if v.Type() == tScope {
			return
		}
		t := v.Type()
		switch t.Name() {
		case "LiteralExpr":
			tt := js.TokenType(v.FieldByName("TokenType").Uint())
			if tt == js.StringToken || tt == js.RegExpToken || js.IsNumeric(tt) || tt == js.TemplateToken {
				*out = append(*out, v.FieldByName("Data").Bytes())
			}
			return
		case "TemplatePart":
			*out = append(*out, v.FieldByName("Value").Bytes())
		case "TemplateExpr":
			*out = append(*out, v.FieldByName("Tail").Bytes())
		case "Comment", "DirectivePrologueStmt":
			*out = append(*out, v.FieldByName("Value").Bytes())
			return
		}
		for i := 0; i < t.NumField(); i++ {
			f := t.Field(i)
			if f.Type == tScope || f.Type.Kind() == reflect.Ptr && f.Type.Elem() == tScope || t == tVar {
				continue
			}
			fv := v.Field(i)
			if !fv.CanInterface() && fv.CanAddr() {
				fv = reflect.NewAt(fv.Type(), unsafe.Pointer(fv.UnsafeAddr())).Elem()
			}
			literalBytes(fv, out)
		}
	case reflect.Slice:
		if v.Type().Elem().Kind() == reflect.Uint8 {
			return
		}
		for i := 0; i < v.Len(); i++ {
			literalBytes(v.Index(i), out)
		}
	}
}

func jsParseCopy(src []byte, o js.Options) (*js.AST, error) {
	b := append(make([]byte, 0, len(src)+1), src...)
	return js.Parse(parse.NewInputBytes(b), o)
}

func c05Run(c *engine.Ctx, in []byte, args map[string]string) {
	if !utf8.Valid(in) {
		return
	}
	o := jsOptions(args["opts"])
	t1, err := jsParseCopy(in, o)
	if err != nil {
		return
	}
	c.Count("accepted", 1)
	s1 := t1.JSString()
	var lits [][]byte
	literalBytes(reflect.ValueOf(t1), &lits)
	for _, l := range lits {
		if len(l) > 0 && !strings.Contains(s1, string(l)) {
			c.Fail("literal-not-verbatim", fmt.Sprintf("input %q (opts %s): literal/comment %q does not occur byte for byte in the printed text %q", in, args["opts"], l, s1))
			return
		}
	}
	t2, err := jsParseCopy([]byte(s1), o)
	if err != nil {
		c.Fail("printed-text-rejected", fmt.Sprintf("input %q (opts %s) prints as %q, which does not parse: %v", in, args["opts"], s1, firstLine(err)))
		return
	}
	s2 := t2.JSString()
	if s2 != s1 {
		c.Fail("print-not-stable", fmt.Sprintf("input %q (opts %s) prints as %q; parsed and printed again: %q", in, args["opts"], s1, s2))
		return
	}
	stripGroups(reflect.ValueOf(t1))
	stripGroups(reflect.ValueOf(t2))
	a, b := t1.String(), t2.String()
	if a != b {
		c.Fail("tree-changed", fmt.Sprintf("input %q (opts %s) prints as %q; trees without parentheses differ:\n      original: %s\n      reparsed: %s", in, args["opts"], s1, a, b))
		return
	}
	c.Observe(engine.Hash64([]byte(a)))
}

func firstLine(err error) string {
	s := err.Error()
	if i := strings.IndexByte(s, '\n'); i >= 0 {
		return s[:i]
	}
	return s
}

// c05Deep: programs close to the parser's nesting limits. input = "<template>:<n>"; what the parser accepts must print as
// something it accepts again (the printer must not add nesting levels of its own)
var c05DeepTemplates = map[string]func(n int) string{
	"arrow":       func(n int) string { return strings.Repeat("x=>", n) + "1" },
	"arrow-block": func(n int) string { return strings.Repeat("x=>{", n) + strings.Repeat("}", n) },
	"let-paren":   func(n int) string { return "for(;;)let = " + strings.Repeat("(", n) + "1" + strings.Repeat(")", n) },
	"paren":       func(n int) string { return "x=" + strings.Repeat("(", n) + "1" + strings.Repeat(")", n) },
	"block":       func(n int) string { return strings.Repeat("{", n) + strings.Repeat("}", n) },
	"if":          func(n int) string { return strings.Repeat("if(a)", n) + "b" },
	"if-else":     func(n int) string { return strings.Repeat("if(a)b;else ", n) + "c" },
	"array":       func(n int) string { return "x=" + strings.Repeat("[", n) + strings.Repeat("]", n) },
	"object":      func(n int) string { return "x=" + strings.Repeat("{a:", n) + "1" + strings.Repeat("}", n) },
	"call":        func(n int) string { return "x=" + strings.Repeat("f(", n) + strings.Repeat(")", n) },
	"unary":       func(n int) string { return "x=" + strings.Repeat("!", n) + "a" },
	"cond":        func(n int) string { return "x=" + strings.Repeat("a?b:", n) + "c" },
	"label":       func(n int) string { return strings.Repeat("l:", 1) + strings.Repeat("for(;;)", n) + ";" },
	"function":    func(n int) string { return strings.Repeat("function f(){", n) + strings.Repeat("}", n) },
	"class":       func(n int) string { return strings.Repeat("x=class{m(){", n) + strings.Repeat("}}", n) },
	"template":    func(n int) string { return "x=" + strings.Repeat("`${", n) + "1" + strings.Repeat("}`", n) },
	"while":       func(n int) string { return strings.Repeat("while(a)", n) + ";" },
}

func c05Deep(c *engine.Ctx, in []byte, args map[string]string) {
	i := strings.IndexByte(string(in), ':')
	n, _ := strconv.Atoi(string(in[i+1:]))
	src := c05DeepTemplates[string(in[:i])](n)
	o := jsOptions(args["opts"])
	t1, err := jsParseCopy([]byte(src), o)
	if err != nil {
		c.Count("deep-rejected", 1)
		return
	}
	c.Count("deep-accepted", 1)
	s1 := t1.JSString()
	t2, err := jsParseCopy([]byte(s1), o)
	if err != nil {
		c.Fail("printed-text-rejected", fmt.Sprintf("template %s (opts %s, %d bytes) is accepted, but its printed form (%d bytes) does not parse: %v", in, args["opts"], len(src), len(s1), firstLine(err)))
		return
	}
	if s2 := t2.JSString(); s2 != s1 {
		c.Fail("print-not-stable", fmt.Sprintf("template %s (opts %s): printed, parsed and printed again differs", in, args["opts"]))
	}
}

func c05Setup(c *engine.Ctx) {
	c.Register(&engine.Space{Name: "roundtrip", Run: c05Run})
	c.Register(&engine.Space{Name: "roundtrip-deep", Run: c05Deep, NoMinimise: true})
}

var c05Literals = []string{"`a\nb`", "`a\r\nb${c}d\ne`", "`a b`", "'a\\\nb'", "\"a\\\r\nb\"", "/a\\/b/g", "`${`x\ny`}\nz`", "tag`a\nb`", "1.5e3", "0x1F", "'\\u2028'", "`\\\n`", "`\n\n${a}\n`"}

func c05Work(c *engine.Ctx) {
	sp := c.SpaceByName("roundtrip")
	all := func(in []byte) {
		for _, o := range jsOptionNames {
			c.Exec(sp, in, map[string]string{"opts": o})
			c.Count("exec", 1)
		}
	}
	for _, pl := range []enumPlan{{alphaJSCore, c.Pick(4, 5), nil}, {alphaJS, c.Pick(2, 3), nil}} {
		al := engine.NewAlphabet(pl.alpha)
		c.EnumSeq(al, 0, pl.maxLen, func(in []byte, idx []int) {
			all(in)
			if len(idx) >= 2 && al.Canonical(idx, in) {
				c.Count("distinct_nontrivial", 1)
			}
		})
	}
	seeds := append(append([]string{}, seedsJS...), c18ExtraSeeds...)
	for _, s := range seeds {
		c.EditBall([]byte(s), alphaJSCore, func(in []byte) { all(in) })
		c.ByteSweep([]byte(s), false, func(in []byte) { all(in); c.Count("byte-sweep", 1) })
	}
	// pairs of seeds joined by every separator (statement interactions, ASI after printing)
	k := 0
	for i, a := range seeds {
		for j, b := range seeds {
			if len(a)+len(b) > 90 || (i+j)%c.Pick(3, 1) != 0 {
				continue
			}
			for _, sep := range []string{"\n", ";", " "} {
				k++
				if c.Mine(k) {
					all([]byte(a + sep + b))
				}
			}
		}
	}
	// nesting close to the parser's limits
	{
		deep := c.SpaceByName("roundtrip-deep")
		var names []string
		for name := range c05DeepTemplates {
			names = append(names, name)
		}
		sort.Strings(names)
		for _, name := range names {
			for _, n := range []int{1, 2, 10, 100, 332, 333, 334, 498, 499, 500, 501, 990, 995, 996, 997, 998, 999, 1000, 1001, 1002} {
				k++
				if !c.Mine(k) {
					continue
				}
				for _, o := range jsOptionNames {
					c.Exec(deep, []byte(name+":"+strconv.Itoa(n)), map[string]string{"opts": o})
					c.Count("exec", 1)
				}
			}
		}
	}
	// literals containing line breaks × position × block nesting (indentation)
	for _, lit := range c05Literals {
		positions := []string{"%s;", "f(%s, 1);", "x = {a: %s};", "class A { f = %s; }", "function f(a = %s) {}", "switch (x) { case %s: y; }", "x = [%s];", "return %s;", "x = %s + %s;", "/*! c\n d */ %s;", "'use strict';\n%s;"}
		for _, pos := range positions {
			stmt := strings.ReplaceAll(pos, "%s", lit)
			for depth := 0; depth <= 3; depth++ {
				for _, wrap := range [][2]string{{"{", "}"}, {"if (a) {", "}"}, {"function g() {", "}"}, {"for (;;) {", "}"}, {"class B { m() {", "} }"}, {"x = () => {", "};"}, {"x = {m() {", "}};"}, {"try {", "} finally {}"}} {
					k++
					if !c.Mine(k) {
						continue
					}
					src := strings.Repeat(wrap[0], depth) + stmt + strings.Repeat(wrap[1], depth)
					all([]byte(src))
					c.Count("literal-family", 1)
					c.Count("distinct_nontrivial", 1)
				}
			}
		}
	}
	// property names: every short string that looks like (part of) a number as a quoted key in every place a property
	// name can stand; the printer may drop the quotes only where the result is read back as the same name
	{
		keyAl := engine.NewAlphabet(engine.Atoms(".", "0", "1", "9", "e", "E", "-", "+", "x", "n", "_", "a", "b", "o", " "))
		c.EnumSeq(keyAl, 0, c.Pick(4, 5), func(in []byte, idx []int) {
			key := string(in)
			for _, q := range []string{"\"", "'"} {
				for _, pos := range []string{"x = {%s: 1};", "class A { %s() {} }", "class B { static %s = 1; }", "({%s: a} = b);", "x = {get %s() { return 1; }};", "x = ({%s: a}) => a;"} {
					all([]byte(strings.Replace(pos, "%s", q+key+q, 1)))
				}
			}
			if len(idx) >= 1 {
				c.Count("distinct_nontrivial", 1)
				c.Count("property-name-family", 1)
			}
		})
	}
	// expressions in every head position of every loop/branch statement (the `in` operator is restricted in a for
	// head; WhileToFor prints while-loops as for-loops, so what a while head accepts must survive a for head)
	{
		exprs := []string{"a", "a in b", "(a in b)", "a in b in c", "!(a in b)", "a, b in c", "a = b in c", "a ? b in c : d", "a && b in c", "[a in b]", "{p: a in b}", "f(a in b)", "a[b in c]",
			"x => x in y", "(x => x in y)", "function () { return a in b; }", "`${a in b}`", "a instanceof b", "a of b", "async", "let", "of", "new a", "new a(b in c)", "a?.[b in c]", "class { [a in b]() {} }", "await a in b", "yield a in b"}
		heads := []string{"while (%s) c;", "do c; while (%s);", "do c; while (%s) d;", "for (; %s;) c;", "for (;; %s) c;", "for (%s;;) c;", "for (var v = %s;;) c;", "for (let v = %s, w;;) c;",
			"for (v of %s) c;", "for (v in %s) c;", "for (var v in %s) c;", "for (const v of %s) c;", "if (%s) c;", "if (%s) c; else d;", "switch (%s) { case %s: c; }", "l: while (%s) { continue l; }",
			"while (%s) while (%s) c;", "if (a) while (%s) c; else d;", "for (var v = function () { for (; %s;) c; };;) c;"}
		wraps := [][2]string{{"", ""}, {"function g() {", "}"}, {"async function* g() {", "}"}, {"x = () => {", "};"}, {"class C { static {", "} }"}}
		for _, e := range exprs {
			for _, h := range heads {
				for _, w := range wraps {
					k++
					if !c.Mine(k) {
						continue
					}
					all([]byte(w[0] + strings.ReplaceAll(h, "%s", e) + w[1]))
					c.Count("loop-head-family", 1)
					c.Count("distinct_nontrivial", 1)
				}
			}
		}
	}
	// several preserved comments in one statement list, at every nesting level
	for _, body := range []string{"/*! a */ /*! b */ x;", "/*! a */ x; /*! b */ y; /*! c */", "/*! a */\n/*! b */\n/*! c */", "x; /*! a *//*! b */", "//! a\n//! b\nx;", "/*! a */ //! b\n/*! c */ x;"} {
		for depth := 0; depth <= 3; depth++ {
			for _, wrap := range [][2]string{{"{", "}"}, {"if (a) {", "}"}, {"function g() {", "}"}, {"for (;;) {", "}"}, {"class B { m() {", "} }"}, {"x = () => {", "};"}, {"class C { static {", "} }"}, {"try {", "} catch { /*! d */ /*! e */ } finally { /*! f */ /*! g */ }"}, {"switch (a) { case 1:", "}"}} {
				k++
				if !c.Mine(k) {
					continue
				}
				all([]byte(strings.Repeat(wrap[0], depth) + body + strings.Repeat(wrap[1], depth)))
				c.Count("comment-family", 1)
				c.Count("distinct_nontrivial", 1)
			}
		}
	}
	// statement adjacency: the printer ends statements with ';' or a line break; whatever statement comes first, a
	// following statement that starts with a continuation token must stay a statement of its own, in every kind of
	// statement list
	firsts := []string{"var x = 1", "let x = 1", "const x = 1", "var x", "let x, y = 2", "x = 1", "x", "x++", "a.b", "f()", "class A {}", "function g() {}", "do ; while (0)", "x = function () {}",
		"x = class {}", "x = () => {}", "x = a => a", "y = {}", "y = []", "y = `t`", "y = /r/", "throw e", "return", "return 1", "break", "continue", "if (a) b", "if (a) b; else c", "for (;;) b",
		"while (a) b", "l: b", "{}", "try {} catch {}", "switch (a) {}", "import('m')", "new A", "new A()", "x = 1, y = 2", "yield", "yield 1", "await a", "debugger", "'use strict'"}
	seconds := []string{"(y)", "[y]", "`t`", "+y", "-y", "/r/.test(y)", "++y", "--y", "y", "(y) => z", "[y] = z", "{}", "function h() {}", "class B {}", "let z", "await y", "yield", "in_ = 1", "instanceof_ = 1"}
	lists := [][2]string{{"", ""}, {"{", "}"}, {"function g0() {", "}"}, {"async function* g1() {", "}"}, {"switch (a) { case 1:", "}"}, {"switch (a) { default:", "case 2: }"}, {"class C { static {", "} }"},
		{"x = () => {", "};"}, {"for (;;) {", "}"}, {"if (a) {", "} else {}"}, {"l: {", "}"}, {"x = {m() {", "}};"}, {"try {", "} catch {}"}}
	for _, f := range firsts {
		for _, sec := range seconds {
			for _, l := range lists {
				k++
				if !c.Mine(k) {
					continue
				}
				for _, sep := range []string{";", "\n", ";\n"} {
					all([]byte(l[0] + f + sep + sec + ";" + l[1]))
				}
				c.Count("adjacency-family", 1)
				c.Count("distinct_nontrivial", 1)
			}
		}
	}
	c.Sample("if (a) {if (a) {x = {a: `a\\nb`};}}  — template with a line break printed at indentation 8")
	_ = bytes.Equal
}

func c05Finish(c *engine.Ctx, cov map[string]interface{}) string {
	if c.Counters["accepted"] < 50000 {
		return fmt.Sprintf("vacuous: only %d accepted programs", c.Counters["accepted"])
	}
	return ""
}

func init() {
	register(&engine.Check{
		ID: "C05", Level: "exploration",
		Rule:        "every valid-UTF-8 string ≤4 (5) atoms over the JS core alphabet and ≤2 (3) over the full one, every single-edit neighbour of ~150 seed programs, every (third) ordered pair of seeds joined by newline/semicolon/space, the loop-head family (28 expressions × 19 loop/branch heads × 5 function contexts, centred on the `in` operator) and the literal family (13 literals containing line breaks or escapes × 11 syntactic positions × 8 block wrappers × nesting depth 0..3) × 4 Options: for each input js.Parse accepts, AST.JS() must be accepted again, print identically a second time, give the same String() tree once *GroupExpr nodes are removed from both trees (reflection rewrite), and contain every string/template/regexp/numeric literal, kept comment and directive of the tree byte for byte",
		Assumptions: []string{"the same Options are used for the second parse", "literal bytes are taken from the first tree's nodes (they alias the source)"},
		Setup:       c05Setup, Work: c05Work, Finish: c05Finish,
	})
}
