package main

// C09 — HTML lexer: tags, attributes, raw text, foreign content, templates.

import (
	"bytes"
	"fmt"
	"io"
	"strings"

	"verifmc/engine"

	parse "github.com/tdewolff/parse/v2"
	"github.com/tdewolff/parse/v2/html"
)

type hTok struct {
	tt   html.TokenType
	data string
	text string
	val  string
	tmpl bool
}

func (t hTok) String() string {
	s := fmt.Sprintf("%s(%q text=%q val=%q", t.tt, t.data, t.text, t.val)
	if t.tmpl {
		s += " tmpl"
	}
	return s + ")"
}

func htmlLexAll(src []byte, dialect string) ([]hTok, []int, error) {
	in := append(make([]byte, 0, len(src)+1), src...)
	z := parse.NewInputBytes(in)
	var l *html.Lexer
	if dialect == "" {
		l = html.NewLexer(z)
	} else {
		l = html.NewTemplateLexer(z, htmlDialects[dialect])
	}
	var r []hTok
	var ends []int
	for i := 0; i < 4*len(src)+8; i++ {
		tt, d := l.Next()
		if tt == html.ErrorToken {
			return r, ends, l.Err()
		}
		t := hTok{tt: tt, data: string(d), tmpl: l.HasTemplate()}
		switch tt {
		case html.AttributeToken:
			t.text, t.val = string(l.AttrKey()), string(l.AttrVal())
		case html.StartTagCloseToken, html.StartTagVoidToken, html.SVGToken, html.MathToken, html.TemplateToken:
		default:
			t.text = string(l.Text())
		}
		r = append(r, t)
		ends = append(ends, z.Offset())
	}
	return r, ends, fmt.Errorf("no end")
}

// ---- reference: where does raw text end ----

func isTagEndChar(s []byte, i int) bool {
	if i >= len(s) {
		return false
	}
	switch s[i] {
	case '\t', '\n', '\f', '\r', ' ', '/', '>':
		return true
	}
	return false
}

func hasFoldPrefix(s []byte, i int, p string) bool {
	if i+len(p) > len(s) {
		return false
	}
	return strings.EqualFold(string(s[i:i+len(p)]), p)
}

// refRawTextEnd returns the offset at which the content of the raw-text element `name`, starting at start, ends
// (the '<' of the appropriate end tag) per the HTML tokenizer states RCDATA/RAWTEXT/script data; len(s) if it never ends.
func refRawTextEnd(name string, s []byte, start int) int {
	if name == "plaintext" {
		return len(s)
	}
	if name != "script" {
		for i := start; i < len(s); i++ {
			if s[i] == '<' && hasFoldPrefix(s, i, "</"+name) && isTagEndChar(s, i+2+len(name)) {
				return i
			}
		}
		return len(s)
	}
	const (
		data = iota
		escaped
		double
	)
	st := data
	dashes := 0
	for i := start; i < len(s); {
		c := s[i]
		switch st {
		case data:
			if c == '<' && hasFoldPrefix(s, i, "</script") && isTagEndChar(s, i+8) {
				return i
			}
			if c == '<' && hasFoldPrefix(s, i, "<!--") {
				st, dashes = escaped, 2
				i += 4
				continue
			}
			i++
		default:
			if c == '-' {
				dashes++
				i++
				continue
			}
			if c == '>' && dashes >= 2 {
				st, dashes = data, 0
				i++
				continue
			}
			dashes = 0
			if c == '<' {
				if hasFoldPrefix(s, i, "</script") && isTagEndChar(s, i+8) {
					if st == escaped {
						return i
					}
					st = escaped
					i += 8
					continue
				}
				if st == escaped && hasFoldPrefix(s, i, "<script") && isTagEndChar(s, i+7) {
					st = double
					i += 7
					continue
				}
			}
			i++
		}
	}
	return len(s)
}

// ---- constructs with expected tokens ----

type hCons struct {
	src  string
	toks []hTok
}

func hCat(cs ...hCons) hCons {
	var r hCons
	for _, c := range cs {
		r.src += c.src
		r.toks = append(r.toks, c.toks...)
	}
	return r
}

func hOne(tt html.TokenType, src, data, text string) hCons {
	return hCons{src, []hTok{{tt: tt, data: data, text: text}}}
}

type hAttr struct {
	src      string // as written, without leading whitespace
	key, val string
	has      bool
}

var hAttrPool = []hAttr{
	{"a", "a", "", false}, {"a=b", "a", "b", true}, {"a='b c'", "a", "'b c'", true}, {"a=\"b>c\"", "a", "\"b>c\"", true}, {"a = b", "a", "b", true}, {"A=B", "a", "B", true},
	{"a=b/", "a", "b/", true}, {"data-x=\"\"", "data-x", "\"\"", true}, {"a=\n'b'", "a", "'b'", true}, {"a='b\"c'", "a", "'b\"c'", true}, {"A-b.C=d=e", "a-b.c", "d=e", true}, {"hidden", "hidden", "", false}, {"a=</b", "a", "</b", true},
}

func lowerName(src, key string) string { // the attribute's source with its name lower-cased
	i := strings.IndexAny(src, "= \n")
	if i < 0 {
		return strings.ToLower(src)
	}
	return strings.ToLower(src[:i]) + src[i:]
}

func hStart(name string, attrs []hAttr, lead []string, preClose, closer string) hCons {
	c := hCons{src: "<" + name}
	c.toks = append(c.toks, hTok{tt: html.StartTagToken, data: "<" + strings.ToLower(name), text: strings.ToLower(name)})
	for i, a := range attrs {
		ld := " "
		if i < len(lead) && lead[i] != "" {
			ld = lead[i]
		}
		c.src += ld + a.src
		c.toks = append(c.toks, hTok{tt: html.AttributeToken, data: ld + lowerName(a.src, a.key), text: a.key, val: a.val})
	}
	c.src += preClose + closer
	tt := html.StartTagCloseToken
	if closer == "/>" {
		tt = html.StartTagVoidToken
	}
	c.toks = append(c.toks, hTok{tt: tt, data: closer})
	return c
}

func hEnd(name, ws string) hCons {
	return hCons{"</" + name + ws + ">", []hTok{{tt: html.EndTagToken, data: "</" + strings.ToLower(name) + ws + ">", text: strings.ToLower(name)}}}
}

func hPool() []hCons {
	p := []hCons{
		hOne(html.TextToken, "t", "t", "t"), hOne(html.TextToken, "a b", "a b", "a b"), hOne(html.TextToken, "x < y 1<2 <3", "x < y 1<2 <3", "x < y 1<2 <3"), hOne(html.TextToken, "&amp;\n", "&amp;\n", "&amp;\n"),
		hOne(html.CommentToken, "<!--x-->", "<!--x-->", "x"), hOne(html.CommentToken, "<!---->", "<!---->", ""), hOne(html.CommentToken, "<!-- a -- b > c -->", "<!-- a -- b > c -->", " a -- b > c "), hOne(html.CommentToken, "<!--x--!>", "<!--x--!>", "x"),
		hOne(html.CommentToken, "<!--<a>-->", "<!--<a>-->", "<a>"),
		hOne(html.CommentToken, "<?x y>", "<?x y>", "x y"), hOne(html.CommentToken, "</ x>", "</ x>", " x"), hOne(html.CommentToken, "<!x>", "<!x>", "x"), hOne(html.CommentToken, "</1>", "</1>", "1"),
		hOne(html.DoctypeToken, "<!DOCTYPE html>", "<!DOCTYPE html>", " html"), hOne(html.DoctypeToken, "<!doctype html>", "<!doctype html>", " html"), hOne(html.DoctypeToken, "<!DoCtYpE html PUBLIC \"x\">", "<!DoCtYpE html PUBLIC \"x\">", " html PUBLIC \"x\""),
		hOne(html.TextToken, "<![CDATA[x]]>", "<![CDATA[x]]>", "x"), hOne(html.TextToken, "<![CDATA[a]]b]>]]>", "<![CDATA[a]]b]>]]>", "a]]b]>"),
		hEnd("p", ""), hEnd("P", " "), hEnd("h1", "\n"), hEnd("x-y", ""),
		hStart("br", nil, nil, "", "/>"), hStart("BR", nil, nil, " ", "/>"), hStart("p", nil, nil, "", ">"), hStart("Div", nil, nil, "\n", ">"), hStart("h1", nil, nil, "", ">"), hStart("x-y", nil, nil, "", ">"),
	}
	for _, a := range hAttrPool {
		pre := ""
		if a.src == "a=b/" || a.src == "a=</b" {
			pre = " " // an unquoted value directly before /> would swallow the slash
		}
		p = append(p, hStart("i", []hAttr{a}, nil, pre, ">"), hStart("img", []hAttr{a}, []string{"\n\t"}, " ", "/>"))
	}
	p = append(p, hStart("a", []hAttr{hAttrPool[1], hAttrPool[2], hAttrPool[0]}, []string{" ", "\n", "  "}, "", ">"), hStart("a", []hAttr{hAttrPool[3], hAttrPool[5]}, nil, " ", ">"),
		hStart("a", []hAttr{hAttrPool[1], hAttrPool[1]}, nil, "", ">"))
	// svg and math: one token per subtree
	for _, s := range []string{"<svg>text</svg>", "<svg width=1><path d=\"M0 0\"/></svg>", "<SVG></SVG>", "<svg><x a=\"</svg>\"></x></svg>", "<svg></svg >", "<svg/>", "<svg width=1 />", "<svg><svg></svg></svg>", "<svg><svg/></svg>", "<svg><g><SVG x=1><rect/></svg ></g><svg/></svg>", "<svg><svgx></svg>", "<svg><svg:rect></svg:rect><b/></svg>", "<svg><a href=\"x\"/>t</svg-x></svg>", "<svg></svgs></svg>", "<svg><a></a><!-- c --></svg>", "<svg a='\"'></svg>"} {
		low := "<svg" + s[4:]
		p = append(p, hOne(html.SVGToken, s, low, ""))
	}
	for _, s := range []string{"<math><mi>x</mi></math>", "<MATH></MATH>", "<math a=\"</math>\"></math>", "<math/>", "<math><math/><math></math></math>", "<math><m:x></math:x></math>"} {
		low := "<math" + s[5:]
		p = append(p, hOne(html.MathToken, s, low, ""))
	}
	// one kind of foreign content nested in the other: the subtree ends at the end tag of the outer kind only
	for _, s := range []string{"<svg><math></math>x</svg>", "<svg><foreignObject><math><mi>x</mi></MATH ></foreignObject><rect/></svg>", "<svg><xml></xml><g/></svg>"} {
		p = append(p, hOne(html.SVGToken, s, s, ""))
	}
	for _, s := range []string{"<math><annotation-xml><svg></svg></annotation-xml><mi/></math>", "<math><svg><math></math></svg></math>"} {
		p = append(p, hOne(html.MathToken, s, s, ""))
	}
	// raw-text elements as constructs (empty and with markup-like content): what follows them is markup again
	for _, name := range []string{"title", "script", "style", "textarea", "xmp", "iframe"} {
		open := []hTok{{tt: html.StartTagToken, data: "<" + name, text: name}, {tt: html.StartTagCloseToken, data: ">"}}
		end := hTok{tt: html.EndTagToken, data: "</" + name + ">", text: name}
		p = append(p, hCons{"<" + name + "></" + name + ">", append(append([]hTok{}, open...), end)})
		content := "a<b </p>"
		p = append(p, hCons{"<" + name + ">" + content + "</" + name + ">", append(append(append([]hTok{}, open...), hTok{tt: html.TextToken, data: content, text: content}), end)})
	}
	return p
}

// ---- spaces ----

func c09Gen(c *engine.Ctx, in []byte, args map[string]string) {
	got, _, err := htmlLexAll(in, args["tmpl"])
	var gs []string
	for _, t := range got {
		gs = append(gs, t.String())
	}
	g := strings.Join(gs, " ")
	if g != args["exp"] || err != io.EOF {
		c.Fail("construct-tokens", fmt.Sprintf("document %q (dialect %q) lexes as\n      %s (err=%v)\n want %s", in, args["tmpl"], g, err, args["exp"]))
	}
}

// raw text: input = whole document "<name attrs>" + content + tail; args: name, start (offset of the content)
func c09Raw(c *engine.Ctx, in []byte, args map[string]string) {
	name := args["name"]
	var start int
	fmt.Sscanf(args["start"], "%d", &start)
	src := append([]byte{}, in...)
	if i := bytes.LastIndexByte(src, '<'); i >= 0 && (hasFoldPrefix(src, i, "</"+name) && i+2+len(name) == len(src) || name == "script" && hasFoldPrefix(src, i, "<script") && i+7 == len(src)) {
		return // the input is cut right after the name of a look-alike tag: unspecified (eof-in-tag)
	}
	want := refRawTextEnd(name, src, start)
	toks, ends, _ := htmlLexAll(src, "")
	// find the closer of the first start tag
	ci := -1
	for i, t := range toks {
		if t.tt == html.StartTagCloseToken {
			ci = i
			break
		}
	}
	if ci < 0 || ends[ci] != start {
		c.Fail("raw-start", fmt.Sprintf("document %q: the start tag does not close at %d: %v", src, start, toks))
		return
	}
	if want == start {
		// empty content: the next token must be the end tag (or the end of input)
		if ci+1 < len(toks) && toks[ci+1].tt != html.EndTagToken {
			c.Fail("raw-text-end", fmt.Sprintf("%s element in %q has empty content but the next token is %s", name, src, toks[ci+1]))
		}
		return
	}
	if ci+1 >= len(toks) || toks[ci+1].tt != html.TextToken || ends[ci+1] != want {
		got := "none"
		if ci+1 < len(toks) {
			got = fmt.Sprintf("%s ending at %d", toks[ci+1], ends[ci+1])
		}
		c.Fail("raw-text-end", fmt.Sprintf("%s content in %q ends at byte %d (%q) per the HTML tokenizer, the lexer returns %s", name, src, want, src[start:want], got))
		return
	}
	if toks[ci+1].text != string(src[start:want]) {
		c.Fail("raw-text-verbatim", fmt.Sprintf("%s content %q returned as %q", name, src[start:want], toks[ci+1].text))
	}
}

// refHTMLWellFormed tokenizes the unambiguous core of HTML: text without '<', comments, start tags with unquoted,
// quoted and valueless attributes, void closers and end tags of ordinary elements. ok=false when the input steps
// outside that core (raw-text and foreign elements, doctype/CDATA/bogus comments, stray '<', '/' or quotes in odd
// places, NUL) - those are judged by the other clauses. Types, lower-cased names and verbatim values only.
func refHTMLWellFormed(src []byte) (toks []hTok, ok bool) {
	isWS := func(c byte) bool { return c == ' ' || c == '\t' || c == '\n' || c == '\f' || c == '\r' }
	isAlpha := func(c byte) bool { return c >= 'a' && c <= 'z' || c >= 'A' && c <= 'Z' }
	isAlnum := func(c byte) bool { return isAlpha(c) || c >= '0' && c <= '9' }
	special := map[string]bool{"script": true, "style": true, "title": true, "textarea": true, "xmp": true, "iframe": true, "plaintext": true, "svg": true, "math": true, "xml": true}
	i, n := 0, len(src)
	for i < n {
		c := src[i]
		if c == 0 {
			return nil, false
		}
		if c != '<' {
			j := i
			for j < n && src[j] != '<' && src[j] != 0 {
				j++
			}
			toks = append(toks, hTok{tt: html.TextToken, text: string(src[i:j])})
			i = j
			continue
		}
		if bytes.HasPrefix(src[i:], []byte("<!--")) {
			body := src[i+4:]
			e := bytes.Index(body, []byte("-->"))
			if e < 0 || bytes.HasPrefix(body, []byte(">")) || bytes.HasPrefix(body, []byte("->")) || bytes.Contains(body[:e+3], []byte("--!>")) || bytes.Contains(body[:e], []byte("<!--")) {
				return nil, false
			}
			toks = append(toks, hTok{tt: html.CommentToken, text: string(body[:e])})
			i += 4 + e + 3
			continue
		}
		end := false
		j := i + 1
		if j < n && src[j] == '/' {
			end = true
			j++
		}
		if j >= n || !isAlpha(src[j]) {
			return nil, false
		}
		k := j
		for k < n && isAlnum(src[k]) {
			k++
		}
		name := string(asciiLower(src[j:k]))
		if special[name] {
			return nil, false
		}
		if end {
			for k < n && isWS(src[k]) {
				k++
			}
			if k >= n || src[k] != '>' {
				return nil, false
			}
			toks = append(toks, hTok{tt: html.EndTagToken, text: name})
			i = k + 1
			continue
		}
		toks = append(toks, hTok{tt: html.StartTagToken, text: name})
		for {
			w := k
			for k < n && isWS(src[k]) {
				k++
			}
			if k < n && src[k] == '>' {
				toks = append(toks, hTok{tt: html.StartTagCloseToken})
				k++
				break
			}
			if k+1 < n && src[k] == '/' && src[k+1] == '>' {
				toks = append(toks, hTok{tt: html.StartTagVoidToken})
				k += 2
				break
			}
			if k == w || k >= n {
				return nil, false // attributes need leading whitespace; unterminated tag
			}
			a := k
			for k < n && !isWS(src[k]) && !strings.ContainsRune("/>=\"'<\x00`", rune(src[k])) && src[k] < 0x80 {
				k++
			}
			if k == a {
				return nil, false
			}
			key := string(asciiLower(src[a:k]))
			e := k
			for e < n && isWS(src[e]) {
				e++
			}
			if e < n && src[e] == '=' {
				e++
				for e < n && isWS(src[e]) {
					e++
				}
				if e >= n {
					return nil, false
				}
				vs := e
				if q := src[e]; q == '"' || q == '\'' {
					e++
					for e < n && src[e] != q && src[e] != 0 {
						e++
					}
					if e >= n || src[e] != q {
						return nil, false
					}
					e++
					if e < n && !isWS(src[e]) && src[e] != '>' && src[e] != '/' {
						return nil, false // something glued to the closing quote
					}
				} else {
					for e < n && !isWS(src[e]) && !strings.ContainsRune("/>=\"'<\x00`", rune(src[e])) && src[e] < 0x80 {
						e++
					}
					if e == vs || e < n && src[e] == '/' {
						return nil, false // empty value; '/' glued to an unquoted value belongs to the value in HTML
					}
				}
				toks = append(toks, hTok{tt: html.AttributeToken, text: key, val: string(src[vs:e])})
				k = e
			} else {
				toks = append(toks, hTok{tt: html.AttributeToken, text: key})
			}
		}
		i = k
	}
	return toks, true
}

// generic invariants on arbitrary bytes (all dialects)
func c09Any(c *engine.Ctx, in []byte, args map[string]string) {
	src := append([]byte{}, in...)
	toks, _, lexErr := htmlLexAll(src, args["tmpl"])
	if args["tmpl"] == "" {
		if ref, ok := refHTMLWellFormed(src); ok {
			c.Count("well-formed-core-compared", 1)
			var h, w []string
			for _, t := range toks {
				switch t.tt {
				case html.TextToken, html.CommentToken, html.EndTagToken, html.StartTagToken:
					h = append(h, fmt.Sprintf("%s(%q)", t.tt, t.text))
				case html.AttributeToken:
					h = append(h, fmt.Sprintf("Attribute(%q=%q)", t.text, t.val))
				default:
					h = append(h, t.tt.String())
				}
			}
			for _, t := range ref {
				switch t.tt {
				case html.TextToken, html.CommentToken, html.EndTagToken, html.StartTagToken:
					w = append(w, fmt.Sprintf("%s(%q)", t.tt, t.text))
				case html.AttributeToken:
					w = append(w, fmt.Sprintf("Attribute(%q=%q)", t.text, t.val))
				default:
					w = append(w, t.tt.String())
				}
			}
			if strings.Join(h, " ") != strings.Join(w, " ") || lexErr != io.EOF {
				c.Fail("well-formed-core", fmt.Sprintf("document %q of plain text, comments and ordinary tags lexes as\n      %s (err=%v)\n want %s", src, strings.Join(h, " "), lexErr, strings.Join(w, " ")))
				return
			}
		}
	}
	if lexErr != io.EOF {
		c09AfterError(c, src, args["tmpl"])
	}
	inTag := false
	for _, t := range toks {
		switch t.tt {
		case html.StartTagToken:
			if inTag {
				c.Fail("tag-inside-tag", fmt.Sprintf("input %q: StartTag before the previous start tag was closed", src))
				return
			}
			inTag = true
		case html.AttributeToken:
			if !inTag {
				c.Fail("attribute-outside-tag", fmt.Sprintf("input %q: Attribute token outside a start tag", src))
				return
			}
		case html.StartTagCloseToken, html.StartTagVoidToken:
			if !inTag {
				c.Fail("closer-outside-tag", fmt.Sprintf("input %q: %s without an open start tag", src, t.tt))
				return
			}
			inTag = false
		default:
			if inTag {
				c.Fail("token-inside-tag", fmt.Sprintf("input %q: %s between a start tag and its closer", src, t.tt))
				return
			}
		}
		if args["tmpl"] == "" && t.tmpl {
			c.Fail("template-without-delimiters", fmt.Sprintf("input %q: HasTemplate() true without delimiters configured", src))
			return
		}
	}
}

// c09AfterError: the structural clause holds on every input, also for what the lexer returns when the caller goes on
// after an error report that is not the end of the input.
func c09AfterError(c *engine.Ctx, src []byte, dialect string) {
	in := append(make([]byte, 0, len(src)+1), src...)
	z := parse.NewInputBytes(in)
	var l *html.Lexer
	if dialect == "" {
		l = html.NewLexer(z)
	} else {
		l = html.NewTemplateLexer(z, htmlDialects[dialect])
	}
	inTag, sawError := false, false
	for i := 0; i < 4*len(src)+8; i++ {
		tt, _ := l.Next()
		switch tt {
		case html.ErrorToken:
			if l.Err() == io.EOF {
				return
			}
			if sawError && z.Offset() >= len(src) {
				return // the first error is what Err() keeps reporting at the end
			}
			sawError, inTag = true, false
		case html.StartTagToken:
			inTag = true
		case html.AttributeToken:
			if !inTag && sawError {
				c.Fail("attribute-outside-tag", fmt.Sprintf("input %q: Attribute token outside a start tag after an error report", src))
				return
			}
		case html.StartTagCloseToken, html.StartTagVoidToken:
			if !inTag && sawError {
				c.Fail("closer-outside-tag", fmt.Sprintf("input %q: %s without an open start tag after an error report", src, tt))
				return
			}
			inTag = false
		}
	}
}

func c09Setup(c *engine.Ctx) {
	c.Register(&engine.Space{Name: "html-gen", Run: c09Gen, NoMinimise: true})
	c.Register(&engine.Space{Name: "html-raw", Run: c09Raw, NoMinimise: true})
	c.Register(&engine.Space{Name: "html-any", Run: c09Any})
}

func c09Work(c *engine.Ctx) {
	gen := c.SpaceByName("html-gen")
	k := 0
	emit := func(d hCons, dialect string) {
		k++
		if !c.Mine(k) {
			return
		}
		var es []string
		for _, t := range d.toks {
			es = append(es, t.String())
		}
		c.Exec(gen, []byte(d.src), map[string]string{"exp": strings.Join(es, " "), "tmpl": dialect})
		c.Count("exec", 1)
		c.Count("distinct_nontrivial", 1)
		if k%1499 == 0 {
			c.Sample(d.src)
		}
	}
	pool := hPool()
	isText := func(h hCons) bool {
		return len(h.toks) == 1 && h.toks[0].tt == html.TextToken && !strings.HasPrefix(h.src, "<![CDATA[")
	}
	maxN := c.Pick(3, 3)
	var rec func(cur hCons, n int, lastText bool)
	rec = func(cur hCons, n int, lastText bool) {
		if n > 0 {
			emit(cur, "")
			if n <= 2 {
				// plain documents contain no delimiters: every dialect must give the same tokens
				for _, d := range []string{"go", "ejs", "php"} {
					if d == "php" && strings.Contains(cur.src, "<?") {
						continue
					}
					emit(cur, d)
				}
			}
		}
		if n == maxN {
			return
		}
		for _, ch := range pool {
			if isText(ch) && lastText {
				continue
			}
			rec(hCat(cur, ch), n+1, isText(ch))
		}
	}
	rec(hCons{}, 0, false)

	// raw-text elements × fragment contents
	raw := c.SpaceByName("html-raw")
	for _, name := range []string{"script", "style", "title", "textarea", "xmp", "iframe", "plaintext"} {
		frags := engine.Atoms("<", "/", "</", name, strings.ToUpper(name), name+"x", "<!--", "-->", "<script", "</script", ">", " ", "a", "-", "'", "\n")
		al := engine.NewAlphabet(frags)
		for _, open := range []string{"<" + name + ">", "<" + strings.ToUpper(name) + " type=a >"} {
			depth := c.Pick(4, 5)
			if name == "script" {
				depth = c.Pick(5, 6) // <!-- <script > </script > needs five fragments before the real end tag
			}
			c.EnumSeq(al, 0, depth, func(in []byte, idx []int) {
				for _, tail := range []string{"</" + name + ">z", "</" + strings.ToUpper(name) + " >", ""} {
					doc := open + string(in) + tail
					c.Exec(raw, []byte(doc), map[string]string{"name": name, "start": fmt.Sprint(len(open))})
					c.Count("exec", 1)
				}
				if len(idx) >= 2 {
					c.Count("distinct_nontrivial", 1)
				}
			})
		}
	}
	c.Sample("<script><!--<script></script>--></script>z : raw text must end where the HTML tokenizer's script-data states end it")

	// template dialects: regions at every kind of position
	for _, d := range []string{"go", "handlebars", "mustache", "ejs", "asp", "php"} {
		b, e := htmlDialects[d][0], htmlDialects[d][1]
		for _, body := range []string{"x", " x y ", "\"" + e + "\"", "'a\\'" + e + "'", "\"\\\\\"", "\"a\\\"" + e + "\" b", "<p>", ">", "a=b", ""} {
			r := b + body + e
			tmplTok := hTok{tt: html.TemplateToken, data: r, tmpl: true}
			docs := []hCons{
				// in text
				{"t" + r + "u", []hTok{{tt: html.TextToken, data: "t", text: "t"}, tmplTok, {tt: html.TextToken, data: "u", text: "u"}}},
				{r, []hTok{tmplTok}},
				{r + r, []hTok{tmplTok, tmplTok}},
				// unquoted and quoted attribute values
				{"<a b=" + r + ">", []hTok{{tt: html.StartTagToken, data: "<a", text: "a"}, {tt: html.AttributeToken, data: " b=" + r, text: "b", val: r, tmpl: true}, {tt: html.StartTagCloseToken, data: ">"}}},
				{"<a b=\"x" + r + "y\" c>", []hTok{{tt: html.StartTagToken, data: "<a", text: "a"}, {tt: html.AttributeToken, data: " b=\"x" + r + "y\"", text: "b", val: "\"x" + r + "y\"", tmpl: true}, {tt: html.AttributeToken, data: " c", text: "c"}, {tt: html.StartTagCloseToken, data: ">"}}},
				{"<a b='" + r + "'>", []hTok{{tt: html.StartTagToken, data: "<a", text: "a"}, {tt: html.AttributeToken, data: " b='" + r + "'", text: "b", val: "'" + r + "'", tmpl: true}, {tt: html.StartTagCloseToken, data: ">"}}},
				// attribute name / between attributes
				{"<a " + r + ">", []hTok{{tt: html.StartTagToken, data: "<a", text: "a"}, {tt: html.AttributeToken, data: " " + r, text: r, tmpl: true}, {tt: html.StartTagCloseToken, data: ">"}}},
				{"<a B" + r + "=c>", []hTok{{tt: html.StartTagToken, data: "<a", text: "a"}, {tt: html.AttributeToken, data: " B" + r + "=c", text: "B" + r, val: "c", tmpl: true}, {tt: html.StartTagCloseToken, data: ">"}}},
				// regions anywhere in an unquoted value: adjacent ones, after and before other characters
				{"<a b=" + r + r + " c>", []hTok{{tt: html.StartTagToken, data: "<a", text: "a"}, {tt: html.AttributeToken, data: " b=" + r + r, text: "b", val: r + r, tmpl: true}, {tt: html.AttributeToken, data: " c", text: "c"}, {tt: html.StartTagCloseToken, data: ">"}}},
				{"<a b=x" + r + ">", []hTok{{tt: html.StartTagToken, data: "<a", text: "a"}, {tt: html.AttributeToken, data: " b=x" + r, text: "b", val: "x" + r, tmpl: true}, {tt: html.StartTagCloseToken, data: ">"}}},
				{"<a b=" + r + "y c>", []hTok{{tt: html.StartTagToken, data: "<a", text: "a"}, {tt: html.AttributeToken, data: " b=" + r + "y", text: "b", val: r + "y", tmpl: true}, {tt: html.AttributeToken, data: " c", text: "c"}, {tt: html.StartTagCloseToken, data: ">"}}},
				{"<a b=/p/" + r + "/q" + r + ">", []hTok{{tt: html.StartTagToken, data: "<a", text: "a"}, {tt: html.AttributeToken, data: " b=/p/" + r + "/q" + r, text: "b", val: "/p/" + r + "/q" + r, tmpl: true}, {tt: html.StartTagCloseToken, data: ">"}}},
				// upper-case names next to template regions: names are lower-cased, values stay verbatim
				{"<A HREF=" + r + " Class=X>", []hTok{{tt: html.StartTagToken, data: "<a", text: "a"}, {tt: html.AttributeToken, data: " href=" + r, text: "href", val: r, tmpl: true}, {tt: html.AttributeToken, data: " class=X", text: "class", val: "X"}, {tt: html.StartTagCloseToken, data: ">"}}},
				{"<a Data-X=\"P" + r + "Q\" ID='" + r + "'>", []hTok{{tt: html.StartTagToken, data: "<a", text: "a"}, {tt: html.AttributeToken, data: " data-x=\"P" + r + "Q\"", text: "data-x", val: "\"P" + r + "Q\"", tmpl: true}, {tt: html.AttributeToken, data: " id='" + r + "'", text: "id", val: "'" + r + "'", tmpl: true}, {tt: html.StartTagCloseToken, data: ">"}}},
				{"<a B=c " + r + " D=e>", []hTok{{tt: html.StartTagToken, data: "<a", text: "a"}, {tt: html.AttributeToken, data: " b=c", text: "b", val: "c"}, {tt: html.AttributeToken, data: " " + r, text: r, tmpl: true}, {tt: html.AttributeToken, data: " d=e", text: "d", val: "e"}, {tt: html.StartTagCloseToken, data: ">"}}},
				// raw text
				{"<script>a" + r + "b</script>", []hTok{{tt: html.StartTagToken, data: "<script", text: "script"}, {tt: html.StartTagCloseToken, data: ">"}, {tt: html.TextToken, data: "a" + r + "b", text: "a" + r + "b", tmpl: true}, {tt: html.EndTagToken, data: "</script>", text: "script"}}},
				{"<title>" + r + "</title>", []hTok{{tt: html.StartTagToken, data: "<title", text: "title"}, {tt: html.StartTagCloseToken, data: ">"}, {tt: html.TextToken, data: r, text: r, tmpl: true}, {tt: html.EndTagToken, data: "</title>", text: "title"}}},
			}
			// inside the token kinds that take everything up to their own terminator: the region is part of the token,
			// whatever it contains, and HasTemplate() is true for that token
			one := func(tt html.TokenType, src, low, text string) hCons {
				return hCons{src, []hTok{{tt: tt, data: low, text: text, tmpl: true}}}
			}
			for _, q := range []string{r, b + "\"-->\"" + e, b + "'--!>'" + e, b + "\"]]>\"" + e, b + "\"</svg>\"" + e, b + "'</script>'" + e, b + "\"</A>\"" + e} {
				docs = append(docs,
					one(html.CommentToken, "<!--a"+q+"b-->", "<!--a"+q+"b-->", "a"+q+"b"), one(html.CommentToken, "<!--"+q+"--!>", "<!--"+q+"--!>", q),
					one(html.CommentToken, "<!x"+q+">", "<!x"+q+">", "x"+q), one(html.CommentToken, "<?x"+q+"y>", "<?x"+q+"y>", "x"+q+"y"), one(html.CommentToken, "</"+q+">", "</"+q+">", q),
					one(html.DoctypeToken, "<!doctype "+q+">", "<!doctype "+q+">", " "+q), one(html.DoctypeToken, "<!DOCTYPE html "+q+">", "<!DOCTYPE html "+q+">", " html "+q),
					one(html.TextToken, "<![CDATA[a"+q+"b]]>", "<![CDATA[a"+q+"b]]>", "a"+q+"b"),
					one(html.EndTagToken, "</a"+q+">", "</a"+q+">", "a"+q), one(html.EndTagToken, "</A "+q+" >", "</a "+q+" >", "a "+q), one(html.EndTagToken, "</P"+q+"Q>", "</p"+q+"Q>", "p"+q+"Q"),
					one(html.SVGToken, "<svg>"+q+"</svg>", "<svg>"+q+"</svg>", ""), one(html.SVGToken, "<svg><!-- "+q+" --><b/></svg>", "<svg><!-- "+q+" --><b/></svg>", ""), one(html.MathToken, "<math><![CDATA[a"+q+"]]></math>", "<math><![CDATA[a"+q+"]]></math>", ""), one(html.SVGToken, "<SVG a="+q+"><b/></svg>", "<svg a="+q+"><b/></svg>", ""), one(html.MathToken, "<math><mi>"+q+"</mi></math>", "<math><mi>"+q+"</mi></math>", ""),
					hCons{"<plaintext>a" + q + "b", []hTok{{tt: html.StartTagToken, data: "<plaintext", text: "plaintext"}, {tt: html.StartTagCloseToken, data: ">"}, {tt: html.TextToken, data: "a" + q + "b", text: "a" + q + "b", tmpl: true}}},
					hCons{"<script><!--" + q + "--></script>", []hTok{{tt: html.StartTagToken, data: "<script", text: "script"}, {tt: html.StartTagCloseToken, data: ">"}, {tt: html.TextToken, data: "<!--" + q + "-->", text: "<!--" + q + "-->", tmpl: true}, {tt: html.EndTagToken, data: "</script>", text: "script"}}},
					hCons{"<script><!--<script>" + q + "</script>--></script>", []hTok{{tt: html.StartTagToken, data: "<script", text: "script"}, {tt: html.StartTagCloseToken, data: ">"}, {tt: html.TextToken, data: "<!--<script>" + q + "</script>-->", text: "<!--<script>" + q + "</script>-->", tmpl: true}, {tt: html.EndTagToken, data: "</script>", text: "script"}}})
			}
			for _, doc := range docs {
				if strings.HasPrefix(doc.src, "<?x") && b == "<?" {
					continue // under this dialect "<?x" opens a region itself
				}
				if strings.Contains(body, "<p>") && strings.Contains(doc.src, "<a b=") && !strings.Contains(doc.src, "\"x") && !strings.Contains(doc.src, "='") {
					// fine: the region hides '<' and '>' from the unquoted value
				}
				emit(doc, d)
			}
		}
	}

	// tag-level alphabet: every sequence of tag openers, names, separators, values and closers (plain lexer); the
	// sequences that form plain text, comments and ordinary tags are compared with the well-formed-core reference,
	// all of them with the structural invariants
	{
		tagAl := engine.NewAlphabet(engine.Atoms("<a", "<Br", "</a", " ", "\n", "b", "Cd", "=", "\"x y\"", "'z>'", "v", ">", "/>", "<!--", "-->", "t&amp;", "-"))
		sp := c.SpaceByName("html-any")
		c.EnumSeq(tagAl, 0, c.Pick(6, 7), func(in []byte, idx []int) {
			c.Exec(sp, in, map[string]string{"tmpl": ""})
			c.Count("exec", 1)
			c.Count("tag-level-sequences", 1)
		})
	}
	// generic invariants on arbitrary bytes
	anysp := c.SpaceByName("html-any")
	for _, pl := range []enumPlan{{alphaHTML, c.Pick(3, 4), nil}, {alphaHTMLCore, c.Pick(4, 5), nil}} {
		al := engine.NewAlphabet(pl.alpha)
		cfgs := allStreamCfgs("html-lex")
		c.EnumSeq(al, 0, pl.maxLen, func(in []byte, idx []int) {
			for _, cf := range cfgs {
				c.Exec(anysp, in, cf.args)
				c.Count("exec", 1)
			}
		})
	}
	for _, seed := range seedsHTML {
		c.EditBall([]byte(seed), alphaHTMLCore, func(in []byte) {
			c.Exec(anysp, in, map[string]string{"tmpl": ""})
			c.Exec(anysp, in, map[string]string{"tmpl": "go"})
			c.Count("exec", 2)
		})
		c.ByteSweep([]byte(seed), true, func(in []byte) {
			c.Exec(anysp, in, map[string]string{"tmpl": ""})
			c.Exec(anysp, in, map[string]string{"tmpl": "ejs"})
			c.Count("exec", 2)
			c.Count("byte-sweep", 1)
		})
	}
	_ = bytes.Equal
}

func init() {
	register(&engine.Check{
		ID: "C09", Level: "exploration",
		Rule:        "documents = every sequence of ≤2 (3) constructs from a catalogue of ~75 (text incl. stray '<', comments of every closing form, bogus comments, doctype in three cases, CDATA, end tags with whitespace, start tags × 13 attribute forms × closers × whitespace, svg/math subtrees with quoted end-tag look-alikes), plain and (≤2 constructs) under three dialects: token list (type, data, Text/AttrKey lower-cased, AttrVal verbatim, HasTemplate) equals the list known by construction; 7 raw-text elements × every content of ≤4 (5) fragments over {<, /, </, name, NAME, namex, <!--, -->, <script, </script, >, space, a, -, ', newline} × 3 tails × 2 start-tag spellings: the text token must end exactly where a transcription of the HTML tokenizer's RCDATA/RAWTEXT/script-data (double-escape) states ends the content; six template dialects × 10 region bodies (quotes, escaped quotes, fake end delimiter, and the quoted terminator of the surrounding token) × 29 placements with expected tokens (text, attribute names and values, raw text incl. plaintext and the escaped script states, comments of every kind, doctype, CDATA, end tags, svg/math); attribute/tag structure invariants (also after an error report that is not the end of the input) on all byte strings ≤3-5 atoms over the HTML alphabets × dialects",
		Assumptions: []string{"an end tag is 'matching' when its name is followed by whitespace, '/' or '>' (HTML tokenizer: appropriate end tag token)", "html.ToHash is covered by C16"},
		Setup:       c09Setup, Work: c09Work,
	})
}
