package main

// C07 — CSS tokens follow the CSS Syntax Level 3 token grammar; IsIdent and
// IsURLUnquoted agree with the lexer.

import (
	"bytes"
	"fmt"
	"strings"

	"verifmc/engine"

	parse "github.com/tdewolff/parse/v2"
	"github.com/tdewolff/parse/v2/css"
)

type cssTok struct {
	tt   css.TokenType
	data string
}

func cssLexAll(b []byte) []cssTok {
	in := append(make([]byte, 0, len(b)+1), b...)
	l := css.NewLexer(parse.NewInputBytes(in))
	var r []cssTok
	for i := 0; i < 4*len(b)+8; i++ {
		tt, d := l.Next()
		if tt == css.ErrorToken {
			break
		}
		r = append(r, cssTok{tt, string(d)})
	}
	return r
}

func fmtCSSToks(ts []cssTok) string {
	var sb strings.Builder
	for _, t := range ts {
		fmt.Fprintf(&sb, "%s(%q) ", t.tt, t.data)
	}
	return sb.String()
}

var seenRefState = map[uint32]bool{}
var seenRefTrans = map[uint32]bool{}

func c07Compare(c *engine.Ctx, in []byte, args map[string]string) {
	b := append([]byte{}, in...)
	ref := refCSSLex(b)
	got := cssLexAll(b)
	// reference automaton coverage: token classes and (class, next class) pairs
	prev := uint32(63)
	for _, t := range ref.toks {
		cur := uint32(t.tt)
		if !seenRefState[cur] {
			seenRefState[cur] = true
			c.State(t.tt.String())
		}
		k := prev<<8 | cur
		if !seenRefTrans[k] {
			seenRefTrans[k] = true
			c.Transition(fmt.Sprintf("%d>%d", prev, cur))
		}
		prev = cur
	}
	if ref.ambiguous {
		c.Count("skipped-ambiguous", 1)
		return
	}
	want := make([]cssTok, len(ref.toks))
	for i, t := range ref.toks {
		want[i] = cssTok{t.tt, string(b[t.start:t.end])}
	}
	if !ref.parseErr {
		c.Count("compared", 1)
		for i := 0; i < len(got) || i < len(want); i++ {
			if i >= len(got) || i >= len(want) || got[i] != want[i] {
				g, w := "end", "end"
				if i < len(got) {
					g = got[i].tt.String()
				}
				if i < len(want) {
					w = want[i].tt.String()
				}
				if ref.quirk != "" && i >= ref.quirkTok {
					c.Fail(ref.quirk, fmt.Sprintf("token %d: lexer: %s| CSS Syntax 3: %s", i, fmtCSSToks(got), fmtCSSToks(want)))
					return
				}
				c.Fail("tokens:"+w+"-lexed-as-"+g, fmt.Sprintf("token %d: lexer: %s| CSS Syntax 3: %s", i, fmtCSSToks(got), fmtCSSToks(want)))
				return
			}
		}
		c.Observe(engine.Hash64([]byte(fmtCSSToks(got))))
		return
	}
	c.Count("parse-error-inputs", 1)
	// malformed input: the two clauses the property states, checked on the
	// first malformed construct (everything before it must agree)
	for i, w := range want {
		if ref.quirk != "" && i >= ref.quirkTok && (i >= len(got) || got[i] != w) {
			c.Fail(ref.quirk, fmt.Sprintf("token %d: lexer: %s| CSS Syntax 3: %s", i, fmtCSSToks(got), fmtCSSToks(want)))
			return
		}
		if w.tt == css.BadStringToken {
			if i >= len(got) || got[i].tt != css.BadStringToken || !strings.HasPrefix(got[i].data, w.data) {
				c.Fail("bad-string", fmt.Sprintf("a raw newline in a string must give BadString: lexer: %s| expected token %d to be BadString(%q…)", fmtCSSToks(got), i, w.data))
			}
			return
		}
		if w.tt == css.BadURLToken {
			if i >= len(got) || got[i] != w {
				c.Fail("bad-url", fmt.Sprintf("a malformed url( must give one BadURL up to the matching ')': lexer: %s| expected token %d to be BadURL(%q)", fmtCSSToks(got), i, w.data))
			}
			return
		}
		if i >= len(got) || got[i] != w {
			if i == len(want)-1 {
				return // the construct cut by the end of input: unspecified
			}
			c.Fail("tokens-before-error", fmt.Sprintf("token %d before the malformed construct: lexer: %s| CSS Syntax 3: %s", i, fmtCSSToks(got), fmtCSSToks(want)))
			return
		}
	}
}

// c07Util: IsIdent / IsURLUnquoted against the library's own lexer.
func c07Util(c *engine.Ctx, in []byte, args map[string]string) {
	arr := make([]byte, len(in)+1)
	copy(arr, in)
	arr[len(in)] = 0xEE
	pristine := append([]byte{}, arr...)
	b := arr[:len(in)]
	isIdent := css.IsIdent(b)
	if !bytes.Equal(arr, pristine) {
		c.Fail("IsIdent-mutates", fmt.Sprintf("IsIdent(%q) changed its argument's array from %q to %q", in, pristine, arr))
		copy(arr, pristine)
	}
	isURL := css.IsURLUnquoted(b)
	if !bytes.Equal(arr, pristine) {
		c.Fail("IsURLUnquoted-mutates", fmt.Sprintf("IsURLUnquoted(%q) changed its argument's array from %q to %q", in, pristine, arr))
		copy(arr, pristine)
	}
	// same with exact capacity
	b2 := append(make([]byte, 0, len(in)), in...)
	if css.IsIdent(b2) != isIdent || css.IsURLUnquoted(b2) != isURL {
		c.Fail("util-capacity-dependent", fmt.Sprintf("IsIdent/IsURLUnquoted(%q) depend on the spare capacity of the argument", in))
	}
	if len(in) > 0 {
		toks := cssLexAll(in)
		one := len(toks) == 1 && (toks[0].tt == css.IdentToken || toks[0].tt == css.CustomPropertyNameToken) && toks[0].data == string(in)
		if isIdent != one {
			c.Fail("IsIdent", fmt.Sprintf("IsIdent(%q)=%v but the lexer gives %s", in, isIdent, fmtCSSToks(toks)))
		}
	}
	if isURL {
		u := "url(" + string(in) + ")"
		toks := cssLexAll([]byte(u))
		if !(len(toks) == 1 && toks[0].tt == css.URLToken && toks[0].data == u) {
			c.Fail("IsURLUnquoted", fmt.Sprintf("IsURLUnquoted(%q)=true but %q lexes as %s", in, u, fmtCSSToks(toks)))
		}
	}
	if isIdent {
		c.Count("idents", 1)
	}
	if isURL {
		c.Count("urls", 1)
	}
}

var c07Vocab = []string{
	// identifiers
	"a", "ab", "A", "_a", "-a", "a-b", "a1", "é", "a\\41 ", "\\41", "\\000041", "\\000041b", "\\é", "\\-", "-\\-", "a\\(", "u", "ur", "urlx", "e", "e1", "u1",
	// custom properties
	"--x", "--", "--0", "---",
	// functions and urls
	"f(", "rgb(", "-f(", "--f(", "url(x)", "url( x )", "url(\"x\")", "url('x' )", "URL(x)", "Url(x)", "u\\rl(x)", "url()", "url(x\\)y)", "url(", "urlx(",
	// bad urls
	"url(x y)", "url(x\"y)", "url(x(y)", "url(\"x\"y)", "url(x y\\)z)",
	// at-keywords and hashes
	"@a", "@-a", "@\\41", "@media", "#a", "#1", "#-a", "#-", "#\\41", "#a1b2c3",
	// strings
	"\"a\"", "'a'", "\"\"", "\"a\\\"b\"", "'a\\'b'", "\"a\\\nb\"", "\"a'b\"", "\"\\41 b\"",
	// numbers
	"1", "12", "+1", "-1", "1.5", ".5", "+.5", "-.5", "1e3", "1e+3", "1E-3", "1.5e3", "0",
	// percentages and dimensions
	"1%", "1.5%", "1px", "1e1x", "1em", "1ex", "1-x", "1\\65", "1e", "1E", "1_", "+1px", "-1em",
	// unicode ranges
	"u+1", "U+12????", "u+1-2", "U+0-7F", "u+??????", "u+123456", "U+A5",
	// operators and punctuation
	"~=", "|=", "^=", "$=", "*=", "||", "<!--", "-->", ":", ";", ",", "[", "]", "(", ")", "{", "}",
	// delimiters
	"~", "|", "^", "$", "*", "+", "-", ".", "/", "<", ">", "!", "=", "#", "@", "%", "&", "?",
	// whitespace and comments
	" ", "\t", "\n", "\r\n", "\f", "  ", "/**/", "/* c */", "/*\n*/", "/***/",
}

var c07Core = []string{"a", "-a", "--x", "\\41 ", "f(", "url(x)", "url( \"x\" )", "@a", "#a", "\"a\"", "1", "+1", "-1", ".5", "1e3", "1%", "1px", "1e", "u+1", "U+1?", "~=", "|", "||", "<!--", "-->", ":", ";", "(", ")", "{", "}", "-", "+", ".", "/", "*", "#", "@", "e", "u", " ", "\n", "/**/", "%", "\\", "!"}

var c07Seps = []string{"", " ", "\n", "/**/"}

func c07Setup(c *engine.Ctx) {
	c.Register(&engine.Space{Name: "css-ref", Run: c07Compare})
	c.Register(&engine.Space{Name: "css-util", Run: c07Util})
}

func c07Work(c *engine.Ctx) {
	sp := c.SpaceByName("css-ref")
	ut := c.SpaceByName("css-util")
	exec := func(s string) {
		c.Exec(sp, []byte(s), nil)
		c.Count("exec", 1)
	}
	// vocabulary: singles, all pairs × separators, core triples × separators
	k := 0
	for _, a := range c07Vocab {
		k++
		if c.Mine(k) {
			exec(a)
		}
		for _, b := range c07Vocab {
			k++
			if !c.Mine(k) {
				continue
			}
			for _, s := range c07Seps {
				exec(a + s + b)
			}
			c.Count("distinct_nontrivial", 1)
		}
	}
	seps3 := c07Seps
	if !c.Thorough() {
		seps3 = []string{"", " "}
	}
	for _, a := range c07Core {
		for _, b := range c07Core {
			k++
			if !c.Mine(k) {
				continue
			}
			for _, d := range c07Core {
				for _, s1 := range seps3 {
					for _, s2 := range seps3 {
						exec(a + s1 + b + s2 + d)
					}
				}
				c.Count("distinct_nontrivial", 1)
			}
		}
	}
	c.Sample("pair: " + c07Vocab[9] + c07Seps[3] + c07Vocab[40])
	c.Sample("triple: " + c07Core[3] + c07Core[18] + c07Core[5])
	// all byte strings over the CSS alphabet
	for pi, pl := range []enumPlan{{alphaCSS, c.Pick(4, 4), nil}, {alphaCSSCore, c.Pick(4, 5), nil}} {
		al := engine.NewAlphabet(pl.alpha)
		lvl := c.EnumSeq(al, 0, pl.maxLen, func(in []byte, idx []int) {
			c.Exec(sp, in, nil)
			c.Exec(ut, in, nil)
			c.Count("exec", 2)
			if len(idx) >= 2 && al.Canonical(idx, in) {
				c.Count("distinct_nontrivial", 1)
			}
		})
		c.Count(fmt.Sprintf("min:level_plan%d", pi), int64(lvl))
	}
	// IsIdent / IsURLUnquoted: one more level over an identifier/url-centred alphabet
	ual := engine.NewAlphabet(engine.Atoms("a", "-", "_", "0", "\\", " ", "\n", "(", ")", "\"", "'", "é", "\x00", "\x7f", "\t", "4", "g", "/", ":", "%", "\x80"))
	c.EnumSeq(ual, 0, c.Pick(4, 5), func(in []byte, idx []int) {
		c.Exec(ut, in, nil)
		c.Count("exec", 1)
	})
	for _, seed := range seedsCSS {
		c.EditBall([]byte(seed), alphaCSS, func(in []byte) {
			c.Exec(sp, in, nil)
			c.Count("exec", 1)
		})
		c.ByteSweep([]byte(seed), true, func(in []byte) {
			c.Exec(sp, in, nil)
			c.Count("exec", 1)
			c.Count("byte-sweep", 1)
		})
	}
}

func c07Finish(c *engine.Ctx, cov map[string]interface{}) string {
	cov["states"] = len(c.States)
	cov["transitions"] = len(c.Trans)
	cov["traces_validated_against_impl"] = c.Counters["compared"] + c.Counters["parse-error-inputs"]
	cov["state_definition"] = "token classes of the reference tokenizer reached, transitions = adjacent (class, class) pairs; every reference trace is compared with the implementation"
	if c.Counters["compared"] < 100000 {
		return "vacuous: fewer than 100000 inputs compared token by token"
	}
	if c.Counters["idents"] < 100 || c.Counters["urls"] < 100 {
		return "vacuous: IsIdent/IsURLUnquoted hardly ever true"
	}
	return ""
}

func init() {
	register(&engine.Check{
		ID: "C07", Level: "model_checking",
		Rule:        "vocabulary of ~170 token spellings (every token class of CSS Syntax 3 incl. escapes, custom properties, quoted/unquoted/bad urls in three cases, all number/percentage/dimension shapes, unicode ranges, match operators, CDO/CDC, delimiters, whitespace kinds, comments): every single, every ordered pair × separators {none, space, newline, /**/}, every triple over a 46-spelling core × separators; every byte string ≤k atoms over the CSS alphabets; edit balls around the CSS seeds; each lexed by css.Lexer and by a transcription of the CSS Syntax 3 (CR 2014) tokenizer; inputs the reference flags as ambiguous (NUL, invalid UTF-8, hex-escaped url(, number followed by --) are skipped, the two unicode-range shapes on which the library's own tests pin a deviation are reported under their own clauses, inputs with spec parse errors are compared up to the malformed construct and for the BadString/BadURL clauses. IsIdent/IsURLUnquoted compared with the library's own lexer on every enumerated byte string",
		Assumptions: []string{"reference = CSS Syntax Level 3 CR 2014 tokenizer + comments as tokens + --x as custom-property-name", "BadString: the library includes the newline in the token, the spec does not; only type and prefix are compared"},
		Setup:       c07Setup, Work: c07Work, Finish: c07Finish,
	})
}
