package main

// C12 — parse.Input and buffer.Lexer are the documented cursor.
// Explicit-state search to a fix-point over the (start,pos) states of the
// real object for every input of the bounded alphabet and every constructor,
// in lock-step with a reference cursor (byte slice + two ints).

import (
	"bytes"
	"errors"
	"fmt"
	"io"
	"reflect"
	"strconv"
	"strings"
	"unicode/utf8"

	"verifmc/engine"

	parse "github.com/tdewolff/parse/v2"
	"github.com/tdewolff/parse/v2/buffer"
	"github.com/tdewolff/parse/v2/css"
)

type cursor interface {
	Err() error
	PeekErr(int) error
	Peek(int) byte
	PeekRune(int) (rune, int)
	Move(int)
	Pos() int
	Rewind(int)
	Lexeme() []byte
	Skip()
	Shift() []byte
	Offset() int
	Bytes() []byte
	Reset()
	Restore()
}

var errCustom = errors.New("custom reader failure")

// failReader delivers data[:failAt] in chunks of chunk bytes and then fails.
type failReader struct {
	data      []byte
	off       int
	chunk     int
	failAt    int // -1: never (EOF at end)
	withData  bool
	zeroFirst bool
	eofWith   bool // deliver io.EOF together with the last bytes
}

func (r *failReader) Read(p []byte) (int, error) {
	if r.zeroFirst {
		r.zeroFirst = false
		return 0, nil
	}
	limit := len(r.data)
	if r.failAt >= 0 {
		limit = r.failAt
	}
	if r.off >= limit {
		if r.failAt >= 0 {
			return 0, errCustom
		}
		return 0, io.EOF
	}
	n := r.chunk
	if n > len(p) {
		n = len(p)
	}
	if n > limit-r.off {
		n = limit - r.off
	}
	copy(p, r.data[r.off:r.off+n])
	r.off += n
	if r.off >= limit {
		if r.failAt >= 0 && r.withData {
			return n, errCustom
		}
		if r.failAt < 0 && r.eofWith {
			return n, io.EOF
		}
	}
	return n, nil
}

// bytesReader has a Bytes() method like bytes.Buffer / buffer.Reader.
type bytesReader struct{ b []byte }

func (r *bytesReader) Read(p []byte) (int, error) { return 0, io.EOF }
func (r *bytesReader) Bytes() []byte              { return r.b }

const (
	c12NoSpare = iota
	c12Spare
	c12String
	c12BytesReaderNoSpare
	c12BytesReaderSpare
	c12PlainReader1
	c12PlainReaderEOFWith
	c12PlainReaderZeroFirst
	c12Nil
	c12BufferReaderPartial  // a buffer.Reader of which two bytes were read before
	c12BytesBufferPartial   // a bytes.Buffer of which two bytes were read before
	c12StringsReaderPartial // a strings.Reader (it has Size() but no Bytes()) of which two bytes were read before
	c12BytesReaderSeeked    // a bytes.Reader that was moved to offset 2 with Seek
	c12FailAlone            // + fail index
	c12FailWithData         // + fail index
	c12NumCtors
)

var c12CtorNames = []string{"bytes-nospare", "bytes-spare", "string", "reader-Bytes()-nospare", "reader-Bytes()-spare", "reader-1byte", "reader-eof-with-data", "reader-zero-first", "nil-reader", "buffer.Reader-partly-read", "bytes.Buffer-partly-read", "strings.Reader-partly-read", "bytes.Reader-after-Seek", "reader-fails-alone", "reader-fails-with-data"}

type c12Built struct {
	z        cursor
	caller   []byte // the caller's array incl. the spare byte (nil when not caller-owned)
	pristine []byte
	data     []byte // expected contents
	err      error  // expected sticky error
	spare    bool
}

func c12Build(kind string, ctor int, failAt int, data []byte) *c12Built {
	b := &c12Built{data: data}
	mk := func(spare bool) []byte {
		if spare {
			arr := make([]byte, len(data)+1)
			copy(arr, data)
			arr[len(data)] = 0xEE
			b.caller = arr
			b.pristine = append([]byte{}, arr...)
			b.spare = true
			return arr[:len(data)]
		}
		arr := make([]byte, len(data))
		copy(arr, data)
		b.caller = arr
		b.pristine = append([]byte{}, arr...)
		return arr[:len(data):len(data)]
	}
	var r io.Reader
	switch ctor {
	case c12NoSpare, c12Spare:
		s := mk(ctor == c12Spare)
		if kind == "input" {
			b.z = parse.NewInputBytes(s)
		} else {
			b.z = buffer.NewLexerBytes(s)
		}
		return b
	case c12String:
		if kind == "input" {
			b.z = parse.NewInputString(string(data))
		} else {
			b.z = buffer.NewLexerBytes([]byte(string(data)))
		}
		return b
	case c12BytesReaderNoSpare, c12BytesReaderSpare:
		r = &bytesReader{mk(ctor == c12BytesReaderSpare)}
	case c12PlainReader1:
		r = &failReader{data: data, chunk: 1, failAt: -1}
	case c12PlainReaderEOFWith:
		r = &failReader{data: data, chunk: 3, failAt: -1, eofWith: true}
	case c12PlainReaderZeroFirst:
		r = &failReader{data: data, chunk: 2, failAt: -1, zeroFirst: true}
	case c12Nil:
		r = nil
		b.data = nil
	case c12BufferReaderPartial:
		br := buffer.NewReader(append([]byte("zz"), data...))
		br.Read(make([]byte, 2))
		r = br
	case c12BytesBufferPartial:
		bb := bytes.NewBuffer(append([]byte("zz"), data...))
		bb.Read(make([]byte, 2))
		r = bb
	case c12StringsReaderPartial:
		sr := strings.NewReader("zz" + string(data))
		sr.Read(make([]byte, 2))
		r = sr
	case c12BytesReaderSeeked:
		br := bytes.NewReader(append([]byte("zz"), data...))
		br.Seek(2, io.SeekStart)
		r = br
	case c12FailAlone:
		r = &failReader{data: data, chunk: 2, failAt: failAt}
		b.data, b.err = nil, errCustom
	case c12FailWithData:
		r = &failReader{data: data, chunk: 2, failAt: failAt, withData: true}
		b.data, b.err = nil, errCustom
	}
	if kind == "input" {
		b.z = parse.NewInput(r)
	} else {
		b.z = buffer.NewLexer(r)
	}
	return b
}

type c12Op struct {
	k byte // 'm' move n, 'r' rune, 'w' rewind n, 's' skip, 'h' shift, 'z' reset
	n int
}

func (o c12Op) String() string {
	switch o.k {
	case 'm':
		return "Move(" + strconv.Itoa(o.n) + ")"
	case 'r':
		return "MoveRune()"
	case 'w':
		return "Rewind(" + strconv.Itoa(o.n) + ")"
	case 's':
		return "Skip()"
	case 'h':
		return "Shift()"
	case 'z':
		return "Reset()"
	}
	return "?"
}

type c12State struct{ start, pos int }

func c12Key(z cursor) (start, pos, blen int, hasErr bool) {
	v := reflect.ValueOf(z).Elem()
	return int(v.FieldByName("start").Int()), int(v.FieldByName("pos").Int()), v.FieldByName("buf").Len(), !v.FieldByName("err").IsNil()
}

func c12Apply(z cursor, o c12Op) []byte {
	switch o.k {
	case 'm':
		z.Move(o.n)
	case 'r':
		z.(interface{ MoveRune() }).MoveRune()
	case 'w':
		z.Rewind(o.n)
	case 's':
		z.Skip()
	case 'h':
		return z.Shift()
	case 'z':
		z.Reset()
	}
	return nil
}

func completeRune(d []byte) (rune, int, bool) {
	if len(d) == 0 {
		return 0, 0, false
	}
	r, n := utf8.DecodeRune(d)
	if r == utf8.RuneError && n <= 1 {
		return 0, 0, false
	}
	return r, n, true
}

func c12Run(c *engine.Ctx, in []byte, args map[string]string) {
	kind := args["kind"]
	ctor, _ := strconv.Atoi(args["ctor"])
	failAt, _ := strconv.Atoi(args["fail"])
	data := append([]byte{}, in...)

	ref := c12Build(kind, ctor, failAt, data)
	D := ref.data
	L := len(D)
	hist := map[c12State][]c12Op{{0, 0}: nil}
	queue := []c12State{{0, 0}}
	histStr := func(h []c12Op, extra string) string {
		s := c12CtorNames[ctor] + ":"
		for _, o := range h {
			s += " " + o.String()
		}
		return s + " " + extra
	}
	build := func(h []c12Op) *c12Built {
		b := c12Build(kind, ctor, failAt, data)
		for _, o := range h {
			c12Apply(b.z, o)
		}
		return b
	}
	checkKey := func(b *c12Built, s c12State, h []c12Op, what string) bool {
		st, po, bl, he := c12Key(b.z)
		if st != s.start || po != s.pos || bl != L+1 || he != (ref.err != nil) {
			c.Fail("state", fmt.Sprintf("%s: private state (start=%d,pos=%d,len(buf)=%d,err=%v) differs from model (start=%d,pos=%d,len=%d+1,err=%v)", histStr(h, what), st, po, bl, he, s.start, s.pos, L, ref.err != nil))
			return false
		}
		return true
	}
	for qi := 0; qi < len(queue); qi++ {
		s := queue[qi]
		h := hist[s]
		b := build(h)
		z := b.z
		c.Count("states", 1)
		if !checkKey(b, s, h, "") {
			return
		}
		// observers
		nobs := 0
		obs := func(name string, ok bool, format string, a ...interface{}) {
			nobs++
			if !ok {
				c.Fail(name, histStr(h, "then "+fmt.Sprintf(format, a...)))
			}
		}
		obs("Pos", z.Pos() == s.pos-s.start, "Pos()=%d want %d", z.Pos(), s.pos-s.start)
		obs("Offset", z.Offset() == s.pos, "Offset()=%d want %d", z.Offset(), s.pos)
		if ln, ok := z.(interface{ Len() int }); ok {
			obs("Len", ln.Len() == L, "Len()=%d want %d", ln.Len(), L)
		}
		wantErr := func(i int) error {
			if ref.err != nil {
				return ref.err
			}
			if s.pos+i >= L {
				return io.EOF
			}
			return nil
		}
		obs("Err", z.Err() == wantErr(0), "Err()=%v want %v", z.Err(), wantErr(0))
		bs := z.Bytes()
		obs("Bytes", bytes.Equal(bs, D) && cap(bs) == len(bs), "Bytes()=%q cap=%d want %q", bs, cap(bs), D)
		lx := z.Lexeme()
		obs("Lexeme", bytes.Equal(lx, D[s.start:s.pos]) && cap(lx) == len(lx), "Lexeme()=%q cap=%d want %q with cap==len", lx, cap(lx), D[s.start:s.pos])
		if len(lx) > 0 && len(bs) > 0 {
			obs("Lexeme-alias", &lx[0] == &bs[s.start], "Lexeme() does not alias Bytes()[start:]")
		}
		for i := 0; s.pos+i <= L; i++ {
			var want byte
			if s.pos+i < L {
				want = D[s.pos+i]
			}
			g := z.Peek(i)
			obs("Peek", g == want, "Peek(%d)=%#x want %#x", i, g, want)
			ge := z.PeekErr(i)
			obs("PeekErr", ge == wantErr(i), "PeekErr(%d)=%v want %v", i, ge, wantErr(i))
			// PeekRune
			func() {
				defer func() {
					if r := recover(); r != nil {
						nobs++
						c.Fail("PeekRune-overread", histStr(h, fmt.Sprintf("then PeekRune(%d) panics: %v (reads beyond the terminator)", i, r)))
					}
				}()
				r, n := z.PeekRune(i)
				rem := D[s.pos+i:]
				if wr, wn, ok := completeRune(rem); ok {
					obs("PeekRune-valid", r == wr && n == wn, "PeekRune(%d)=(%U,%d) want (%U,%d) like unicode/utf8", i, r, n, wr, wn)
				} else if len(rem) == 0 {
					obs("PeekRune-end", r == 0 && n == 1, "PeekRune(%d) at the end=(%U,%d) want (0,1)", i, r, n)
				} else {
					obs("PeekRune-length", n >= 1 && n <= len(rem), "PeekRune(%d) reports length %d but only %d bytes remain", i, n, len(rem))
				}
			}()
		}
		// "io.EOF exactly from the end onwards": also for look-aheads that land beyond the terminator
		for i := L - s.pos + 1; i <= L-s.pos+3; i++ {
			ge := z.PeekErr(i)
			obs("PeekErr", ge == wantErr(i), "PeekErr(%d)=%v want %v (beyond the end)", i, ge, wantErr(i))
		}
		// observers must not have changed the state
		checkKey(b, s, h, "after observers")
		// Restore gives the borrowed byte back and changes nothing else: what does not look at the terminator reads as before
		{
			rb := build(h)
			rb.z.Restore()
			bs2, lx2 := rb.z.Bytes(), rb.z.Lexeme()
			obs("after-Restore", rb.z.Pos() == s.pos-s.start && rb.z.Offset() == s.pos && bytes.Equal(bs2, D) && bytes.Equal(lx2, D[s.start:s.pos]),
				"Restore(): Pos()=%d Offset()=%d Bytes()=%q Lexeme()=%q want %d %d %q %q", rb.z.Pos(), rb.z.Offset(), bs2, lx2, s.pos-s.start, s.pos, D, D[s.start:s.pos])
			if ln, ok := rb.z.(interface{ Len() int }); ok {
				obs("after-Restore", ln.Len() == L, "Restore(): Len()=%d want %d", ln.Len(), L)
			}
			if s.pos < L {
				obs("after-Restore", rb.z.Err() == wantErr(0) && rb.z.Peek(0) == D[s.pos], "Restore(): Err()=%v Peek(0)=%#x want %v %#x", rb.z.Err(), rb.z.Peek(0), wantErr(0), D[s.pos])
			}
		}
		c.Count("transitions", int64(nobs))

		// mutators
		var muts []c12Op
		if s.pos+1 <= L {
			muts = append(muts, c12Op{'m', 1})
		}
		if s.pos+2 <= L {
			muts = append(muts, c12Op{'m', 2})
		}
		if s.pos-1 >= s.start {
			muts = append(muts, c12Op{'m', -1})
		}
		if _, ok := z.(interface{ MoveRune() }); ok && s.pos < L {
			muts = append(muts, c12Op{'r', 0})
		}
		for m := 0; m <= s.pos-s.start; m++ {
			muts = append(muts, c12Op{'w', m})
		}
		muts = append(muts, c12Op{'s', 0}, c12Op{'h', 0}, c12Op{'z', 0})
		for _, m := range muts {
			b2 := build(h)
			var pr rune
			var pn int
			if m.k == 'r' {
				func() {
					defer func() { recover() }()
					pr, pn = b2.z.PeekRune(0)
				}()
				_ = pr
			}
			ret := c12Apply(b2.z, m)
			c.Count("transitions", 1)
			s2 := s
			switch m.k {
			case 'm':
				s2.pos += m.n
			case 'w':
				s2.pos = s.start + m.n
			case 's':
				s2.start = s.pos
			case 'h':
				s2.start = s.pos
				if !bytes.Equal(ret, D[s.start:s.pos]) || cap(ret) != len(ret) {
					c.Fail("Shift", histStr(h, fmt.Sprintf("then Shift()=%q cap=%d want %q with cap==len", ret, cap(ret), D[s.start:s.pos])))
				}
			case 'z':
				s2 = c12State{0, 0}
			case 'r':
				_, po, _, _ := c12Key(b2.z)
				n := po - s.pos
				rem := D[s.pos:]
				if _, wn, ok := completeRune(rem); ok {
					if n != wn {
						c.Fail("MoveRune-valid", histStr(h, fmt.Sprintf("then MoveRune() advanced %d, utf8 says %d", n, wn)))
					}
				} else if n < 1 || n > len(rem) {
					c.Fail("MoveRune-range", histStr(h, fmt.Sprintf("then MoveRune() advanced %d with %d bytes remaining (leaves the input)", n, len(rem))))
					continue
				}
				if pn != 0 && pn != n {
					c.Fail("MoveRune-PeekRune", histStr(h, fmt.Sprintf("then MoveRune() advanced %d but PeekRune(0) reported length %d", n, pn)))
				}
				s2.pos = po
			}
			if !checkKey(b2, s2, h, "then "+m.String()) {
				continue
			}
			if _, ok := hist[s2]; !ok {
				hist[s2] = append(append([]c12Op{}, h...), m)
				queue = append(queue, s2)
			}
		}
		// caller's array while in use and after Restore
		if b.caller != nil {
			for i := range b.caller {
				want := b.pristine[i]
				if b.spare && i == len(b.caller)-1 {
					if len(data) > 0 {
						want = 0 // borrowed for the terminator
					}
				}
				if b.caller[i] != want {
					c.Fail("caller-array", histStr(h, fmt.Sprintf("caller's byte %d is %#x want %#x while in use", i, b.caller[i], want)))
				}
			}
			z.Restore()
			if !bytes.Equal(b.caller, b.pristine) {
				c.Fail("Restore", histStr(h, fmt.Sprintf("then Restore(): caller's array %q want %q", b.caller, b.pristine)))
			}
			z.Restore() // idempotent
			if !bytes.Equal(b.caller, b.pristine) {
				c.Fail("Restore", histStr(h, "second Restore() changed the array"))
			}
			// the borrowed byte is the caller's again once Restore gave it back: a later write of the caller stays
			if b.spare && len(b.caller) > 0 {
				last := len(b.caller) - 1
				b.caller[last] ^= 0xFF
				wrote := b.caller[last]
				z.Restore()
				if b.caller[last] != wrote {
					c.Fail("Restore-one-shot", histStr(h, fmt.Sprintf("then Restore(), the caller writes %#x into the byte it got back, Restore() again: the byte reads %#x", wrote, b.caller[last])))
				}
				b.caller[last] = b.pristine[last]
			}
			c.Count("transitions", 1)
		}
	}
	c.Count("max:states_per_input", int64(len(queue)))
}

// c12TwoAlive: an object made from a reader owns its bytes: making a second one (from other data of another length) does
// not disturb the first
func c12TwoAlive(c *engine.Ctx, in []byte, args map[string]string) {
	other := append([]byte("XYZW"), in...)
	for i := range other {
		other[i] ^= 0x15
	}
	for _, kind := range []string{"input", "lexer"} {
		for _, chunk := range []int{1, 3, 1 << 20} {
			mk := func(d []byte) cursor {
				r := &failReader{data: d, chunk: chunk, failAt: -1}
				if kind == "input" {
					return parse.NewInput(r)
				}
				return buffer.NewLexer(r)
			}
			a := mk(in)
			bb := mk(other)
			cc := mk(in[:len(in)/2])
			c.Count("transitions", 3)
			if !bytes.Equal(a.Bytes(), in) || !bytes.Equal(bb.Bytes(), other) || !bytes.Equal(cc.Bytes(), in[:len(in)/2]) || a.Peek(len(in)) != 0 || bb.Peek(len(other)) != 0 {
				c.Fail("objects-share-storage", fmt.Sprintf("%s made from a reader of %q, then two more from readers of %q and %q: the three read %q, %q, %q", kind, in, other, in[:len(in)/2], a.Bytes(), bb.Bytes(), cc.Bytes()))
				return
			}
		}
	}
}

// c12Borrow: entry points that build an Input over the caller's bytes themselves (the caller cannot call Restore)
// must leave the caller's array as they found it, including the byte behind the data that is borrowed for the terminator.
var c12Borrowers = []string{"Position", "NewError", "css.IsIdent", "css.IsURLUnquoted"}

func c12Borrow(c *engine.Ctx, in []byte, args map[string]string) {
	for _, spare := range []string{"\x7fZ", "\x00\x00", "a"} {
		for off := -1; off <= len(in)+1; off++ {
			for _, who := range c12Borrowers {
				if off != 0 && (who == "css.IsIdent" || who == "css.IsURLUnquoted") {
					continue
				}
				arr := append(append(make([]byte, 0, len(in)+len(spare)), in...), spare...)
				before := append([]byte{}, arr...)
				data := arr[:len(in)]
				switch who {
				case "Position":
					parse.Position(buffer.NewReader(data), off)
				case "NewError":
					_ = parse.NewError(buffer.NewReader(data), off, "message").Error()
				case "css.IsIdent":
					css.IsIdent(data)
				case "css.IsURLUnquoted":
					css.IsURLUnquoted(data)
				}
				c.Count("transitions", 1)
				if !bytes.Equal(arr, before) {
					c.Fail("caller-array-modified", fmt.Sprintf("%s on %q (offset %d) with %q behind it in the same array leaves the array as %q", who, in, off, spare, arr))
					return
				}
			}
		}
	}
}

func c12Setup(c *engine.Ctx) {
	c.Register(&engine.Space{Name: "cursor", Run: c12Run})
	c.Register(&engine.Space{Name: "borrow", Run: c12Borrow})
	c.Register(&engine.Space{Name: "two-alive", Run: c12TwoAlive})
}

var c12Atoms = engine.Atoms("a", "\x00", "\x80", "\xa9", "\xc3", "\xe2", "\xf0", "é", "\u2028", "😀", "\u0101", "\u07ff")

func c12Work(c *engine.Ctx) {
	sp := c.SpaceByName("cursor")
	al := engine.NewAlphabet(c12Atoms)
	maxLen := c.Pick(4, 5)
	lvl := c.EnumSeq(al, 0, maxLen, func(in []byte, idx []int) {
		canon := al.Canonical(idx, in)
		for _, kind := range []string{"input", "lexer"} {
			for ctor := 0; ctor < c12NumCtors; ctor++ {
				fails := []int{0}
				if ctor >= c12FailAlone {
					fails = fails[:0]
					for j := 0; j <= len(in); j++ {
						fails = append(fails, j)
					}
				}
				for _, f := range fails {
					args := map[string]string{"kind": kind, "ctor": strconv.Itoa(ctor), "fail": strconv.Itoa(f)}
					c.Exec(sp, in, args)
					c.Count("exec", 1)
					if canon && len(in) >= 2 && ctor < c12FailAlone {
						c.Count("distinct_nontrivial", 1)
					}
				}
			}
		}
		c.Exec(c.SpaceByName("borrow"), in, nil)
		c.Exec(c.SpaceByName("two-alive"), in, nil)
		c.Count("exec", 2)
		if len(idx) == maxLen && idx[0] == 7 && idx[maxLen-1] == 5 {
			c.Sample(fmt.Sprintf("input %q: fix-point over all (start,pos) states × 15 constructors × {Input,Lexer}", in))
		}
	})
	c.Count("min:completed_level", int64(lvl))
}

func c12Finish(c *engine.Ctx, cov map[string]interface{}) string {
	cov["states"] = c.Counters["states"]
	cov["transitions"] = c.Counters["transitions"]
	cov["traces_validated_against_impl"] = c.Counters["transitions"]
	cov["completed_input_length"] = c.Counters["min:completed_level"]
	cov["alphabet"] = fmt.Sprintf("%q", c12Atoms)
	if c.Counters["states"] < 1000 {
		return "vacuous: fewer than 1000 states"
	}
	return ""
}

func init() {
	register(&engine.Check{
		ID: "C12", Level: "model_checking",
		Rule:        "every byte string of ≤k atoms over {a,NUL,0x80,0xA9,0xC3,0xE2,0xF0,é,U+2028,😀,U+0101,U+07FF} × 15 constructors × {parse.Input, buffer.Lexer}; per case a breadth-first search to a fix-point over all reachable (start,pos) states of the real object (successor = fresh object + shortest history + one operation), every observer and mutator compared with a reference cursor (PeekErr also up to 3 bytes beyond the end); per input also every entry point that builds an Input over caller bytes itself (Position and NewError at every offset in [-1,len+1], css.IsIdent, css.IsURLUnquoted) with three kinds of bytes behind the data in the same array, which must be unchanged afterwards; in every state Restore() must leave Pos, Offset, Len, Bytes, Lexeme, Err and Peek as they were; three objects made from readers one after the other must keep their own bytes; a byte the caller writes after Restore() survives a second Restore(); distinct_nontrivial = canonical atom sequences of ≥2 atoms on non-failing constructors",
		Assumptions: []string{"operations respect the documented contract: position never moved past the terminator or before start", "private fields start,pos,buf,err are read by reflection to show that equal model states mean equal implementation states (justifies the fix-point)"},
		Setup:       c12Setup, Work: c12Work, Finish: c12Finish,
	})
}
