package main

// C14 — strconv parses and formats numbers consistently with the standard library.

import (
	"bytes"
	"fmt"
	"math"
	"math/big"
	"regexp"
	stdconv "strconv"
	"strings"
	"unicode/utf8"

	"verifmc/engine"

	"github.com/tdewolff/parse/v2/strconv"
)

var (
	reInt      = regexp.MustCompile(`^[+-]?[0-9]+`)
	reUint     = regexp.MustCompile(`^[0-9]+`)
	reFloat    = regexp.MustCompile(`^[+-]?([0-9]+\.?[0-9]*|\.[0-9]+)([eE][+-]?[0-9]+)?`)
	reDecimal  = regexp.MustCompile(`^-?([0-9]+\.?[0-9]*|\.[0-9]+)`)
	reFloatOut = regexp.MustCompile(`^-?([0-9]+\.?[0-9]*|\.[0-9]+)(e-?[0-9]+)?$`)
)

func init() {
	reFloat.Longest()
	reDecimal.Longest()
}

func relClose(got, want float64, tol float64) bool {
	if got == want {
		return true
	}
	if math.IsNaN(got) {
		return false
	}
	if math.IsInf(want, 0) {
		// the literal lies above the largest float64: the largest finite value of the same sign is as close as a float64 gets
		return math.IsInf(got, 0) && (got > 0) == (want > 0) || math.Abs(got) >= math.MaxFloat64*(1-tol) && (got > 0) == (want > 0)
	}
	if math.IsInf(got, 0) {
		// the same threshold from the other side: a value within tol of the largest float64 times (1+tol) is beyond it
		return math.Abs(want) >= math.MaxFloat64*(1-tol) && (got > 0) == (want > 0)
	}
	if math.Abs(want) < 2.2250738585072014e-308 {
		// subnormal results carry fewer than 53 bits: two units of the last place
		return math.Abs(got-want) <= 2*4.9406564584124654e-324 || math.Abs(got-want) <= tol*math.Abs(want)
	}
	return math.Abs(got-want) <= tol*math.Abs(want)
}

func c14Parse(c *engine.Ctx, in []byte, args map[string]string) {
	arr, b := spareCopy(in)
	pr := append([]byte{}, arr...)
	// ParseInt
	{
		pre := reInt.Find(in)
		var wantV int64
		wantN := 0
		if v, err := stdconv.ParseInt(string(pre), 10, 64); pre != nil && err == nil {
			wantV, wantN = v, len(pre)
		}
		if v, n := strconv.ParseInt(b); v != wantV || n != wantN {
			c.Fail("ParseInt", fmt.Sprintf("ParseInt(%q)=(%d,%d) want (%d,%d)", in, v, n, wantV, wantN))
		}
	}
	{
		pre := reUint.Find(in)
		var wantV uint64
		wantN := 0
		if v, err := stdconv.ParseUint(string(pre), 10, 64); pre != nil && err == nil {
			wantV, wantN = v, len(pre)
		}
		if v, n := strconv.ParseUint(b); v != wantV || n != wantN {
			c.Fail("ParseUint", fmt.Sprintf("ParseUint(%q)=(%d,%d) want (%d,%d)", in, v, n, wantV, wantN))
		}
	}
	// ParseFloat
	{
		pre := reFloat.Find(in)
		v, n := strconv.ParseFloat(b)
		if n != len(pre) {
			c.Fail("ParseFloat-length", fmt.Sprintf("ParseFloat(%q) consumed %d bytes, the documented syntax matches %d (%q)", in, n, len(pre), pre))
		} else if pre != nil {
			want, _ := stdconv.ParseFloat(string(pre), 64)
			if !relClose(v, want, 1e-14) {
				c.Fail("ParseFloat-value", fmt.Sprintf("ParseFloat(%q)=%v, strconv.ParseFloat(%q)=%v", in, v, pre, want))
			}
			c.Count("floats", 1)
		} else if v != 0 {
			c.Fail("ParseFloat-value", fmt.Sprintf("ParseFloat(%q)=(%v,0)", in, v))
		}
	}
	// ParseDecimal: only for inputs that begin with a decimal number
	if pre := reDecimal.Find(in); pre != nil {
		v, n := strconv.ParseDecimal(b)
		if n != len(pre) {
			c.Fail("ParseDecimal-length", fmt.Sprintf("ParseDecimal(%q) consumed %d bytes, the decimal prefix is %q", in, n, pre))
		} else {
			want, _ := stdconv.ParseFloat(string(pre), 64)
			if !relClose(v, want, 1e-14) {
				c.Fail("ParseDecimal-value", fmt.Sprintf("ParseDecimal(%q)=%v, strconv.ParseFloat(%q)=%v", in, v, pre, want))
			}
		}
	}
	if !bytes.Equal(arr, pr) {
		c.Fail("mutates-argument", fmt.Sprintf("a parser changed its argument %q", in))
	}
}

// prefixes: every formatter is called with bytes already in the destination, at cap==len and with room
func dests() [][]byte {
	a := []byte("PRE")
	b := make([]byte, 3, 96)
	copy(b, "PRE")
	return [][]byte{a[:3:3], b}
}

func c14Int(c *engine.Ctx, in []byte, args map[string]string) {
	v, err := stdconv.ParseInt(string(in), 10, 64)
	if err != nil {
		return
	}
	want := stdconv.FormatInt(v, 10)
	for _, d := range dests() {
		got := strconv.AppendInt(d, v)
		if string(got) != "PRE"+want {
			c.Fail("AppendInt", fmt.Sprintf("AppendInt(\"PRE\" cap %d, %d)=%q want %q", cap(d), v, got, "PRE"+want))
		}
	}
	if n := strconv.LenInt(v); n != len(want) {
		c.Fail("LenInt", fmt.Sprintf("LenInt(%d)=%d want %d", v, n, len(want)))
	}
	if v >= 0 {
		if n := strconv.LenUint(uint64(v)); n != len(want) {
			c.Fail("LenUint", fmt.Sprintf("LenUint(%d)=%d want %d", v, n, len(want)))
		}
	}
}

func pow10Big(e int) *big.Float {
	r := new(big.Float).SetPrec(256).SetInt64(1)
	ten := new(big.Float).SetPrec(256).SetInt64(10)
	for i := 0; i < e; i++ {
		r.Mul(r, ten)
	}
	for i := 0; i > e; i-- {
		r.Quo(r, ten)
	}
	return r
}

// input: decimal literal of f; args prec
func c14Float(c *engine.Ctx, in []byte, args map[string]string) {
	f, err := stdconv.ParseFloat(string(in), 64)
	if err != nil || math.IsInf(f, 0) {
		return
	}
	prec, _ := stdconv.Atoi(args["prec"])
	for _, d := range dests() {
		got := strconv.AppendFloat(d, f, prec)
		desc := fmt.Sprintf("AppendFloat(\"PRE\" cap %d, %v, %d)=%q", cap(d), f, prec, got)
		if !bytes.HasPrefix(got, []byte("PRE")) {
			c.Fail("prefix-lost", desc)
			return
		}
		out := got[3:]
		if !reFloatOut.Match(out) {
			c.Fail("AppendFloat-malformed", desc+" is not a well-formed literal")
			return
		}
		if bytes.IndexByte(out, 0) >= 0 {
			c.Fail("AppendFloat-malformed", desc+" contains NUL")
			return
		}
		v, _, perr := big.ParseFloat(string(out), 10, 256, big.ToNearestEven)
		if perr != nil {
			c.Fail("AppendFloat-malformed", desc+": "+perr.Error())
			return
		}
		if f == 0 {
			if v.Sign() != 0 {
				c.Fail("AppendFloat-value", desc+" for zero")
			}
			continue
		}
		if (v.Sign() < 0) != (f < 0) && v.Sign() != 0 {
			c.Fail("AppendFloat-sign", desc+" has the wrong sign")
			return
		}
		if out[0] == '-' != (f < 0) && v.Sign() != 0 {
			c.Fail("AppendFloat-sign", desc+" has the wrong sign")
			return
		}
		p := prec
		if p < 0 || p > 17 {
			p = 17
		}
		exact := new(big.Float).SetPrec(256).SetFloat64(math.Abs(f))
		e10 := exact.MantExp(nil) // binary exponent; decimal exponent below
		_ = e10
		dexp := int(math.Floor(math.Log10(math.Abs(f))))
		// adjust for log10 rounding at powers of ten
		for exact.Cmp(pow10Big(dexp)) < 0 {
			dexp--
		}
		for exact.Cmp(pow10Big(dexp+1)) >= 0 {
			dexp++
		}
		unit := pow10Big(dexp - p)
		diff := new(big.Float).SetPrec(256).Sub(new(big.Float).Abs(v), exact)
		diff.Abs(diff)
		// one unit of the last requested digit, plus the float64 rounding of the scaling by a power of ten
		// (the scaled value may land a few ulps below an integer before it is truncated)
		ulp := new(big.Float).SetPrec(256).SetFloat64(math.Nextafter(math.Abs(f), math.Inf(1)) - math.Abs(f))
		ulp.Mul(ulp, big.NewFloat(8))
		tol := new(big.Float).SetPrec(256).Add(unit, ulp)
		if diff.Cmp(tol) > 0 {
			c.Fail("AppendFloat-value", fmt.Sprintf("%s differs from the argument by more than one unit of digit %d (10^%d)", desc, p+1, dexp-p))
			return
		}
	}
	for _, x := range []float64{math.NaN(), math.Inf(1), math.Inf(-1)} {
		if got := strconv.AppendFloat([]byte("PRE"), x, prec); string(got) != "PRE" {
			c.Fail("AppendFloat-nonfinite", fmt.Sprintf("AppendFloat(%v)=%q", x, got))
		}
		if got := strconv.AppendDecimal([]byte("PRE"), x, prec); string(got) != "PRE" {
			c.Fail("AppendDecimal-nonfinite", fmt.Sprintf("AppendDecimal(%v)=%q", x, got))
		}
	}
}

// round half away from zero of r to dec decimals, trailing zeros dropped
func roundHalfAway(r *big.Rat, dec int) string {
	neg := r.Sign() < 0
	a := new(big.Rat).Abs(r)
	scale := new(big.Int).Exp(big.NewInt(10), big.NewInt(int64(dec)), nil)
	a.Mul(a, new(big.Rat).SetInt(scale))
	a.Add(a, big.NewRat(1, 2))
	n := new(big.Int).Quo(a.Num(), a.Denom()) // floor
	s := n.String()
	if dec > 0 {
		for len(s) <= dec {
			s = "0" + s
		}
		s = s[:len(s)-dec] + "." + s[len(s)-dec:]
		s = strings.TrimRight(s, "0")
		s = strings.TrimSuffix(s, ".")
	}
	if s == "0" || s == "" {
		return "0"
	}
	if neg {
		return "-" + s
	}
	return s
}

func c14Decimal(c *engine.Ctx, in []byte, args map[string]string) {
	f, err := stdconv.ParseFloat(string(in), 64)
	if err != nil || math.IsInf(f, 0) {
		return
	}
	dec, _ := stdconv.Atoi(args["dec"])
	d := dec
	if d < 0 || d > 17 {
		d = 17
	}
	exact := new(big.Rat).SetFloat64(f) // the binary value itself, not a decimal rendering of it
	short, _ := new(big.Rat).SetString(stdconv.FormatFloat(f, 'f', -1, 64))
	want1, want2 := roundHalfAway(exact, d), roundHalfAway(short, d)
	for _, dst := range dests() {
		got := strconv.AppendDecimal(dst, f, dec)
		desc := fmt.Sprintf("AppendDecimal(\"PRE\" cap %d, %v, %d)=%q", cap(dst), f, dec, got)
		if !bytes.HasPrefix(got, []byte("PRE")) {
			c.Fail("prefix-lost", desc)
			return
		}
		out := string(got[3:])
		// "0.5" may also be spelled ".5"? the library writes the leading zero; accept only its own spelling rules
		if out != want1 && out != want2 {
			// The only inexact step the library may take is the product f·10^dec itself (it must fit an int64): when it
			// is not exactly representable the library may see a neighbouring float64 (one ulp either way) and round
			// that half away from zero; when it is exact (every true tie such as -2.5 or 0.125·10^2, every integer
			// below 2^63 at dec 0) the result must be the half-away rounding of the argument.
			scale := new(big.Rat).SetInt(new(big.Int).Exp(big.NewInt(10), big.NewInt(int64(d)), nil))
			prod := new(big.Rat).Mul(exact, scale)
			pf, isExact := prod.Float64()
			if math.Abs(pf) < 9.2e18 {
				near := false
				if !isExact {
					for _, q := range []float64{pf, math.Nextafter(pf, math.Inf(1)), math.Nextafter(pf, math.Inf(-1))} {
						qr := new(big.Rat).SetFloat64(q)
						if qr != nil && roundHalfAway(qr.Quo(qr, scale), d) == out {
							near = true
						}
					}
				}
				if near {
					c.Count("decimal-within-one-ulp-of-product", 1)
					continue
				}
				c.Fail("AppendDecimal", fmt.Sprintf("%s want %q (round half away from zero of the shortest decimal form) or %q (of the exact binary value)", desc, want2, want1))
				return
			}
			// the scaled value does not fit an int64: the decimals that are dropped lie beyond the precision of a float64;
			// accept a well-formed decimal with at most dec decimals and no trailing zero within half a unit of the last
			// requested decimal plus 8 ulp of the argument
			ok := regexp.MustCompile(`^-?[0-9]+(\.[0-9]*[1-9])?$`).MatchString(out)
			if i := strings.IndexByte(out, '.'); ok && i >= 0 && len(out)-i-1 > d {
				ok = false
			}
			if ok {
				v, _ := new(big.Rat).SetString(out)
				diff := new(big.Rat).Sub(v, exact)
				diff.Abs(diff)
				half := new(big.Rat).SetFrac(big.NewInt(1), new(big.Int).Mul(big.NewInt(2), new(big.Int).Exp(big.NewInt(10), big.NewInt(int64(d)), nil)))
				ulp, _ := new(big.Rat).SetString(new(big.Float).SetFloat64(8*(math.Nextafter(math.Abs(f), math.Inf(1))-math.Abs(f))).Text('f', -1))
				ok = diff.Cmp(new(big.Rat).Add(half, ulp)) <= 0 && (v.Sign() == 0 || (v.Sign() < 0) == (f < 0))
			}
			if !ok {
				c.Fail("AppendDecimal", fmt.Sprintf("%s want %q (round half away from zero of the shortest decimal form) or %q (of the exact binary value)", desc, want2, want1))
				return
			}
			c.Count("decimal-within-float-rounding", 1)
		}
	}
}

var c14Syms = []rune{',', '.', ' ', 0xA0, 0x2009, 0x1F600, 0xB7, 0x202F, 0x1F601, 0x66B, 0x66C} // the later ones share their UTF-8 lead bytes with earlier ones

func c14SameLead(a, b int) bool {
	return string(c14Syms[a])[0] == string(c14Syms[b])[0]
}

// input: decimal literal of num; args: dec, group, gs, ds (indices)
func c14Number(c *engine.Ctx, in []byte, args map[string]string) {
	num, err := stdconv.ParseInt(string(in), 10, 64)
	if err != nil {
		return
	}
	dec, _ := stdconv.Atoi(args["dec"])
	group, _ := stdconv.Atoi(args["group"])
	gi, _ := stdconv.Atoi(args["gs"])
	di, _ := stdconv.Atoi(args["ds"])
	gs, ds := c14Syms[gi%len(c14Syms)], c14Syms[di%len(c14Syms)]
	if gs == ds {
		return
	}
	for _, dst := range dests() {
		got := strconv.AppendNumber(dst, num, dec, group, gs, ds)
		desc := fmt.Sprintf("AppendNumber(\"PRE\" cap %d, %d, dec=%d, groupSize=%d, %q, %q)=%q", cap(dst), num, dec, group, gs, ds, got)
		if !bytes.HasPrefix(got, []byte("PRE")) {
			c.Fail("prefix-lost", desc)
			return
		}
		out := got[3:]
		if bytes.IndexByte(out, 0) >= 0 || !utf8.Valid(out) {
			c.Fail("AppendNumber-malformed", desc+" contains NUL or invalid UTF-8")
			return
		}
		n2, d2, l2 := strconv.ParseNumber(out, gs, ds)
		if n2 != num || d2 != dec || l2 != len(out) {
			c.Fail("Number-round-trip", fmt.Sprintf("%s; ParseNumber gives (%d,%d,%d) want (%d,%d,%d)", desc, n2, d2, l2, num, dec, len(out)))
			return
		}
	}
}

func c14Setup(c *engine.Ctx) {
	for n, f := range map[string]engine.RunFunc{"parse": c14Parse, "int": c14Int, "float": c14Float, "decimal": c14Decimal, "number": c14Number} {
		c.Register(&engine.Space{Name: n, Run: f})
	}
}

func intFamily() []int64 {
	seen := map[int64]bool{}
	var r []int64
	add := func(v int64) {
		if !seen[v] {
			seen[v] = true
			r = append(r, v)
		}
	}
	add(0)
	add(math.MinInt64)
	add(math.MaxInt64)
	p := int64(1)
	for k := 0; k <= 18; k++ {
		for d := int64(-2); d <= 2; d++ {
			add(p + d)
			add(-(p + d))
		}
		if k < 18 {
			p *= 10
		}
	}
	for k := uint(0); k < 63; k++ {
		for d := int64(-2); d <= 2; d++ {
			add(int64(1)<<k + d)
			add(-(int64(1)<<k + d))
		}
	}
	return r
}

func c14Work(c *engine.Ctx) {
	// parsers: all strings over the numeric alphabet + edit balls around boundary numerals
	psp := c.SpaceByName("parse")
	al := engine.NewAlphabet(engine.Atoms("+", "-", "0", "1", "5", "9", ".", "e", "E", "x"))
	lvl := c.EnumSeq(al, 0, c.Pick(7, 8), func(in []byte, idx []int) {
		c.Exec(psp, in, nil)
		c.Count("exec", 1)
		c.Count("distinct_nontrivial", 1)
	})
	c.Count("min:level_parse", int64(lvl))
	boundary := []string{"9223372036854775807", "9223372036854775808", "-9223372036854775808", "-9223372036854775809", "18446744073709551615", "18446744073709551616",
		"9999999999999999999", "99999999999999999999", "999999999999999999999", "30000000000000000000", "1e308", "1e309", "-1e309", "4.9e-324", "1e-400", "1.7976931348623157e308", "2.2250738585072014e-308",
		"123456789012345678", "1234567890123456789012", "0.000000000000000000001", "1e22", "1e23", "1e-22", "1e-23", "123456789012345e22", "1234567890123456e22", "1e37", "1e38", "1.5e-37",
		"179769313486231570000000000000000000000000000000000000000000000000000000000000000000000000000000000000000000000000000000000000000000000000000000000000000000000000000000000000000000000000000000000000000000000000000000000000000000000000000000000000000000000000000000000000000000000000000000000000000000000",
		"0.00000000000000000000000000000000000000000000000000000000000000000000000000000000000000000000000000000000000000000000000000000000000000000000000000000000000000000000000000000000000000000000000000000000000000000000000000000000000000000000000000000000000000000000000000000000000000000000000000000000000000000000000049",
		"1e999999999999999999", "1e-999999999999999999", "1e9223372036854775807", "1.5e9223372036854775807", "1e-9223372036854775808", "0.001e-9223372036854775808", "10000000000000000000000e-9223372036854775808", "1e99999999999999999999", "-1e+99999999999999999999", "1e-99999999999999999999", "0e99999999999999999999", "1e0000000000000000000001", "-.5", "+.5e+1", "00012.50"}
	for i := 1; i <= 18; i++ {
		boundary = append(boundary, "123456789012345678"[:i]+"."+"123456789012345678"[i:])
	}
	// many significant digits at the two ends of the float64 range
	for _, n := range []int{285, 290, 300, 305, 307, 308, 310, 320, 323} {
		boundary = append(boundary, "0."+strings.Repeat("0", n)+"123456789012345678", "-."+strings.Repeat("0", n)+"9999999999999999999999")
	}
	for _, n := range []int{280, 289, 290, 291, 292} {
		boundary = append(boundary, "123456789012345678"+strings.Repeat("0", n), "17976931348623157"+strings.Repeat("0", n)+".5")
	}
	boundary = append(boundary, "123456789012345678e-325", "123456789012345678e-342", "0.000123456789012345678e-300", "123456789012345678e290", "123456789012345678e291", "0.000000000179769313486231570e318")
	for _, s := range boundary {
		c.EditBall([]byte(s), al.Atoms, func(in []byte) {
			c.Exec(psp, in, nil)
			c.Count("exec", 1)
		})
	}
	// AppendInt / LenInt / AppendNumber on the integer family
	isp, nsp := c.SpaceByName("int"), c.SpaceByName("number")
	k := 0
	for _, v := range intFamily() {
		lit := []byte(stdconv.FormatInt(v, 10))
		k++
		if c.Mine(k) {
			c.Exec(isp, lit, nil)
			c.Count("exec", 1)
		}
		for dec := 0; dec <= 18; dec++ {
			k++
			if !c.Mine(k) {
				continue
			}
			for group := 0; group <= 6; group++ {
				for gs := range c14Syms {
					for ds := range c14Syms {
						if gs == ds {
							continue
						}
						if !c.Thorough() && gs > 3 && ds > 3 && !c14SameLead(gs, ds) {
							continue
						}
						if (gs > 5 || ds > 5) && !c14SameLead(gs, ds) && gs >= 2 && ds >= 2 {
							continue // the additional symbols are there for the pairs with a common lead byte (and with ',' and '.')
						}
						c.Exec(nsp, lit, map[string]string{"dec": stdconv.Itoa(dec), "group": stdconv.Itoa(group), "gs": stdconv.Itoa(gs), "ds": stdconv.Itoa(ds)})
						c.Count("exec", 1)
					}
				}
			}
			c.Count("distinct_nontrivial", 1)
		}
	}
	// AppendFloat / AppendDecimal on m·10^e
	fsp, dsp := c.SpaceByName("float"), c.SpaceByName("decimal")
	maxM := c.Pick(99, 999)
	for m := 1; m <= maxM; m++ {
		if m%10 == 0 {
			continue
		}
		for e := -330; e <= 310; e++ {
			k++
			if !c.Mine(k) {
				continue
			}
			if !c.Thorough() && e%3 != 0 && (e < -25 || e > 25) {
				continue
			}
			for _, sign := range []string{"", "-"} {
				lit := []byte(fmt.Sprintf("%s%de%d", sign, m, e))
				for prec := -1; prec <= 18; prec++ {
					if !c.Thorough() && prec > 3 && prec < 14 && prec%3 != 0 {
						continue
					}
					c.Exec(fsp, lit, map[string]string{"prec": stdconv.Itoa(prec)})
					c.Count("exec", 1)
				}
				if e >= -20 && e <= 40 || e == 100 || e == 308 {
					for dec := 0; dec <= 18; dec++ {
						c.Exec(dsp, lit, map[string]string{"dec": stdconv.Itoa(dec)})
						c.Count("exec", 1)
					}
				}
			}
			c.Count("distinct_nontrivial", 1)
			// the two float64 neighbours of m·10^e: full 53-bit mantissas right next to a decimal boundary
			if c.Thorough() || (e >= -25 && e <= 25) || e%30 == 0 {
				if f0, err := stdconv.ParseFloat(fmt.Sprintf("%de%d", m, e), 64); err == nil && !math.IsInf(f0, 0) && f0 != 0 {
					for _, nb := range []float64{math.Nextafter(f0, math.Inf(1)), math.Nextafter(f0, 0)} {
						if math.IsInf(nb, 0) || nb == 0 {
							continue
						}
						for _, sign := range []string{"", "-"} {
							lit := []byte(sign + stdconv.FormatFloat(nb, 'g', -1, 64))
							for _, prec := range []int{-1, 0, 1, 2, 14, 15, 16, 17, 18} {
								c.Exec(fsp, lit, map[string]string{"prec": stdconv.Itoa(prec)})
								c.Count("exec", 1)
							}
							if e >= -20 && e <= 40 {
								for dec := 0; dec <= 18; dec++ {
									c.Exec(dsp, lit, map[string]string{"dec": stdconv.Itoa(dec)})
									c.Count("exec", 1)
								}
							}
						}
						c.Count("neighbours", 1)
					}
				}
			}
		}
	}
	// integers and binary fractions around 2^48 … 2^63, where adding one half is no longer exact
	for kk := 44; kk <= 63; kk++ {
		p2 := math.Ldexp(1, kk)
		for _, f0 := range []float64{p2 + 1, p2 - 1, p2 + 3, p2 - 3, (p2 + 1) / 2, (p2 - 1) / 2, (p2 + 3) / 4, (p2 - 1) / 4, (p2 + 1) / 8, (p2 - 3) / 16, (p2 + 5) / 1024, p2 / 10, (p2 + 1) / 10, p2 / 1000} {
			k++
			if !c.Mine(k) {
				continue
			}
			for _, sign := range []string{"", "-"} {
				lit := []byte(sign + stdconv.FormatFloat(f0, 'g', -1, 64))
				for dec := 0; dec <= 18; dec++ {
					c.Exec(dsp, lit, map[string]string{"dec": stdconv.Itoa(dec)})
					c.Exec(fsp, lit, map[string]string{"prec": stdconv.Itoa(dec - 1)})
					c.Count("exec", 2)
				}
			}
			c.Count("binary_boundary", 1)
		}
	}
	c.Sample("AppendFloat(219e-2 … 99e310, prec -1..18), AppendDecimal(m·10^e, dec 0..18), AppendNumber(±(10^k+d), ±(2^k+d))")
}

func c14Finish(c *engine.Ctx, cov map[string]interface{}) string {
	if c.Counters["floats"] < 10000 {
		return "vacuous: too few float literals"
	}
	return ""
}

func init() {
	register(&engine.Check{
		ID: "C14", Level: "exploration",
		Rule:        "parsers: all strings ≤7 over {+ - 0 1 5 9 . e E x} and single-edit neighbours of 110 boundary numerals (18 and more significant digits at both ends of the float64 range, exponents at and beyond the int64 range) vs strconv.ParseInt/ParseUint/ParseFloat on the longest syntactic prefix; AppendInt/LenInt on {±(10^k+d), ±(2^k+d), 0, min, max}; AppendNumber→ParseNumber on that family × dec 0..18 × groupSize 0..6 × ordered pairs of distinct symbols of 1–4 UTF-8 bytes (among them pairs that share their UTF-8 lead byte); AppendFloat on m·10^e (m≤99 quick / 999 thorough, e∈[-330,310], both signs) × prec −1..18: well-formed, right sign, within one unit of the requested last digit (big.Float); AppendDecimal on e∈[-20,40] ∪ {100, 308} × dec 0..18 vs big.Rat round-half-away with trailing zeros dropped; both formatters also on the two float64 neighbours of each m·10^e and on integers and binary fractions around 2^44 … 2^63; every formatter with a prefix in the destination at cap==len and with room",
		Assumptions: []string{"a parsed value within 1e-14 of the largest float64 may come out as infinity and the other way round (the tolerance applied at the overflow threshold)", "AppendDecimal is accepted if it equals round-half-away of either the shortest decimal form of the float or its exact binary value, or of a float64 within one ulp of the product f·10^dec when that product is not exact; when the product does not fit an int64 the dropped decimals may differ by 8 ulp of the argument"},
		Setup:       c14Setup, Work: c14Work, Finish: c14Finish,
	})
}
