package main

// C10 — JSON parser accepts every valid document and reproduces it; nesting
// and State() are consistent on every input; four error classes are reported.

import (
	"bytes"
	stdjson "encoding/json"
	"fmt"
	"io"
	"strings"

	"verifmc/engine"

	parse "github.com/tdewolff/parse/v2"
	"github.com/tdewolff/parse/v2/json"
)

var c10Strings = []string{`""`, `"a"`, `"\""`, `"\\"`, `"\\\""`, `"a\\"`, `"é"`, `"\u00e9"`, `"\/"`, `"\b\\\\\""`}
var c10Numbers = []string{`0`, `-0`, `1`, `12`, `1.5`, `-1.5`, `1e3`, `1E+3`, `1e-3`, `0.0`, `1.0e0`}
var c10Literals = []string{`true`, `false`, `null`}

// ---- reference tokenizer (strict JSON) ----

type jtok struct {
	kind  byte // '{' '}' '[' ']' ',' ':' 's' 'n' 'l'
	start int
	end   int
}

func refJSONTokens(b []byte) ([]jtok, bool) {
	var r []jtok
	i := 0
	for i < len(b) {
		c := b[i]
		switch {
		case c == ' ' || c == '\n' || c == '\t' || c == '\r':
			i++
		case strings.IndexByte("{}[],:", c) >= 0:
			r = append(r, jtok{c, i, i + 1})
			i++
		case c == '"':
			j := i + 1
			for {
				if j >= len(b) {
					return nil, false
				}
				if b[j] == '\\' {
					j += 2
					continue
				}
				if b[j] == '"' {
					break
				}
				if b[j] < 0x20 {
					return nil, false
				}
				j++
			}
			if j >= len(b) {
				return nil, false
			}
			if !stdjson.Valid(b[i : j+1]) {
				return nil, false
			}
			r = append(r, jtok{'s', i, j + 1})
			i = j + 1
		case c == '-' || ('0' <= c && c <= '9'):
			j := i
			for j < len(b) && strings.IndexByte("+-.eE0123456789", b[j]) >= 0 {
				j++
			}
			if !stdjson.Valid(b[i:j]) {
				return nil, false
			}
			r = append(r, jtok{'n', i, j})
			i = j
		case c == 't' || c == 'f' || c == 'n':
			ok := false
			for _, l := range c10Literals {
				if bytes.HasPrefix(b[i:], []byte(l)) {
					r = append(r, jtok{'l', i, i + len(l)})
					i += len(l)
					ok = true
					break
				}
			}
			if !ok {
				return nil, false
			}
		default:
			return nil, false
		}
	}
	return r, true
}

// refJSONFirstDeviation walks the tokens with the JSON grammar and returns
// the class of the first deviation if it is one of the four the property
// names, and the byte offset of the offending token.
func refJSONFirstDeviation(toks []jtok) (class string, off int) {
	type frame struct {
		obj   bool
		state byte // array: 'v' value-or-close expected first, 'c' comma-or-close; object: 'k' key-or-close, ':' colon, 'v' value, 'c' comma-or-close
	}
	var st []frame
	topDone := false
	for _, t := range toks {
		isValueStart := t.kind == 's' || t.kind == 'n' || t.kind == 'l' || t.kind == '{' || t.kind == '['
		if len(st) == 0 {
			if t.kind == '}' || t.kind == ']' {
				return "unopened-closer", t.start
			}
			if topDone || !isValueStart {
				return "", 0 // not one of the four classes
			}
			if t.kind == '{' {
				st = append(st, frame{true, 'k'})
			} else if t.kind == '[' {
				st = append(st, frame{false, 'v'})
			} else {
				topDone = true
			}
			continue
		}
		f := &st[len(st)-1]
		closeTop := func() {
			st = st[:len(st)-1]
			if len(st) == 0 {
				topDone = true
			} else {
				st[len(st)-1].state = 'c'
			}
		}
		push := func() {
			if t.kind == '{' {
				st = append(st, frame{true, 'k'})
			} else {
				st = append(st, frame{false, 'v'})
			}
		}
		if !f.obj {
			switch f.state {
			case 'v', 'V': // 'V' = after a comma: value required
				if t.kind == ']' {
					if f.state == 'V' {
						return "", 0 // trailing comma: not a named class
					}
					closeTop()
				} else if t.kind == '}' {
					return "mismatched-closer", t.start
				} else if t.kind == '{' || t.kind == '[' {
					f.state = 'c'
					push()
				} else if isValueStart {
					f.state = 'c'
				} else {
					return "", 0
				}
			case 'c':
				if t.kind == ',' {
					f.state = 'V'
				} else if t.kind == ']' {
					closeTop()
				} else if t.kind == '}' {
					return "mismatched-closer", t.start
				} else if isValueStart {
					return "missing-comma", t.start
				} else {
					return "", 0
				}
			}
			continue
		}
		switch f.state {
		case 'k', 'K':
			if t.kind == 's' {
				f.state = ':'
			} else if t.kind == '}' {
				if f.state == 'K' {
					return "", 0
				}
				closeTop()
			} else if t.kind == ']' {
				return "mismatched-closer", t.start
			} else if isValueStart {
				return "non-string-key", t.start
			} else {
				return "", 0
			}
		case ':':
			if t.kind == ':' {
				f.state = 'v'
			} else {
				return "missing-colon", t.start
			}
		case 'v':
			if t.kind == '{' || t.kind == '[' {
				f.state = 'c'
				push()
			} else if isValueStart {
				f.state = 'c'
			} else {
				return "", 0
			}
		case 'c':
			if t.kind == ',' {
				f.state = 'K'
			} else if t.kind == '}' {
				closeTop()
			} else if t.kind == ']' {
				return "mismatched-closer", t.start
			} else if isValueStart {
				return "missing-comma", t.start
			} else {
				return "", 0
			}
		}
	}
	return "", 0
}

// ---- the run function: all clauses on one input ----

const companionDoc = `{"k":[1,{"l":[true,null]}],"m":{},"n":[[[]]]}`

var companionSolo string

func init() {
	c := &companion{}
	c.start()
	for !c.done {
		c.next()
	}
	companionSolo = c.units.String()
}

type companion struct {
	p     *json.Parser
	units strings.Builder
	done  bool
	bad   string
}

func newCompanion() *companion {
	c := &companion{}
	c.start()
	return c
}

func (c *companion) start() {
	c.p = json.NewParser(parse.NewInputString(companionDoc))
	c.units.Reset()
	c.done = false
}

func (c *companion) step() {
	if c.done {
		// finished: compare and start over so that a parser is always open next to the one under test
		if c.bad == "" && c.units.String() != companionSolo {
			c.bad = fmt.Sprintf("returned %s instead of %s", c.units.String(), companionSolo)
		}
		c.start()
		return
	}
	c.next()
}

func (c *companion) next() {
	gt, data := c.p.Next()
	fmt.Fprintf(&c.units, "%v(%s)%v ", gt, data, c.p.State())
	if gt == json.ErrorGrammar {
		fmt.Fprintf(&c.units, "%v", c.p.Err())
		c.done = true
	}
}

func (c *companion) finish() string {
	for !c.done {
		c.step()
	}
	if c.bad == "" && c.units.String() != companionSolo {
		c.bad = fmt.Sprintf("returned %s instead of %s", c.units.String(), companionSolo)
	}
	return c.bad
}

func c10Run(c *engine.Ctx, in []byte, args map[string]string) {
	n := len(in)
	if cap(in) == n {
		in = append(make([]byte, 0, n+1), in...)
	}
	P := append([]byte{}, in...)
	valid := stdjson.Valid(P)
	toks, tokOK := refJSONTokens(P)
	devClass, devOff := "", 0
	if tokOK && !valid {
		devClass, devOff = refJSONFirstDeviation(toks)
	}
	z := parse.NewInputBytes(in)
	p := json.NewParser(z)
	// a second parser over another document is stepped alternately with the one under test: two parsers alive at the
	// same time, with containers open at different depths, must not influence each other
	comp := newCompanion()
	defer func() {
		if msg := comp.finish(); msg != "" {
			c.Fail("companion-parser-disturbed", fmt.Sprintf("while %q was parsed, a second parser over %q %s", P, companionDoc, msg))
		}
	}()
	var out bytes.Buffer
	needSep := false
	type fr struct{ obj bool }
	var stack []fr
	afterKey := false
	s := &stream{jsonP: p}
	abs := abstractState(s)
	limit := 4*n + 17
	var obs uint64 = 14695981039346656037
	for calls := 1; ; calls++ {
		gt, data := p.Next()
		comp.step()
		na := abstractState(s)
		recordAbs(c, abs, na, int(gt))
		abs = na
		obs = (obs ^ uint64(gt)) * 1099511628211
		if gt == json.ErrorGrammar {
			err := p.Err()
			if valid {
				if err != io.EOF {
					c.Fail("valid-rejected", fmt.Sprintf("encoding/json accepts the document but the parser reports %v after %q", err, out.Bytes()))
					return
				}
				var want bytes.Buffer
				if stdjson.Compact(&want, P) == nil && !bytes.Equal(want.Bytes(), out.Bytes()) {
					c.Fail("reconstruction", fmt.Sprintf("units re-joined by State() give %q, json.Compact gives %q", out.Bytes(), want.Bytes()))
				}
				if len(stack) != 0 {
					c.Fail("unclosed-at-eof", fmt.Sprintf("valid document ended with %d containers open in the unit stream", len(stack)))
				}
			}
			if devClass != "" && err == io.EOF {
				c.Fail("error-class-"+devClass, fmt.Sprintf("%s at byte %d is not reported as a parse error: the stream ends with io.EOF after units %q", devClass, devOff, out.Bytes()))
			}
			c.Observe(obs)
			return
		}
		off := z.Offset()
		if devClass != "" && off > devOff && (devClass != "missing-colon" || true) {
			// a unit was produced that extends beyond the offending token's start
			if a, _, ok := subRange(in[:n+1], data); !ok || a >= devOff || off > devOff {
				if !(ok && a+len(data) <= devOff) {
					c.Fail("error-class-"+devClass, fmt.Sprintf("%s at byte %d: unit %s %q was returned past it instead of an error", devClass, devOff, gt, data))
					return
				}
			}
		}
		// shadow stack and State()
		switch gt {
		case json.StartObjectGrammar, json.StartArrayGrammar:
			if needSep {
				out.WriteByte(',')
			}
			out.Write(data)
			stack = append(stack, fr{gt == json.StartObjectGrammar})
			needSep, afterKey = false, false
		case json.EndObjectGrammar, json.EndArrayGrammar:
			if len(stack) == 0 {
				c.Fail("end-unopened", fmt.Sprintf("%s returned with no open container (units so far %q)", gt, out.Bytes()))
				return
			}
			if stack[len(stack)-1].obj != (gt == json.EndObjectGrammar) {
				c.Fail("end-mismatch", fmt.Sprintf("%s closes a container of the other kind (units so far %q)", gt, out.Bytes()))
				return
			}
			stack = stack[:len(stack)-1]
			out.Write(data)
			needSep, afterKey = true, false
		case json.StringGrammar, json.NumberGrammar, json.LiteralGrammar:
			if needSep {
				out.WriteByte(',')
			}
			out.Write(data)
			if gt == json.StringGrammar && p.State() == json.ObjectValueState {
				out.WriteByte(':')
				needSep, afterKey = false, true
			} else {
				needSep, afterKey = true, false
			}
		default:
			c.Fail("unknown-unit", fmt.Sprintf("unexpected grammar type %s", gt))
			return
		}
		// State() describes the innermost open container
		want := json.ValueState
		if len(stack) > 0 {
			if !stack[len(stack)-1].obj {
				want = json.ArrayState
			} else if afterKey {
				want = json.ObjectValueState
			} else {
				want = json.ObjectKeyState
			}
		}
		if got := p.State(); got != want {
			// afterKey is derived from State() itself for strings; the
			// container kind is what is independently known
			c.Fail("state", fmt.Sprintf("after %s %q State()=%s, shadow stack says %s (units %q)", gt, data, got, want, out.Bytes()))
			return
		}
		if gt == json.StringGrammar && afterKey && len(stack) > 0 && !stack[len(stack)-1].obj {
			c.Fail("state", "ObjectValueState reported inside an array")
			return
		}
		if calls > limit {
			c.Fail("no-end", "too many units")
			return
		}
	}
}

// ---- generation of all valid documents by token count ----

type c10Gen struct {
	scalars [][]string
	memo    map[int][][]string
	memoSeq map[[2]int][][]string
}

func newC10Gen() *c10Gen {
	g := &c10Gen{memo: map[int][][]string{}, memoSeq: map[[2]int][][]string{}}
	for _, s := range c10Strings {
		g.scalars = append(g.scalars, []string{s})
	}
	for _, s := range c10Numbers {
		g.scalars = append(g.scalars, []string{s})
	}
	for _, s := range c10Literals {
		g.scalars = append(g.scalars, []string{s})
	}
	return g
}

// val returns all values with exactly k tokens.
func (g *c10Gen) val(k int) [][]string {
	if r, ok := g.memo[k]; ok {
		return r
	}
	var r [][]string
	if k == 1 {
		r = g.scalars
	} else if k >= 2 {
		for _, inner := range g.elems(k-2, false) {
			r = append(r, append(append([]string{"["}, inner...), "]"))
		}
		for _, inner := range g.elems(k-2, true) {
			r = append(r, append(append([]string{"{"}, inner...), "}"))
		}
	}
	g.memo[k] = r
	return r
}

// elems returns all comma-separated element (or member) lists with exactly k tokens (k==0: empty list).
func (g *c10Gen) elems(k int, obj bool) [][]string {
	key := [2]int{k, 0}
	if obj {
		key[1] = 1
	}
	if r, ok := g.memoSeq[key]; ok {
		return r
	}
	var r [][]string
	if k == 0 {
		r = [][]string{{}}
	} else {
		// first element of size a (+2 for key and colon in objects), then either end or ',' + rest
		extra := 0
		if obj {
			extra = 2
		}
		for a := 1; a+extra <= k; a++ {
			var firsts [][]string
			for _, v := range g.val(a) {
				if obj {
					for _, ks := range c10Strings[:4] {
						firsts = append(firsts, append([]string{ks, ":"}, v...))
					}
				} else {
					firsts = append(firsts, v)
				}
			}
			rest := k - a - extra
			if rest == 0 {
				r = append(r, firsts...)
			} else if rest >= 2 {
				for _, tl := range g.elems(rest-1, obj) {
					if len(tl) == 0 {
						continue
					}
					for _, f := range firsts {
						x := append(append(append([]string{}, f...), ","), tl...)
						r = append(r, x)
					}
				}
			}
		}
	}
	g.memoSeq[key] = r
	return r
}

func c10Setup(c *engine.Ctx) {
	c.Register(&engine.Space{Name: "json", Run: c10Run})
}

func c10Work(c *engine.Ctx) {
	sp := c.SpaceByName("json")
	exec := func(b []byte) {
		tmp := make([]byte, len(b), len(b)+1)
		copy(tmp, b)
		c.Exec(sp, tmp, nil)
		c.Count("exec", 1)
	}
	// (i) every valid document of ≤ n tokens × whitespace placements
	g := newC10Gen()
	maxTok := c.Pick(7, 9)
	k := 0
	for nt := 1; nt <= maxTok; nt++ {
		for _, doc := range g.val(nt) {
			k++
			if !c.Mine(k) {
				continue
			}
			plain := strings.Join(doc, "")
			if !stdjson.Valid([]byte(plain)) {
				c.Note("harness: generated document rejected by encoding/json: " + plain)
				continue
			}
			c.Count("valid-docs", 1)
			c.Count("distinct_nontrivial", 1)
			exec([]byte(plain))
			if nt == maxTok && k%7001 == 0 {
				c.Sample("valid: " + plain)
			}
			for _, ws := range []string{" ", "\n\t \r"} {
				for pos := 0; pos <= len(doc); pos++ {
					var sb strings.Builder
					for i, t := range doc {
						if i == pos {
							sb.WriteString(ws)
						}
						sb.WriteString(t)
					}
					if pos == len(doc) {
						sb.WriteString(ws)
					}
					exec([]byte(sb.String()))
				}
				exec([]byte(ws + strings.Join(doc, ws) + ws))
			}
		}
	}
	// (ii) all token sequences without validity pruning, with and without spaces
	tokAl := engine.NewAlphabet(engine.Atoms("{", "}", "[", "]", ",", ":", `"a"`, `"\\\""`, "1", "-1.5e3", "true", "null"))
	lvl := c.EnumSeq(tokAl, 0, c.Pick(5, 6), func(in []byte, idx []int) {
		exec(in)
		var sb bytes.Buffer
		for _, i := range idx {
			sb.Write(tokAl.Atoms[i])
			sb.WriteByte(' ')
		}
		exec(sb.Bytes())
		if len(idx) >= 2 {
			c.Count("distinct_nontrivial", 1)
		}
	})
	c.Count("min:level_tokens", int64(lvl))
	// (iii) all byte strings over the JSON byte alphabet
	al := engine.NewAlphabet(alphaJSON)
	lvl = c.EnumSeq(al, 0, c.Pick(4, 5), func(in []byte, idx []int) {
		exec(in)
		if len(idx) >= 2 && al.Canonical(idx, in) {
			c.Count("distinct_nontrivial", 1)
		}
	})
	c.Count("min:level_bytes", int64(lvl))
	// nesting as deep as encoding/json accepts it (10000 containers)
	kk := 0
	for _, n := range []int{100, 1000, 5000, 9998, 9999, 10000} {
		for _, d := range [][3]string{{"[", "", "]"}, {"{\"a\":", "1", "}"}, {"[{\"k\":", "null", "}]"}, {"[1,", "[]", "]"}} {
			kk++
			if !c.Mine(kk) {
				continue
			}
			per := strings.Count(d[0], "[") + strings.Count(d[0], "{")
			m := n / per
			if strings.Contains(d[1], "[") {
				m = n - 1
			}
			exec([]byte(strings.Repeat(d[0], m) + d[1] + strings.Repeat(d[2], m)))
			c.Count("deep-documents", 1)
		}
	}
	for _, seed := range seedsJSON {
		c.EditBall([]byte(seed), alphaJSON, func(in []byte) { exec(in) })
		c.ByteSweep([]byte(seed), true, func(in []byte) { exec(in); c.Count("byte-sweep", 1) })
	}
}

func c10Finish(c *engine.Ctx, cov map[string]interface{}) string {
	cov["states"] = len(c.States)
	cov["transitions"] = len(c.Trans)
	cov["traces_validated_against_impl"] = c.Counters["exec"]
	if c.Counters["valid-docs"] < 1000 {
		return "vacuous: fewer than 1000 valid documents"
	}
	if len(c.States) < 8 {
		return "vacuous: fewer than 8 abstract parser states"
	}
	return ""
}

func init() {
	register(&engine.Check{
		ID: "C10", Level: "model_checking",
		Rule:        "every valid JSON document of ≤n tokens over {6 punctuators, 10 strings (all escape forms, backslash runs before the quote), 11 numbers, 3 literals} judged by encoding/json.Valid × whitespace at every token boundary (one at a time and all at once, two whitespace kinds); every token sequence ≤k without validity pruning (with/without separating spaces); every byte string ≤k atoms over the JSON byte alphabet; edit balls around 31 seeds. Oracles: reconstruction == json.Compact, shadow container stack vs End units and State(), four named error classes located by a strict reference tokenizer + grammar walk. states/transitions = abstract parser states (stack depth≤4, top state, needComma) and (state,unit) transitions reached",
		Assumptions: []string{"encoding/json is the judge of validity and of the compact form", "trailing commas and other deviations the property does not name are not compared"},
		Setup:       c10Setup, Work: c10Work, Finish: c10Finish,
	})
}
