package main

// C01 — no input crashes, hangs or over-reads any lexer, parser or AST method.

import (
	"fmt"
	"io"
	"reflect"
	"strconv"
	"strings"
	"time"

	"verifmc/engine"

	parse "github.com/tdewolff/parse/v2"
	"github.com/tdewolff/parse/v2/js"
)

var streamSpaces = []string{"css-lex", "css-parse", "html-lex", "xml-lex", "json-parse", "js-lex"}

var constSlices = map[string]bool{" ": true, "}": true, "": true}

// checkHandedOut verifies one slice returned to the caller: it must lie
// inside the caller's bytes [0,n) when it aliases the input array, otherwise
// its bytes must be (modulo ASCII case) a substring of the input or one of
// the documented constants.
func checkHandedOut(c *engine.Ctx, what string, arr []byte, n int, pristineLower []byte, sl []byte) {
	if len(sl) == 0 {
		return
	}
	if off, ok := aliasOffset(arr, sl); ok {
		if off+len(sl) > n {
			c.Fail("overread", fmt.Sprintf("%s [%d:%d) reaches past the %d input bytes (terminator handed out)", what, off, off+len(sl), n))
		}
		return
	}
	if constSlices[string(sl)] {
		return
	}
	// a fresh slice (css.Parser joins "*"+ident for the IE hack) must be made of
	// input bytes in source order: a case-folded subsequence of the input
	if !isSubsequence(asciiLower(sl), pristineLower) {
		c.Fail("foreign-bytes", fmt.Sprintf("%s %q is neither inside the input nor a (case-folded) subsequence of it", what, sl))
	}
}

func isSubsequence(a, b []byte) bool {
	j := 0
	for i := 0; i < len(b) && j < len(a); i++ {
		if b[i] == a[j] {
			j++
		}
	}
	return j == len(a)
}

func errText(e error) string {
	if e == nil {
		return "<nil>"
	}
	return e.Error()
}

// abstract state of the hand-written state machines, read by reflection (E4)
func abstractState(s *stream) uint64 {
	var v reflect.Value
	switch {
	case s.cssP != nil:
		v = reflect.ValueOf(s.cssP).Elem()
		d := uint64(v.FieldByName("state").Len())
		if d > 7 {
			d = 7
		}
		lv := v.FieldByName("level").Int()
		if lv > 3 {
			lv = 3
		} else if lv < -1 {
			lv = -1
		}
		var pe uint64
		if v.FieldByName("prevEnd").Bool() {
			pe = 1
		}
		return 1<<32 | d<<8 | uint64(lv+1)<<4 | pe
	case s.jsonP != nil:
		v = reflect.ValueOf(s.jsonP).Elem()
		st := v.FieldByName("state")
		d := uint64(st.Len())
		top := st.Index(st.Len() - 1).Uint()
		if d > 4 {
			d = 4
		}
		var nc uint64
		if v.FieldByName("needComma").Bool() {
			nc = 1
		}
		return 2<<32 | d<<8 | top<<4 | nc
	case s.htmlL != nil:
		v = reflect.ValueOf(s.htmlL).Elem()
		var it uint64
		if v.FieldByName("inTag").Bool() {
			it = 1
		}
		return 3<<32 | v.FieldByName("rawTag").Uint()<<1 | it
	case s.xmlL != nil:
		v = reflect.ValueOf(s.xmlL).Elem()
		if v.FieldByName("inTag").Bool() {
			return 4<<32 | 1
		}
		return 4 << 32
	case s.jsL != nil:
		v = reflect.ValueOf(s.jsL).Elem()
		lv := v.FieldByName("level").Int()
		if lv > 3 {
			lv = 3
		} else if lv < -2 {
			lv = -2
		}
		tl := uint64(v.FieldByName("templateLevels").Len())
		if tl > 3 {
			tl = 3
		}
		var f uint64
		if v.FieldByName("prevLineTerminator").Bool() {
			f |= 1
		}
		if v.FieldByName("prevNumericLiteral").Bool() {
			f |= 2
		}
		return 5<<32 | uint64(lv+2)<<8 | tl<<4 | f
	}
	return 0
}

var seenAbs = map[uint64]bool{}
var seenAbsTr = map[[2]uint64]bool{}

func recordAbs(c *engine.Ctx, prev, cur uint64, tt int) {
	if cur == 0 {
		return
	}
	if !seenAbs[cur] {
		seenAbs[cur] = true
		c.State(fmt.Sprintf("%x", cur))
	}
	k := [2]uint64{prev, cur<<8 | uint64(tt&0xff)}
	if !seenAbsTr[k] {
		seenAbsTr[k] = true
		c.Transition(fmt.Sprintf("%x-%d->%x", prev, tt, cur))
	}
}

// c01Stream drives Next() past the first error until the report repeats
// ("terminal report"), then three more times.
func c01Stream(space string) engine.RunFunc {
	return func(c *engine.Ctx, in []byte, args map[string]string) {
		n := len(in)
		if cap(in) == n {
			in = append(make([]byte, 0, n+1), in...)
		}
		pl := asciiLower(in)
		s := openStream(space, args, in)
		limit := 4*n + 17
		calls := 0
		prevWasErr := false
		prevErr, prevOff := "", -1
		haveErr := false
		sawEnd := false
		var obs uint64 = 14695981039346656037
		abs := abstractState(s)
		for {
			tt, data := s.next()
			calls++
			off := s.off()
			if off < 0 || off > n {
				c.Fail("offset-range", fmt.Sprintf("after call %d (%s) the cursor offset is %d, outside [0,%d]", calls, s.ttName(tt), off, n))
				return
			}
			checkHandedOut(c, "token data of call "+strconv.Itoa(calls), in, n, pl, data)
			if s.extras != nil {
				for i, e := range s.extras() {
					checkHandedOut(c, fmt.Sprintf("accessor %d after call %d", i, calls), in, n, pl, e)
				}
			}
			if n <= 4096 { // E4 bookkeeping is for the enumerated spaces, not for the 10^6-deep inputs
				na := abstractState(s)
				recordAbs(c, abs, na, tt)
				abs = na
			}
			obs = (obs ^ uint64(tt)) * 1099511628211
			obs = (obs ^ uint64(off)) * 1099511628211
			// once the end of the input has been reported (error token with io.EOF), every further call must report
			// exactly that again (Err() is linear in the input for css.Parser: only evaluated on the enumerated sizes)
			if n <= 4096 {
				if tt == 0 {
					isEOF := s.err() == io.EOF
					if sawEnd && !isEOF {
						c.Fail("end-not-sticky", fmt.Sprintf("call %d: after the end of the input had been reported (error token, io.EOF) a further call reports %q", calls, errText(s.err())))
						return
					}
					sawEnd = sawEnd || isEOF
				} else if sawEnd {
					c.Fail("end-not-sticky", fmt.Sprintf("call %d: after the end of the input had been reported a further call returns %s %q", calls, s.ttName(tt), data))
					return
				}
			}
			if tt == 0 {
				// Err() is only evaluated once two consecutive error reports
				// share an offset (css.Parser.Err() is linear in the input)
				if prevWasErr && off == prevOff {
					es := errText(s.err())
					if haveErr && es == prevErr {
						break
					}
					prevErr, haveErr = es, true
				} else {
					haveErr = false
				}
				prevWasErr, prevOff = true, off
			} else {
				prevWasErr, haveErr = false, false
			}
			if calls > limit {
				c.Fail("no-terminal-report", fmt.Sprintf("%d calls of Next on %d input bytes without reaching a repeating end report", calls, n))
				return
			}
		}
		// the terminal report says why the stream ended: an error, and io.EOF only at the end of the input
		if n <= 4096 {
			if e := s.err(); e == nil {
				c.Fail("terminal-report-without-error", fmt.Sprintf("after %d calls the error token repeats at offset %d of %d but Err() is nil", calls, prevOff, n))
				return
			} else if e == io.EOF && prevOff != n {
				c.Fail("eof-before-the-end", fmt.Sprintf("after %d calls the end of the input (io.EOF) is reported at offset %d of %d", calls, prevOff, n))
				return
			}
		}
		for i := 0; i < 3; i++ {
			tt, data := s.next()
			e := s.err()
			if tt != 0 || errText(e) != prevErr || s.off() != prevOff {
				c.Fail("end-not-sticky", fmt.Sprintf("call %d after the terminal report (%q at %d) returned %s %q err=%q offset=%d", i+1, prevErr, prevOff, s.ttName(tt), data, errText(e), s.off()))
				return
			}
		}
		c.Observe(obs)
		s.in.Restore()
		if cap(in) > n && n > 0 && in[:n+1][n] == 0 && false {
			// the spare byte is only restored when it was borrowed; nothing to check here (C12)
		}
	}
}

type nopVisitor struct{ n int }

func (v *nopVisitor) Enter(n js.INode) js.IVisitor { v.n++; return v }
func (v *nopVisitor) Exit(n js.INode)              {}

type pruneVisitor struct{ every, n int }

func (v *pruneVisitor) Enter(n js.INode) js.IVisitor {
	v.n++
	if v.n%v.every == 0 {
		return nil
	}
	return v
}
func (v *pruneVisitor) Exit(n js.INode) {}

func jsOptions(s string) js.Options {
	return js.Options{WhileToFor: len(s) > 0 && s[0] == '1', Inline: len(s) > 1 && s[1] == '1'}
}

var jsOptionNames = []string{"00", "01", "10", "11"}

func c01JSParse(c *engine.Ctx, in []byte, args map[string]string) {
	n := len(in)
	if cap(in) == n {
		in = append(make([]byte, 0, n+1), in...)
	}
	ast, err := js.Parse(parse.NewInputBytes(in), jsOptions(args["opts"]))
	if err != nil {
		if err == io.EOF {
			c.Fail("parse-eof-error", "js.Parse returned io.EOF as error")
		}
		c.Count("js-rejected", 1)
		return
	}
	c.Count("js-accepted", 1)
	s1 := ast.String()
	s2 := ast.JSString()
	var sb strings.Builder
	ast.JS(&sb)
	if sb.String() != s2 {
		c.Fail("js-print-unstable", "JS() and JSString() differ")
	}
	_, _ = ast.JSONString()
	v := &nopVisitor{}
	js.Walk(v, ast)
	// a visitor may prune: nil from Enter at the first node, at every second and at every third one
	for _, k := range []int{1, 2, 3} {
		if v.n > 20000 && k > 1 {
			break
		}
		js.Walk(&pruneVisitor{every: k}, ast)
	}
	c.Observe(engine.Hash64([]byte(s1)))
}

func c01Setup(c *engine.Ctx) {
	for _, sp := range streamSpaces {
		c.Register(&engine.Space{Name: sp, Run: c01Stream(sp)})
	}
	c.Register(&engine.Space{Name: "js-parse", Run: c01JSParse})
	c01NestSetup(c)
}

type streamCfg struct {
	space string
	args  map[string]string
}

func allStreamCfgs(space string) []streamCfg {
	switch space {
	case "css-parse":
		return []streamCfg{{space, map[string]string{"inline": "0"}}, {space, map[string]string{"inline": "1"}}}
	case "html-lex":
		var r []streamCfg
		seen := map[[2]string]bool{}
		for _, d := range htmlDialectOrder {
			if seen[htmlDialects[d]] {
				continue
			}
			seen[htmlDialects[d]] = true
			r = append(r, streamCfg{space, map[string]string{"tmpl": d}})
		}
		return r
	case "js-lex":
		return []streamCfg{{space, map[string]string{"regexp": "0"}}, {space, map[string]string{"regexp": "1"}}}
	}
	return []streamCfg{{space, nil}}
}

type enumPlan struct {
	alpha  [][]byte
	maxLen int
	spaces []string
}

func c01Plans(c *engine.Ctx) []enumPlan {
	return []enumPlan{
		{alphaCSS, c.Pick(3, 4), []string{"css-lex", "css-parse"}},
		{alphaCSSCore, c.Pick(4, 5), []string{"css-lex", "css-parse"}},
		{alphaHTML, c.Pick(3, 4), []string{"html-lex"}},
		{alphaHTMLCore, c.Pick(4, 5), []string{"html-lex"}},
		{alphaXML, c.Pick(4, 5), []string{"xml-lex"}},
		{alphaJSON, c.Pick(4, 5), []string{"json-parse"}},
		{alphaJS, c.Pick(2, 3), []string{"js-lex", "js-parse"}},
		{alphaJSCore, c.Pick(3, 4), []string{"js-lex", "js-parse"}},
	}
}

func c01Work(c *engine.Ctx) {
	t0 := time.Now()
	for pi, pl := range c01Plans(c) {
		al := engine.NewAlphabet(pl.alpha)
		var cfgs []streamCfg
		for _, sp := range pl.spaces {
			if sp == "js-parse" {
				for _, o := range jsOptionNames {
					cfgs = append(cfgs, streamCfg{sp, map[string]string{"opts": o}})
				}
			} else {
				cfgs = append(cfgs, allStreamCfgs(sp)...)
			}
		}
		spaces := make([]*engine.Space, len(cfgs))
		for i, cf := range cfgs {
			spaces[i] = c.SpaceByName(cf.space)
		}
		tmp := make([]byte, 0, 128)
		lvl := c.EnumSeq(al, 0, pl.maxLen, func(in []byte, idx []int) {
			canon := al.Canonical(idx, in)
			for i, cf := range cfgs {
				// every execution gets its own copy: the lexers borrow the
				// spare byte and html/xml rewrite bytes in place
				tmp = append(tmp[:0], in...)
				tmp = append(tmp, 0xEE)
				c.Exec(spaces[i], tmp[:len(in)], cf.args)
				c.Count("exec", 1)
			}
			if canon && len(idx) >= 2 {
				c.Count("distinct_nontrivial", 1)
			}
			if len(idx) == pl.maxLen && c.Counters["exec"]%50021 == 0 {
				c.Sample(fmt.Sprintf("%s: %q", strings.Join(pl.spaces, "+"), in))
			}
		})
		c.Count(fmt.Sprintf("min:level_plan%d_%s", pi, pl.spaces[0]), int64(lvl))
	}
	t1 := time.Now()
	c.Count("max:ms_enum", int64(t1.Sub(t0)/time.Millisecond))
	c01SeedWork(c)
	c01Families(c)
	t2 := time.Now()
	c.Count("max:ms_seeds", int64(t2.Sub(t1)/time.Millisecond))
	c01NestWork(c)
	c.Count("max:ms_nest", int64(time.Since(t2)/time.Millisecond))
}

func c01Finish(c *engine.Ctx, cov map[string]interface{}) string {
	if c.Counters["js-accepted"] < 100 {
		return "vacuous: fewer than 100 accepted JS programs"
	}
	if len(c.States) < 40 {
		return fmt.Sprintf("vacuous: only %d abstract parser/lexer states reached", len(c.States))
	}
	return ""
}

func init() {
	register(&engine.Check{
		ID: "C01", Level: "exploration",
		Rule:        "all atom sequences up to the per-alphabet bound (DESIGN §2) through css.Lexer, css.Parser×{stylesheet,inline}, html.Lexer×{plain, each distinct template delimiter pair}, xml.Lexer, json.Parser, js.Lexer×{Next only, RegExp() after every / and /=}, js.Parse×4 Options (+String/JS/JSON/Walk); edit balls (all truncations, deletions, single-atom insertions/substitutions) around the seed catalogue; nesting templates per recursive construct at depths up to 10^6 in child processes; each driven past the first error to the repeating terminal report (which must carry an error, io.EOF only at the end of the input) and three calls beyond. distinct_nontrivial = canonical (distinct byte string) sequences of ≥2 atoms + distinct edit-ball members",
		Assumptions: []string{"a report is terminal when the next call repeats the same error token, Err() text and offset", "inputs are handed over with spare capacity so that the terminator lies outside the caller's bytes"},
		Setup:       c01Setup, Work: c01Work, Finish: c01Finish, Child: c01Child,
	})
}
