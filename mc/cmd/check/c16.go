package main

// C16 — Number/Dimension/URL/data-URI/media-type helpers and hash tables
// against their reference definitions.

import (
	"bytes"
	"encoding/base64"
	"fmt"
	"go/ast"
	"go/parser"
	"go/token"
	"mime"
	"net/url"
	"os"
	"regexp"
	"strconv"
	"strings"

	"verifmc/engine"

	parse "github.com/tdewolff/parse/v2"
	"github.com/tdewolff/parse/v2/css"
	"github.com/tdewolff/parse/v2/html"
)

var reNumber = func() *regexp.Regexp {
	r := regexp.MustCompile(`^(\+|-)?([0-9]+(\.[0-9]+)?|\.[0-9]+)((e|E)(\+|-)?[0-9]+)?`)
	r.Longest()
	return r
}()

func spareCopy(in []byte) (arr, b []byte) {
	arr = make([]byte, len(in)+2)
	copy(arr, in)
	arr[len(in)], arr[len(in)+1] = 0xEE, 0xEF
	return arr, arr[:len(in):len(in)]
}

func c16Number(c *engine.Ctx, in []byte, args map[string]string) {
	arr, b := spareCopy(in)
	pr := append([]byte{}, arr...)
	want := len(reNumber.Find(in))
	if got := parse.Number(b); got != want {
		c.Fail("Number", fmt.Sprintf("Number(%q)=%d, the longest match of the documented regexp is %d bytes", in, got, want))
	}
	num, unit := parse.Dimension(b)
	wu := 0
	if want > 0 && want < len(in) {
		if in[want] == '%' {
			wu = 1
		} else {
			for want+wu < len(in) && (in[want+wu] >= 'a' && in[want+wu] <= 'z' || in[want+wu] >= 'A' && in[want+wu] <= 'Z') {
				wu++
			}
		}
	}
	if num != want || unit != wu {
		c.Fail("Dimension", fmt.Sprintf("Dimension(%q)=(%d,%d) want (%d,%d)", in, num, unit, want, wu))
	}
	if !bytes.Equal(arr, pr) {
		c.Fail("mutates-argument", fmt.Sprintf("Number/Dimension(%q) changed their argument", in))
	}
	if want > 0 {
		c.Count("numbers", 1)
	}
}

func pctEncode(in []byte, marked func(byte) bool) []byte {
	var out []byte
	for _, ch := range in {
		if marked(ch) {
			out = append(out, '%', "0123456789ABCDEF"[ch>>4], "0123456789ABCDEF"[ch&15])
		} else {
			out = append(out, ch)
		}
	}
	return out
}

func c16URL(c *engine.Ctx, in []byte, args map[string]string) {
	for ti, table := range [][256]bool{parse.URLEncodingTable, parse.DataURIEncodingTable} {
		want := pctEncode(in, func(b byte) bool { return table[b] })
		for _, spare := range []int{0, 1, 64} {
			b := make([]byte, len(in), len(in)+spare)
			copy(b, in)
			got := parse.EncodeURL(b, table)
			if !bytes.Equal(got, want) {
				c.Fail("EncodeURL", fmt.Sprintf("EncodeURL(%q, table %d, spare capacity %d)=%q want %q", in, ti, spare, got, want))
				return
			}
		}
		if ti == 0 {
			dec := parse.DecodeURL(append([]byte{}, want...))
			if !bytes.Equal(dec, in) {
				c.Fail("DecodeURL-inverse", fmt.Sprintf("DecodeURL(EncodeURL(%q))=%q", in, dec))
			}
		}
	}
	// DecodeURL on the raw string vs net/url
	if u, err := url.QueryUnescape(string(in)); err == nil {
		got := parse.DecodeURL(append([]byte{}, in...))
		if string(got) != u {
			c.Fail("DecodeURL-QueryUnescape", fmt.Sprintf("DecodeURL(%q)=%q, url.QueryUnescape gives %q", in, got, u))
		}
		c.Count("unescapable", 1)
	} else {
		parse.DecodeURL(append([]byte{}, in...)) // must not panic
	}
}

var c16MediaTypes = []string{"", "text/html", "a/b;c=d", "text/plain;charset=utf-8", "image/svg+xml", "text/plain;charset=base64", "a/b;base64=1;c=base64", ";charset=utf-8", " ;a=b"}

func c16DataURIGen(c *engine.Ctx, in []byte, args map[string]string) {
	mt := args["mt"]
	var uri []byte
	uri = append(uri, "data:"...)
	uri = append(uri, mt...)
	switch args["enc"] {
	case "base64":
		uri = append(uri, ";base64,"...)
		uri = append(uri, base64.StdEncoding.EncodeToString(in)...)
	case "base64-spaced":
		uri = append(uri, " ; base64 ,"...)
		uri = append(uri, base64.StdEncoding.EncodeToString(in)...)
	case "percent-table":
		// the library's own table for data URIs (it leaves '+', ',', ';', '=' and other printable characters as they are)
		uri = append(uri, ',')
		uri = append(uri, parse.EncodeURL(append([]byte{}, in...), parse.DataURIEncodingTable)...)
	case "percent-min":
		// only what cannot stand for itself: '%', '#', blank, control and non-ASCII bytes
		uri = append(uri, ',')
		uri = append(uri, pctEncode(in, func(b byte) bool { return b == '%' || b == '#' || b <= ' ' || b >= 0x7f })...)
	default:
		uri = append(uri, ',')
		uri = append(uri, pctEncode(in, func(b byte) bool {
			return !(b >= 'a' && b <= 'z' || b >= 'A' && b <= 'Z' || b >= '0' && b <= '9' || b == '-' || b == '_' || b == '.' || b == '~')
		})...)
	}
	if len(uri) <= 5 {
		return
	}
	orig := append([]byte{}, uri...)
	gotMT, data, err := parse.DataURI(uri)
	wantMT := mt
	if wantMT == "" {
		wantMT = "text/plain"
	}
	typeAbsent := strings.HasPrefix(strings.TrimLeft(mt, " "), ";")
	if typeAbsent {
		wantMT = "text/plain" // the type is absent, only parameters are given: text/plain, with or without them
	}
	if err != nil {
		c.Fail("DataURI-rejects", fmt.Sprintf("DataURI(%q) = error %v", orig, err))
		return
	}
	if typeAbsent && string(gotMT) == "text/plain"+strings.TrimLeft(mt, " ") {
		wantMT = string(gotMT)
	}
	if string(gotMT) != wantMT || !bytes.Equal(data, in) {
		c.Fail("DataURI", fmt.Sprintf("DataURI(%q) = (%q, %q) want (%q, %q)", orig, gotMT, data, wantMT, in))
		return
	}
	// what a call returned belongs to the caller: later calls must not change it
	for _, other := range []string{"data:;base64,WFlaWFlaWFla", "data:text/css,%41%42%43%44%45%46", "data:,xyz"} {
		parse.DataURI([]byte(other))
		if string(gotMT) != wantMT || !bytes.Equal(data, in) {
			c.Fail("DataURI-result-overwritten", fmt.Sprintf("DataURI(%q) returned (%q, %q); after DataURI(%q) the same slices read (%q, %q)", orig, wantMT, in, other, gotMT, data))
			return
		}
	}
}

func c16DataURIAny(c *engine.Ctx, in []byte, args map[string]string) {
	b := append([]byte{}, in...)
	mt, data, err := parse.DataURI(b)
	if err == nil {
		c.Count("datauri-accepted", 1)
		if len(mt) == 0 {
			c.Fail("DataURI-empty-type", fmt.Sprintf("DataURI(%q) succeeded with an empty media type (data %q)", in, data))
		}
		if !bytes.HasPrefix(in, []byte("data:")) {
			c.Fail("DataURI-accepts-non-data", fmt.Sprintf("DataURI(%q) succeeded", in))
		}
	} else if mt != nil || data != nil {
		c.Fail("DataURI-error-with-result", fmt.Sprintf("DataURI(%q) returned an error together with a result", in))
	}
}

var reWellFormedMediatype = regexp.MustCompile(`^ *[^ ;=,\t]+/[^ ;=,\t]+( *; *[^ ;=,\t/]+=[^ ;=,\t]+)* *$`)

func c16Mediatype(c *engine.Ctx, in []byte, args map[string]string) {
	b := append([]byte{}, in...)
	gotT, gotP := parse.Mediatype(b)
	if !bytes.Equal(b, in) {
		c.Fail("mutates-argument", fmt.Sprintf("Mediatype(%q) changed its argument", in))
	}
	wantT, wantP, err := mime.ParseMediaType(string(in))
	if err != nil || strings.ContainsAny(string(in), "\"\\") {
		return
	}
	if !reWellFormedMediatype.Match(in) {
		return // mime is lenient (bare types, trailing ';', tabs); the property speaks of well-formed unquoted values
	}
	// well-formed according to mime: every parameter has the form key=value
	c.Count("mime-accepted", 1)
	// first modulo the ASCII case of the type and of the parameter names (mime lower-cases both), then exactly
	lowP := map[string]string{}
	for k, v := range gotP {
		lowP[strings.ToLower(k)] = v
	}
	if strings.ToLower(string(gotT)) != wantT || len(lowP) != len(wantP) {
		c.Fail("Mediatype", fmt.Sprintf("Mediatype(%q) = (%q, %v), mime.ParseMediaType gives (%q, %v)", in, gotT, gotP, wantT, wantP))
		return
	}
	for k, v := range wantP {
		if lowP[k] != v {
			c.Fail("Mediatype", fmt.Sprintf("Mediatype(%q) = (%q, %v), mime.ParseMediaType gives (%q, %v)", in, gotT, gotP, wantT, wantP))
			return
		}
	}
	if string(gotT) != wantT || len(gotP) != len(wantP) {
		c.Fail("Mediatype-case", fmt.Sprintf("Mediatype(%q) = (%q, %v), mime.ParseMediaType gives (%q, %v)", in, gotT, gotP, wantT, wantP))
		return
	}
	for k, v := range wantP {
		if gotP[k] != v {
			c.Fail("Mediatype-case", fmt.Sprintf("Mediatype(%q) = (%q, %v), mime.ParseMediaType gives (%q, %v)", in, gotT, gotP, wantT, wantP))
			return
		}
	}
}

func refIsWS(b byte) bool { return b == ' ' || b == '\t' || b == '\n' || b == '\r' || b == '\f' }

func c16Bytes(c *engine.Ctx, in []byte, args map[string]string) {
	arr, b := spareCopy(in)
	pr := append([]byte{}, arr...)
	all := true
	for _, ch := range in {
		all = all && refIsWS(ch)
	}
	if parse.IsAllWhitespace(b) != all {
		c.Fail("IsAllWhitespace", fmt.Sprintf("IsAllWhitespace(%q)=%v", in, !all))
	}
	tw := parse.TrimWhitespace(b)
	if want := bytes.Trim(in, " \t\n\r\f"); !bytes.Equal(tw, want) {
		c.Fail("TrimWhitespace", fmt.Sprintf("TrimWhitespace(%q)=%q want %q", in, tw, want))
	}
	if !bytes.Equal(arr, pr) {
		c.Fail("mutates-argument", fmt.Sprintf("IsAllWhitespace/TrimWhitespace(%q) changed the argument", in))
		copy(arr, pr)
	}
	lower := asciiLower(in)
	if !parse.EqualFold(b, lower) {
		c.Fail("EqualFold", fmt.Sprintf("EqualFold(%q, %q)=false", in, lower))
	}
	// a different target of the same length must not match
	if len(in) > 0 {
		for i := range lower {
			t := append([]byte{}, lower...)
			t[i] ^= 0x01
			want := bytes.Equal(asciiLower(in), t)
			if got := parse.EqualFold(b, t); got != want {
				c.Fail("EqualFold", fmt.Sprintf("EqualFold(%q, %q)=%v want %v", in, t, got, want))
			}
		}
		if parse.EqualFold(b, lower[:len(lower)-1]) || parse.EqualFold(b, append(append([]byte{}, lower...), 'a')) {
			c.Fail("EqualFold", fmt.Sprintf("EqualFold(%q, target of another length)=true", in))
		}
	}
	if !bytes.Equal(arr, pr) {
		c.Fail("mutates-argument", fmt.Sprintf("EqualFold(%q) changed the argument", in))
		copy(arr, pr)
	}
	got := parse.ToLower(b)
	if !bytes.Equal(got, lower) || arr[len(in)] != 0xEE {
		c.Fail("ToLower", fmt.Sprintf("ToLower(%q)=%q want %q", in, got, lower))
	}
	if len(in) == 1 {
		// every target byte against this byte, alone and inside a word: equal exactly when the target is its ASCII lower-case form
		for t := 0; t < 256; t++ {
			if t >= 'A' && t <= 'Z' {
				continue // the documented contract: the target is lower-case
			}
			want := asciiLower(in)[0] == byte(t)
			if got := parse.EqualFold(b, []byte{byte(t)}); got != want {
				c.Fail("EqualFold", fmt.Sprintf("EqualFold(%q, %q)=%v want %v", in, []byte{byte(t)}, got, want))
				break
			}
			s3, t3 := []byte{'U', in[0], 'f'}, []byte{'u', byte(t), 'f'}
			if got := parse.EqualFold(s3, t3); got != want {
				c.Fail("EqualFold", fmt.Sprintf("EqualFold(%q, %q)=%v want %v", s3, t3, got, want))
				break
			}
		}
		ch := in[0]
		if parse.IsWhitespace(ch) != refIsWS(ch) || parse.IsNewline(ch) != (ch == '\n' || ch == '\r') {
			c.Fail("IsWhitespace/IsNewline", fmt.Sprintf("byte %#x: IsWhitespace=%v IsNewline=%v", ch, parse.IsWhitespace(ch), parse.IsNewline(ch)))
		}
	}
}

// ---- hash tables: reference map parsed from the source of the current tree ----

type hashConst struct {
	name string
	val  uint32
	text string
}

func loadHashConsts(path string) []hashConst {
	fset := token.NewFileSet()
	f, err := parser.ParseFile(fset, path, nil, parser.ParseComments)
	if err != nil {
		return nil
	}
	var r []hashConst
	for _, d := range f.Decls {
		gd, ok := d.(*ast.GenDecl)
		if !ok || gd.Tok != token.CONST {
			continue
		}
		for _, sp := range gd.Specs {
			vs := sp.(*ast.ValueSpec)
			id, ok := vs.Type.(*ast.Ident)
			if !ok || id.Name != "Hash" || len(vs.Values) != 1 || vs.Comment == nil {
				continue
			}
			lit, ok := vs.Values[0].(*ast.BasicLit)
			if !ok {
				continue
			}
			v, err := strconv.ParseUint(lit.Value, 0, 32)
			if err != nil {
				continue
			}
			r = append(r, hashConst{vs.Names[0].Name, uint32(v), strings.TrimSpace(vs.Comment.Text())})
		}
	}
	return r
}

var cssHashConsts, htmlHashConsts []hashConst
var cssHashMap, htmlHashMap map[string]uint32

func loadHashes() {
	if cssHashMap != nil {
		return
	}
	repo := "/repo"
	if d := os.Getenv("VERIF_REPO"); d != "" { // self-tests of the checks on a scratch copy only
		repo = d
	}
	cssHashConsts = loadHashConsts(repo + "/css/hash.go")
	htmlHashConsts = loadHashConsts(repo + "/html/hash.go")
	cssHashMap, htmlHashMap = map[string]uint32{}, map[string]uint32{}
	for _, h := range cssHashConsts {
		cssHashMap[h.text] = h.val
	}
	for _, h := range htmlHashConsts {
		htmlHashMap[h.text] = h.val
	}
}

func c16Hash(c *engine.Ctx, in []byte, args map[string]string) {
	loadHashes()
	arr, b := spareCopy(in)
	pr := append([]byte{}, arr...)
	if got, want := uint32(css.ToHash(b)), cssHashMap[string(in)]; got != want {
		c.Fail("css.ToHash", fmt.Sprintf("css.ToHash(%q)=%#x, the constant table says %#x", in, got, want))
	}
	if got, want := uint32(html.ToHash(b)), htmlHashMap[string(in)]; got != want {
		c.Fail("html.ToHash", fmt.Sprintf("html.ToHash(%q)=%#x, the constant table says %#x", in, got, want))
	}
	if !bytes.Equal(arr, pr) {
		c.Fail("mutates-argument", fmt.Sprintf("ToHash(%q) changed its argument", in))
	}
}

func c16HashConsts(c *engine.Ctx, in []byte, args map[string]string) {
	loadHashes()
	if len(cssHashConsts) < 5 || len(htmlHashConsts) < 8 {
		c.Fail("harness-hash-source", "could not read the Hash constants from /repo/css/hash.go and /repo/html/hash.go")
		return
	}
	for _, h := range cssHashConsts {
		if s := css.Hash(h.val).String(); s != h.text || !bytes.Equal(css.Hash(h.val).Bytes(), []byte(h.text)) {
			c.Fail("css.Hash.String", fmt.Sprintf("css.%s.String()=%q want %q", h.name, s, h.text))
		}
	}
	for _, h := range htmlHashConsts {
		if s := html.Hash(h.val).String(); s != h.text {
			c.Fail("html.Hash.String", fmt.Sprintf("html.%s.String()=%q want %q", h.name, s, h.text))
		}
	}
}

func c16Setup(c *engine.Ctx) {
	for n, f := range map[string]engine.RunFunc{"number": c16Number, "url": c16URL, "datauri-gen": c16DataURIGen, "datauri-any": c16DataURIAny,
		"mediatype": c16Mediatype, "bytes": c16Bytes, "hash": c16Hash} {
		c.Register(&engine.Space{Name: n, Run: f})
	}
	c.Register(&engine.Space{Name: "hash-consts", Run: c16HashConsts, NoMinimise: true})
}

func c16Work(c *engine.Ctx) {
	enum := func(space string, atoms [][]byte, maxLen int, args map[string]string) {
		sp := c.SpaceByName(space)
		al := engine.NewAlphabet(atoms)
		c.EnumSeq(al, 0, maxLen, func(in []byte, idx []int) {
			c.Exec(sp, in, args)
			c.Count("exec", 1)
			if len(idx) >= 2 && al.Canonical(idx, in) {
				c.Count("distinct_nontrivial", 1)
			}
			if len(idx) == maxLen && c.Counters["exec"]%90001 == 0 {
				c.Sample(fmt.Sprintf("%s: %q", space, in))
			}
		})
	}
	enum("number", engine.Atoms("+", "-", ".", "0", "9", "e", "E", "a", "%", "x"), c.Pick(8, 9), nil)
	// all 256 single bytes for the byte-indexed tables
	all := make([][]byte, 256)
	for i := range all {
		all[i] = []byte{byte(i)}
	}
	enum("url", all, 1, nil)
	enum("bytes", all, 1, nil)
	// every byte value at every position of strings around the word sizes a vectorised implementation would use
	{
		sp := c.SpaceByName("bytes")
		k := 0
		for _, L := range []int{7, 8, 9, 15, 16, 17, 24, 31, 32, 33} {
			for pos := 0; pos < L; pos++ {
				for v := 0; v < 256; v++ {
					k++
					if !c.Mine(k) {
						continue
					}
					b := bytes.Repeat([]byte{'a'}, L)
					if pos%2 == 1 {
						b[(pos+3)%L] = 'Q'
					}
					b[pos] = byte(v)
					c.Exec(sp, b, nil)
					c.Count("exec", 1)
					c.Count("byte-position-sweep", 1)
				}
			}
		}
	}
	enum("url", engine.Atoms("a", " ", "%", "+", "/", "?", "&", "=", "\x00", "\xff", "é", "~"), c.Pick(3, 4), nil)
	enum("url", engine.Atoms("%", "+", "0", "9", "a", "f", "A", "F", "g", "z"), c.Pick(7, 8), nil)
	for _, mt := range c16MediaTypes {
		for _, enc := range []string{"base64", "base64-spaced", "percent", "percent-table", "percent-min"} {
			enum("datauri-gen", engine.Atoms("\x00", "a", "%", "+", ",", ";", "=", " ", "\xff", "b"), c.Pick(4, 5), map[string]string{"mt": mt, "enc": enc})
		}
	}
	enum("datauri-any", engine.Atoms("data:", "base64", "d", "a", "t", ":", ";", ",", "=", "b", "6", "4", "%", " ", "/"), c.Pick(6, 7), nil)
	enum("mediatype", engine.Atoms("text/html", "a/b", ";", "=", " ", "c", "d", ",", "\t"), c.Pick(8, 9), nil)
	enum("mediatype", engine.Atoms("Text/HTML", "a/B", ";", "=", " ", "C", "d", "utf-8", "UTF-8"), c.Pick(6, 7), nil)
	// structured media types: every spacing of up to three distinct parameters
	{
		msp := c.SpaceByName("mediatype")
		keys, vals, sps := []string{"c", "d", "e"}, []string{"d", "x/y", "utf-8"}, []string{"", " ", "  "}
		k := 0
		var rec func(prefix string, used int, n int)
		rec = func(prefix string, used int, n int) {
			for _, tr := range sps {
				k++
				if c.Mine(k) {
					c.Exec(msp, []byte(prefix+tr), nil)
					c.Count("exec", 1)
					c.Count("distinct_nontrivial", 1)
				}
			}
			if n == 0 {
				return
			}
			for ki, key := range keys {
				if used&(1<<ki) != 0 {
					continue
				}
				for _, v := range vals {
					for _, s1 := range sps {
						for _, s2 := range sps {
							rec(prefix+s1+";"+s2+key+"="+v, used|1<<ki, n-1)
						}
					}
				}
			}
		}
		for _, t := range []string{"text/html", "a/b"} {
			for _, lead := range []string{"", " "} {
				rec(lead+t, 0, c.Pick(2, 3))
			}
		}
	}
	enum("bytes", engine.Atoms("a", "A", "z", "Z", "@", "[", " ", "\n", "\t", "\r", "\f", "`", "{", "\xc1", "\xe1"), c.Pick(5, 6), nil)
	// hash tables: every constant, every case variant, every 1-edit neighbour, all short strings over the table letters
	loadHashes()
	hsp := c.SpaceByName("hash")
	if c.Mine(0) {
		c.Exec(c.SpaceByName("hash-consts"), nil, nil)
		c.Count("exec", 1)
	}
	letters := map[byte]bool{}
	var names []string
	for _, h := range append(append([]hashConst{}, cssHashConsts...), htmlHashConsts...) {
		names = append(names, h.text)
		for i := 0; i < len(h.text); i++ {
			letters[h.text[i]] = true
		}
	}
	var la [][]byte
	for b := 0; b < 256; b++ {
		if letters[byte(b)] {
			la = append(la, []byte{byte(b)})
		}
	}
	la = append(la, []byte("A"), []byte("\x00"))
	k := 0
	for _, n := range names {
		k++
		if !c.Mine(k) {
			continue
		}
		c.Exec(hsp, []byte(n), nil)
		c.Exec(hsp, []byte(strings.ToUpper(n)), nil)
		c.Exec(hsp, []byte(strings.ToUpper(n[:1])+n[1:]), nil)
		c.Count("exec", 3)
		c.EditBall([]byte(n), la, func(in []byte) {
			c.Exec(hsp, in, nil)
			c.Count("exec", 1)
		})
	}
	enum("hash", la, c.Pick(4, 5), nil)
}

func c16Finish(c *engine.Ctx, cov map[string]interface{}) string {
	if c.Counters["numbers"] < 1000 || c.Counters["mime-accepted"] < 100 || c.Counters["unescapable"] < 1000 {
		return "vacuous: too few inputs inside the reference's domain"
	}
	return ""
}

func init() {
	register(&engine.Check{
		ID: "C16", Level: "exploration",
		Rule:        "all strings ≤7 over {+ - . 0 9 e E a % x} for Number/Dimension vs the documented regexp (longest match); all 256 bytes and all strings over two alphabets for EncodeURL (both tables, three capacities) and DecodeURL (inverse on every encoded string; equals url.QueryUnescape wherever that succeeds); DataURI on every payload ≤3 bytes over 10 byte values × {base64, spaced base64, percent-encoding of everything outside the unreserved set, of what DataURIEncodingTable marks, of the bare minimum} × 9 media types (two with base64 as the name or value of a parameter, two without a type but with a parameter) and on all strings ≤5 atoms over data-URI fragments; Mediatype on all strings ≤7 atoms (lower-case and mixed-case alphabets) vs mime.ParseMediaType where that succeeds; EqualFold/ToLower/TrimWhitespace/IsAllWhitespace/IsWhitespace/IsNewline on all bytes and all strings ≤4 over 15 atoms, EqualFold on all (byte, lower-case target byte) pairs; css/html ToHash on every constant (read from the current source), its case variants, every single-edit neighbour and all strings ≤4 over the table's letters vs a plain map",
		Assumptions: []string{"a data URI without a type but with parameters may report text/plain with or without those parameters"},
		Setup:       c16Setup, Work: c16Work, Finish: c16Finish,
	})
}
