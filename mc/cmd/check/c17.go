package main

// C17 — whitespace, entity and attribute normalisation preserve meaning.

import (
	"bytes"
	"fmt"
	stdhtml "html"
	"regexp"
	"strings"

	"verifmc/engine"

	parse "github.com/tdewolff/parse/v2"
	"github.com/tdewolff/parse/v2/html"
	"github.com/tdewolff/parse/v2/xml"
)

var reWSRun = regexp.MustCompile(`[ \t\n\f\r]+`)

func refReplaceWS(in []byte) []byte {
	return reWSRun.ReplaceAllFunc(in, func(run []byte) []byte {
		if bytes.ContainsAny(run, "\n\r") {
			return []byte("\n")
		}
		return []byte(" ")
	})
}

func c17WS(c *engine.Ctx, in []byte, args map[string]string) {
	arr, b := spareCopy(in)
	got := parse.ReplaceMultipleWhitespace(b)
	want := refReplaceWS(in)
	if !bytes.Equal(got, want) {
		c.Fail("ReplaceMultipleWhitespace", fmt.Sprintf("ReplaceMultipleWhitespace(%q)=%q want %q", in, got, want))
	}
	if arr[len(in)] != 0xEE || arr[len(in)+1] != 0xEF {
		c.Fail("writes-past-argument", fmt.Sprintf("ReplaceMultipleWhitespace(%q) wrote past its argument", in))
	}
}

// entity maps consistent with HTML: a replacement decodes to the same text
// as the reference and is never longer than it
var c17Entities = map[string][]byte{
	"amp": []byte("&"), "lt": []byte("<"), "gt": []byte(">"), "quot": []byte("\""), "apos": []byte("'"),
	"nbsp": []byte("&#160;"), "varphi": []byte("&phiv;"), "num": []byte("#"), "semi": []byte(";"), "a": nil,
}

var c17RevMaps = map[string]map[byte][]byte{
	"none": nil,
	"apos": {'\'': []byte("&#39;")},
	"both": {'\'': []byte("&#39;"), '"': []byte("&#34;"), '<': []byte("&lt;")},
}

func init() { delete(c17Entities, "a") }

func refersToNUL(in []byte) bool {
	// a numeric reference to code point 0 (html.UnescapeString maps it to U+FFFD, the library to byte 0)
	s := string(in)
	for i := 0; i+2 < len(s); i++ {
		if s[i] == '&' && s[i+1] == '#' {
			j := i + 2
			hex := j < len(s) && (s[j] == 'x' || s[j] == 'X')
			if hex {
				j++
			}
			k := j
			for k < len(s) && s[k] == '0' {
				k++
			}
			if k > j && (k == len(s) || !(s[k] >= '0' && s[k] <= '9' || hex && (s[k]|0x20) >= 'a' && (s[k]|0x20) <= 'f')) {
				return true
			}
		}
	}
	return false
}

// an unterminated numeric reference of more than 31 digits directly in front of another reference
var reLongOpenRef = regexp.MustCompile(`&#[xX]?[0-9a-fA-F]{31,}&`)

func c17Entity(c *engine.Ctx, in []byte, args map[string]string) {
	rev := c17RevMaps[args["rev"]]
	arr, b := spareCopy(in)
	out := parse.ReplaceEntities(b, c17Entities, rev)
	if arr[len(in)] != 0xEE || arr[len(in)+1] != 0xEF {
		c.Fail("writes-past-argument", fmt.Sprintf("ReplaceEntities(%q) wrote past its argument", in))
		return
	}
	if len(out) > len(in) {
		c.Fail("entities-lengthen", fmt.Sprintf("ReplaceEntities(%q)=%q is longer than its input", in, out))
	}
	res := append([]byte{}, out...)
	if off, ok := aliasOffset(arr, out); len(out) > 0 && (!ok || off != 0) {
		c.Fail("entities-not-in-place", fmt.Sprintf("ReplaceEntities(%q) did not return a prefix of its argument", in))
	}
	again := parse.ReplaceEntities(append([]byte{}, res...), c17Entities, rev)
	if !bytes.Equal(again, res) {
		clause := "entities-not-idempotent"
		if reLongOpenRef.Match(in) {
			clause = "entities-not-idempotent:long-unterminated-reference"
		}
		c.Fail(clause, fmt.Sprintf("ReplaceEntities(%q)=%q, applied again gives %q", in, res, again))
	}
	if !refersToNUL(in) {
		if a, b := stdhtml.UnescapeString(string(res)), stdhtml.UnescapeString(string(in)); a != b {
			clause := "entities-change-text"
			if reLongOpenRef.Match(in) {
				clause = "entities-change-text:long-unterminated-reference"
			}
			c.Fail(clause, fmt.Sprintf("ReplaceEntities(%q)=%q decodes to %q, the input decodes to %q", in, res, a, b))
		}
	}
	if !bytes.Equal(res, in) {
		c.Count("entity-replaced", 1)
	}
}

func c17Both(c *engine.Ctx, in []byte, args map[string]string) {
	rev := c17RevMaps[args["rev"]]
	arr, b := spareCopy(in)
	got := append([]byte{}, parse.ReplaceMultipleWhitespaceAndEntities(b, c17Entities, rev)...)
	if arr[len(in)] != 0xEE {
		c.Fail("writes-past-argument", fmt.Sprintf("ReplaceMultipleWhitespaceAndEntities(%q) wrote past its argument", in))
	}
	seq := parse.ReplaceEntities(parse.ReplaceMultipleWhitespace(append([]byte{}, in...)), c17Entities, rev)
	if !bytes.Equal(got, seq) {
		c.Fail("combined-vs-sequence", fmt.Sprintf("ReplaceMultipleWhitespaceAndEntities(%q)=%q, ReplaceEntities(ReplaceMultipleWhitespace(x))=%q", in, got, seq))
	}
}

var htmlAttrSpecial = " \t\n\f\r\"'`<=>"

func c17HTMLAttr(c *engine.Ctx, in []byte, args map[string]string) {
	if bytes.IndexByte(in, 0) >= 0 {
		return
	}
	var origQuote byte
	if q := args["q"]; q != "" {
		origQuote = q[0]
	}
	mustQuote := args["must"] == "1"
	var buf []byte
	switch args["buf"] {
	case "small":
		buf = make([]byte, 0, 1)
	case "large":
		buf = make([]byte, 0, 256)
	}
	arr, b := spareCopy(in)
	pr := append([]byte{}, arr...)
	out := html.EscapeAttrVal(&buf, b, origQuote, mustQuote)
	desc := fmt.Sprintf("html.EscapeAttrVal(%q, origQuote=%q, mustQuote=%v, buf=%s)=%q", in, args["q"], mustQuote, args["buf"], out)
	if !bytes.Equal(arr, pr) {
		c.Fail("mutates-argument", desc+" changed its argument")
		return
	}
	res := append([]byte{}, out...)
	// read back through the lexer
	doc := append(append([]byte("<a x="), res...), '>')
	l := html.NewLexer(parse.NewInputBytes(append(make([]byte, 0, len(doc)+1), doc...)))
	var toks []string
	var val []byte
	nattr := 0
	for i := 0; i < 16; i++ {
		tt, _ := l.Next()
		if tt == html.ErrorToken {
			break
		}
		toks = append(toks, tt.String())
		if tt == html.AttributeToken {
			nattr++
			val = append([]byte{}, l.AttrVal()...)
		}
	}
	if strings.Join(toks, " ") != "StartTag Attribute StartTagClose" || !bytes.Equal(val, res) {
		c.Fail("attr-read-back", fmt.Sprintf("%s: <a x=…> lexes as [%s] with value %q", desc, strings.Join(toks, " "), val))
		return
	}
	// decode
	quoted := len(res) >= 2 && (res[0] == '"' || res[0] == '\'') && res[len(res)-1] == res[0]
	inner := res
	if quoted {
		inner = res[1 : len(res)-1]
		if bytes.IndexByte(inner, res[0]) >= 0 {
			c.Fail("attr-quote-inside", desc+": the delimiting quote occurs inside the value")
			return
		}
	}
	if a, b := stdhtml.UnescapeString(string(inner)), stdhtml.UnescapeString(string(in)); a != b {
		c.Fail("attr-decodes-differently", fmt.Sprintf("%s decodes to %q, the value decodes to %q", desc, a, b))
		return
	}
	special := bytes.ContainsAny(in, htmlAttrSpecial)
	wantUnquoted := !special && (!mustQuote || origQuote == 0)
	if quoted == wantUnquoted && !(len(in) >= 2 && !special && wantUnquoted) {
		c.Fail("attr-quoting-policy", fmt.Sprintf("%s: quoted=%v but the documentation says unquoted=%v", desc, quoted, wantUnquoted))
		return
	}
	if !quoted && !wantUnquoted {
		c.Fail("attr-quoting-policy", desc+": left unquoted although it needs quotes")
		return
	}
	if quoted {
		keepsOrig := origQuote != 0 && bytes.IndexByte(in, origQuote) < 0
		if keepsOrig && res[0] != origQuote {
			c.Fail("attr-original-quote", desc+": the original quote does not occur in the value but was not kept")
		}
		// the cheaper quote is used
		s, d := bytes.Count(in, []byte("'")), bytes.Count(in, []byte("\""))
		cost := map[byte]int{'\'': s, '"': d}
		if !keepsOrig && cost[res[0]] > cost[res[0]^('"'^'\'')] {
			c.Fail("attr-not-shortest", desc+": the other quote would need fewer escapes")
		}
		if len(res) != len(in)+2+4*cost[res[0]] {
			c.Fail("attr-length", fmt.Sprintf("%s: unexpected length %d", desc, len(res)))
		}
	}
}

func c17XMLAttr(c *engine.Ctx, in []byte, args map[string]string) {
	if bytes.IndexByte(in, 0) >= 0 {
		return
	}
	var buf []byte
	switch args["buf"] {
	case "small":
		buf = make([]byte, 0, 1)
	case "large":
		buf = make([]byte, 0, 256)
	}
	arr, b := spareCopy(in)
	pr := append([]byte{}, arr...)
	out := xml.EscapeAttrVal(&buf, b)
	desc := fmt.Sprintf("xml.EscapeAttrVal(%q, buf=%s)=%q", in, args["buf"], out)
	if !bytes.Equal(arr, pr) {
		c.Fail("mutates-argument", desc+" changed its argument")
		return
	}
	res := append([]byte{}, out...)
	if len(res) < 2 || (res[0] != '"' && res[0] != '\'') || res[len(res)-1] != res[0] || bytes.IndexByte(res[1:len(res)-1], res[0]) >= 0 {
		c.Fail("xml-attr-not-quoted", desc)
		return
	}
	doc := append(append([]byte("<a x="), res...), "/>"...)
	l := xml.NewLexer(parse.NewInputBytes(append(make([]byte, 0, len(doc)+1), doc...)))
	var toks []string
	var val []byte
	for i := 0; i < 16; i++ {
		tt, _ := l.Next()
		if tt == xml.ErrorToken {
			break
		}
		toks = append(toks, tt.String())
		if tt == xml.AttributeToken {
			val = append([]byte{}, l.AttrVal()...)
		}
	}
	if strings.Join(toks, " ") != "StartTag Attribute StartTagCloseVoid" || len(val) < 2 || val[0] != res[0] || val[len(val)-1] != res[0] {
		c.Fail("xml-attr-read-back", fmt.Sprintf("%s: <a x=…/> lexes as [%s] with value %q", desc, strings.Join(toks, " "), val))
		return
	}
	// what the lexer reads back (it turns raw tabs and line breaks into blanks as XML prescribes), unquoted and decoded,
	// is the text of the original value
	if a, b := stdhtml.UnescapeString(string(val[1:len(val)-1])), stdhtml.UnescapeString(string(in)); a != b {
		c.Fail("xml-attr-decodes-differently", fmt.Sprintf("%s is read back as %q, which decodes to %q; the value decodes to %q", desc, val, a, b))
	}
	s, d := bytes.Count(in, []byte("'")), bytes.Count(in, []byte("\""))
	cost := map[byte]int{'\'': s, '"': d}
	if cost[res[0]] > cost[res[0]^('"'^'\'')] {
		c.Fail("xml-attr-not-shortest", desc+": the other quote would need fewer escapes")
	}
}

func c17CDATA(c *engine.Ctx, in []byte, args map[string]string) {
	var buf []byte
	switch args["buf"] {
	case "large":
		buf = make([]byte, 0, 256)
	case "exact":
		buf = make([]byte, 0, len(in)) // room for the text as it is, not for its escaped form
	case "small":
		buf = make([]byte, 0, 4)
	}
	arr, b := spareCopy(in)
	pr := append([]byte{}, arr...)
	out, ok := xml.EscapeCDATAVal(&buf, b)
	if !bytes.Equal(arr, pr) {
		c.Fail("mutates-argument", fmt.Sprintf("xml.EscapeCDATAVal(%q) changed its argument", in))
		return
	}
	if !ok {
		if !bytes.Equal(out, in) {
			c.Fail("cdata-decline", fmt.Sprintf("xml.EscapeCDATAVal(%q) declined but returned %q", in, out))
		}
		return
	}
	if bytes.ContainsAny(out, "<") {
		c.Fail("cdata-unescaped", fmt.Sprintf("xml.EscapeCDATAVal(%q)=%q still contains '<'", in, out))
	}
	un := strings.NewReplacer("&lt;", "<", "&amp;", "&").Replace(string(out))
	if un != string(in) {
		c.Fail("cdata-round-trip", fmt.Sprintf("xml.EscapeCDATAVal(%q)=%q un-escapes to %q", in, out, un))
	}
	if len(out) > len(in)+len("<![CDATA[]]>") {
		c.Fail("cdata-longer-than-wrapper", fmt.Sprintf("xml.EscapeCDATAVal(%q)=%q costs more than the CDATA wrapper", in, out))
	}
}

func c17Setup(c *engine.Ctx) {
	for n, f := range map[string]engine.RunFunc{"ws": c17WS, "entity": c17Entity, "ws+entity": c17Both, "html-attr": c17HTMLAttr, "xml-attr": c17XMLAttr, "cdata": c17CDATA} {
		c.Register(&engine.Space{Name: n, Run: f})
	}
}

func c17Work(c *engine.Ctx) {
	enum := func(space string, atoms [][]byte, maxLen int, argsList []map[string]string) {
		sp := c.SpaceByName(space)
		al := engine.NewAlphabet(atoms)
		c.EnumSeq(al, 0, maxLen, func(in []byte, idx []int) {
			for _, a := range argsList {
				c.Exec(sp, in, a)
				c.Count("exec", 1)
			}
			if len(idx) >= 2 && al.Canonical(idx, in) {
				c.Count("distinct_nontrivial", 1)
			}
			if len(idx) == maxLen && c.Counters["exec"]%70001 == 0 {
				c.Sample(fmt.Sprintf("%s: %q", space, in))
			}
		})
	}
	enum("ws", engine.Atoms(" ", "\t", "\n", "\r", "\f", "a", "b"), c.Pick(8, 9), []map[string]string{nil})
	enum("ws", engine.Atoms(" ", "\n", "\v", "\x00", "\x01", "\x1f", "\x7f", "\x85", "\xa0", "a"), c.Pick(5, 6), []map[string]string{nil})
	// every byte value next to and between whitespace, in both whitespace functions
	{
		wsp, bsp := c.SpaceByName("ws"), c.SpaceByName("ws+entity")
		for v := 0; v < 256; v++ {
			if !c.Mine(v) {
				continue
			}
			x := string([]byte{byte(v)})
			for _, t := range []string{" @", "@ ", " @ ", "\n@\n", "a @ b", "  @  ", "\t@\r", " @@ ", "@ @", "\f@", " \n@\n "} {
				in := []byte(strings.ReplaceAll(t, "@", x))
				c.Exec(wsp, in, nil)
				c.Exec(bsp, in, map[string]string{"rev": "none"})
				c.Count("exec", 2)
				c.Count("byte-sweep", 1)
			}
		}
	}
	entAtoms := engine.Atoms("&", "#", "x", "X", ";", "0", "4", "1", "9", "a", "amp", "lt", "quot", "apos", "nbsp", "&amp;", "&#39;", "&#x41;", "&#0;", "varphi", "3", " ", "5", "m", "p", "&#35;", "&#59;", "&#120;", "&#49;", "&num;", "&#38;", "&#x26;")
	revs := []map[string]string{{"rev": "none"}, {"rev": "apos"}, {"rev": "both"}}
	enum("entity", entAtoms, c.Pick(5, 6), revs)
	// numeric references with many digits: the value must not wrap around to a small one
	{
		sp := c.SpaceByName("entity")
		k := 0
		var refs []string
		for _, pre := range []string{"", "0", "00000000000000", "1", "8", "f", "10000000", "100000000", "1000000000000000", "8000000000000000", "ffffffffffffffff", "10000000000000000", "7fffffffffffff", "fffffffffffffff"} {
			for _, suf := range []string{"41", "26", "3b", "80", "7f", "0", "d800", "10ffff", "110000", "270f", "2710"} {
				refs = append(refs, "&#x"+pre+suf+";", "&#X"+pre+suf+";", "&#x"+pre+suf)
			}
		}
		for _, pre := range []string{"", "0", "000000000000000000", "18446744073709551", "4294967", "9223372036854775", "922337203685477580"} {
			for _, suf := range []string{"65", "38", "128", "127", "681", "0", "9999", "10000"} {
				refs = append(refs, "&#"+pre+suf+";", "&#"+pre+suf)
			}
		}
		for _, ref := range refs {
			for _, before := range []string{"", "a", "&", "&#x", "&#", "&#x" + strings.Repeat("0", 28) + "4", "&#x" + strings.Repeat("0", 31) + "4", "&#" + strings.Repeat("0", 40) + "6", "&#x" + strings.Repeat("1", 33)} {
				for _, after := range []string{"", "a", ";", "1", "&amp;"} {
					k++
					if !c.Mine(k) {
						continue
					}
					for _, a := range revs {
						c.Exec(sp, []byte(before+ref+after), a)
						c.Count("exec", 1)
					}
					c.Count("long_numeric_refs", 1)
				}
			}
		}
	}
	enum("ws+entity", engine.Atoms("&", "#", ";", "3", "2", "9", "a", "amp", "&amp;", "&#32;", "&#10;", "&quot;", " ", "\n", "\t", "\r", "x"), c.Pick(5, 6), revs)
	var hargs []map[string]string
	for _, q := range []string{"", "'", "\""} {
		for _, m := range []string{"0", "1"} {
			for _, bf := range []string{"nil", "small", "large"} {
				hargs = append(hargs, map[string]string{"q": q, "must": m, "buf": bf})
			}
		}
	}
	attrAtoms := engine.Atoms("a", " ", "'", "\"", "<", "=", ">", "`", "&", "#", "3", "9", ";", "\t", "/", "é", "\f", "\n", "\v", "\r")
	enum("html-attr", attrAtoms, c.Pick(4, 5), hargs)
	enum("xml-attr", attrAtoms, c.Pick(5, 6), []map[string]string{{"buf": "nil"}, {"buf": "small"}, {"buf": "large"}})
	enum("cdata", engine.Atoms("a", "<", "&", "]", ">", "l", "t", ";"), c.Pick(7, 8), []map[string]string{{"buf": "nil"}, {"buf": "large"}, {"buf": "exact"}, {"buf": "small"}})
}

func c17Finish(c *engine.Ctx, cov map[string]interface{}) string {
	if c.Counters["entity-replaced"] < 1000 {
		return "vacuous: ReplaceEntities hardly ever replaced anything"
	}
	return ""
}

func init() {
	register(&engine.Check{
		ID: "C17", Level: "exploration",
		Rule:        "ReplaceMultipleWhitespace on all strings ≤8 over {space,\\t,\\n,\\r,\\f,a,b} and ≤5 over blanks, control bytes, 0x85 and 0xA0, and with every byte value next to and between whitespace, vs a regexp reference; ReplaceEntities on all sequences ≤5 over 32 entity fragments × 3 reverse maps: never longer, idempotent, html.UnescapeString unchanged (NUL references excepted), result is a prefix of the argument; the same on 600 numeric references of up to 25 digits (values at and beyond 2^32, 2^63 and 2^64) × 45 contexts (among them unterminated references of up to 42 digits in front); the combined function == ReplaceEntities∘ReplaceMultipleWhitespace on all sequences ≤5 over 17 fragments; html.EscapeAttrVal on all values ≤4 over 16 atoms × origQuote × mustQuote × 3 buffers and xml.EscapeAttrVal ≤5: read back through the lexer as one attribute whose value decodes to the same text, quoting policy, shortest quote; xml.EscapeCDATAVal on all strings ≤7 over {a < & ] > l t ;}",
		Assumptions: []string{"entity maps are consistent with HTML (replacement decodes to the same text and is not longer)", "ReplaceMultipleWhitespaceAndEntities is compared with whitespace first, entities second"},
		Setup:       c17Setup, Work: c17Work, Finish: c17Finish,
	})
}
