package main

// C18 — Walk visits every node once, balanced.

import (
	"fmt"
	"reflect"
	"sort"
	"strings"
	"unsafe"

	"verifmc/engine"

	parse "github.com/tdewolff/parse/v2"
	"github.com/tdewolff/parse/v2/js"
)

var (
	tINode    = reflect.TypeOf((*js.INode)(nil)).Elem()
	tIStmt    = reflect.TypeOf((*js.IStmt)(nil)).Elem()
	tIExpr    = reflect.TypeOf((*js.IExpr)(nil)).Elem()
	tIBinding = reflect.TypeOf((*js.IBinding)(nil)).Elem()
	tScope    = reflect.TypeOf(js.Scope{})
	tVar      = reflect.TypeOf(js.Var{})
)

type gtNode struct {
	key      string
	typ      string
	parent   int // index of the nearest ancestor node, -1 for the root
	required bool
}

type groundTruth struct {
	nodes []gtNode
	index map[string]int
}

func nodeKeyOf(v reflect.Value) string {
	// v: a struct value (addressable or not) or a pointer to struct
	if v.Kind() == reflect.Ptr {
		return fmt.Sprintf("%s@%x", v.Type().Elem().Name(), v.Pointer())
	}
	if v.CanAddr() {
		return fmt.Sprintf("%s@%x", v.Type().Name(), v.Addr().Pointer())
	}
	// a node held by value inside an interface: identify it by the source bytes it points to
	if f := v.FieldByName("Data"); f.IsValid() && f.Kind() == reflect.Slice {
		return fmt.Sprintf("%s#%x+%d", v.Type().Name(), f.Pointer(), f.Len())
	}
	return fmt.Sprintf("%s#%v", v.Type().Name(), v.Interface())
}

func (g *groundTruth) add(v reflect.Value, parent int, required bool) int {
	k := nodeKeyOf(v)
	t := v.Type()
	if t.Kind() == reflect.Ptr {
		t = t.Elem()
	}
	// one entry per occurrence: a *Var is shared by all uses of a binding, zero-size nodes (EmptyStmt, …) share one address
	g.nodes = append(g.nodes, gtNode{k, t.Name(), parent, required})
	g.index[k] = len(g.nodes) - 1
	return len(g.nodes) - 1
}

func isNodeStruct(t reflect.Type) bool {
	return t.Kind() == reflect.Struct && t != tScope && (reflect.PtrTo(t).Implements(tINode) || t.Implements(tINode))
}

func (g *groundTruth) visit(v reflect.Value, parent int, required bool) {
	switch v.Kind() {
	case reflect.Interface:
		if v.IsNil() {
			return
		}
		it := v.Type()
		req := it == tIStmt || it == tIExpr || it == tIBinding || it == tINode
		g.visit(v.Elem(), parent, req)
	case reflect.Ptr:
		if v.IsNil() || v.Type().Elem() == tScope {
			return
		}
		e := v.Elem()
		if e.Kind() != reflect.Struct {
			return
		}
		p := parent
		if isNodeStruct(e.Type()) {
			name := e.Type().Name()
			p = g.add(v, parent, required || name == "Var" || name == "BlockStmt")
		}
		g.fields(e, p)
	case reflect.Struct:
		if v.Type() == tScope {
			return
		}
		p := parent
		if isNodeStruct(v.Type()) {
			// a literal held by value (the key of a property, method or binding item) is an expression node of the tree
			lit := v.Type().Name() == "LiteralExpr" && v.CanAddr() && v.FieldByName("Data").Len() > 0
			p = g.add(v, parent, required || lit || v.Type().Name() == "BlockStmt")
		}
		g.fields(v, p)
	case reflect.Slice:
		if v.Type().Elem().Kind() == reflect.Uint8 {
			return
		}
		for i := 0; i < v.Len(); i++ {
			g.visit(v.Index(i), parent, false)
		}
	}
}

// unionSkip: structs that hold alternatives side by side; the alternatives not chosen are zero values that take up
// space in the struct but are not nodes of the program (a `static {}` element has no field, a #private name no
// property name).
func unionSkip(s reflect.Value, field string) bool {
	switch s.Type().Name() {
	case "ClassElement":
		chosen := "Field"
		if !s.FieldByName("StaticBlock").IsNil() {
			chosen = "StaticBlock"
		} else if !s.FieldByName("Method").IsNil() {
			chosen = "Method"
		}
		return field != chosen
	case "ClassElementName":
		if !s.FieldByName("Private").IsNil() {
			return field == "PropertyName"
		}
	}
	return false
}

func (g *groundTruth) fields(s reflect.Value, parent int) {
	t := s.Type()
	for i := 0; i < t.NumField(); i++ {
		f := t.Field(i)
		if unionSkip(s, f.Name) {
			continue
		}
		if f.Type == tScope || f.Type.Kind() == reflect.Ptr && f.Type.Elem() == tScope {
			continue // scope tables are not part of the tree
		}
		if t == tVar && f.Name == "Link" {
			continue
		}
		fv := s.Field(i)
		if !fv.CanInterface() {
			fv = reflect.NewAt(fv.Type(), unsafe.Pointer(fv.UnsafeAddr())).Elem()
		}
		g.visit(fv, parent, false)
	}
}

func buildGroundTruth(ast *js.AST) *groundTruth {
	g := &groundTruth{index: map[string]int{}}
	root := g.add(reflect.ValueOf(ast), -1, true)
	g.fields(reflect.ValueOf(ast).Elem(), root)
	return g
}

func keyOfINode(n js.INode) string {
	return nodeKeyOf(reflect.ValueOf(n))
}

type recVisitor struct {
	events  []string // "E key" / "X key"
	stopAt  map[int]bool
	entered int
}

func (r *recVisitor) Enter(n js.INode) js.IVisitor {
	k := keyOfINode(n)
	r.events = append(r.events, "E "+k)
	i := r.entered
	r.entered++
	if r.stopAt[i] {
		return nil
	}
	return r
}

func (r *recVisitor) Exit(n js.INode) {
	r.events = append(r.events, "X "+keyOfINode(n))
}

// checkWalk runs Walk with the stop policy and compares with the ground truth; returns ("","") or (clause, text).
// Keys are not unique per occurrence (shared *Var, zero-size nodes), but such nodes are leaves: every
// non-leaf node has a unique address, so cuts and ancestor relations are unambiguous.
func checkWalk(ast *js.AST, g *groundTruth, stop map[int]bool) (string, string) {
	v := &recVisitor{stopAt: stop}
	js.Walk(v, ast)
	// ancestor relation of the ground truth on keys
	// (quadratic in the depth: built for the enumerated trees; the very deep and very wide ones are checked for the
	// entered set, the Enter/Exit balance and the order only)
	big := len(g.nodes) > 4000
	anc := map[[2]string]bool{}
	for i, n := range g.nodes {
		if big {
			break
		}
		for p := n.parent; p >= 0; p = g.nodes[p].parent {
			anc[[2]string{g.nodes[p].key, n.key}] = true
		}
		_ = i
	}
	entered := map[string]int{}
	stopped := map[string]bool{}
	var stack []string
	nEnter := 0
	for _, ev := range v.events {
		k := ev[2:]
		if ev[0] == 'E' {
			if _, ok := g.index[k]; !ok {
				return "foreign-node", fmt.Sprintf("Enter received %s, which is not a node of the tree (a copy, or reachable only through scope tables)", k)
			}
			if !big && len(stack) > 0 && !anc[[2]string{stack[len(stack)-1], k}] {
				return "child-before-parent", fmt.Sprintf("%s is entered inside %s, which is not one of its ancestors", k, stack[len(stack)-1])
			}
			entered[k]++
			if stop[nEnter] {
				stopped[k] = true
			} else {
				stack = append(stack, k)
			}
			nEnter++
		} else {
			if len(stack) == 0 || stack[len(stack)-1] != k {
				top := "none"
				if len(stack) > 0 {
					top = stack[len(stack)-1]
				}
				return "exit-order", fmt.Sprintf("Exit(%s) while the innermost open node is %s (Exit must come exactly once per non-nil Enter, after all children)", k, top)
			}
			stack = stack[:len(stack)-1]
		}
	}
	if len(stack) != 0 {
		return "exit-missing", fmt.Sprintf("no Exit for %s although its Enter returned a visitor", stack[len(stack)-1])
	}
	// expected occurrences under the policy
	required := map[string]int{}
	allowed := map[string]int{}
	example := map[string]int{}
	for i, n := range g.nodes {
		cut := false
		for p := n.parent; p >= 0 && len(stopped) > 0; p = g.nodes[p].parent {
			if stopped[g.nodes[p].key] {
				cut = true
				break
			}
		}
		if cut {
			continue
		}
		allowed[n.key]++
		if n.required {
			required[n.key]++
			example[n.key] = i
		}
	}
	var eks []string
	for k := range entered {
		eks = append(eks, k)
	}
	sort.Slice(eks, func(a, b int) bool { return g.index[eks[a]] < g.index[eks[b]] })
	for _, k := range eks {
		n := entered[k]
		if n > allowed[k] {
			if allowed[k] == 0 {
				return "skip-not-honoured", fmt.Sprintf("%s was entered although Enter returned nil for one of its ancestors", k)
			}
			return "entered-twice", fmt.Sprintf("%s is passed to Enter %d times but occurs %d times in the tree", k, n, allowed[k])
		}
	}
	for i, nd := range g.nodes { // in tree order, so that the first miss reported is deterministic
		if n := required[nd.key]; nd.required && entered[nd.key] < n && example[nd.key] >= i {
			return "node-missed:" + nd.typ + "-in-" + g.typeOfParent(i), fmt.Sprintf("%s (%s) occurs %d times in the tree but was passed to Enter %d times", nd.key, g.pathOf(i), n, entered[nd.key])
		}
	}
	return "", ""
}

func (g *groundTruth) typeOfParent(i int) string {
	if p := g.nodes[i].parent; p >= 0 {
		return g.nodes[p].typ
	}
	return "root"
}

func (g *groundTruth) pathOf(i int) string {
	var parts []string
	for ; i >= 0; i = g.nodes[i].parent {
		parts = append(parts, g.nodes[i].typ)
	}
	for a, b := 0, len(parts)-1; a < b; a, b = a+1, b-1 {
		parts[a], parts[b] = parts[b], parts[a]
	}
	return strings.Join(parts, ">")
}

var seenNodeTypes = map[string]bool{}

func c18Run(c *engine.Ctx, in []byte, args map[string]string) {
	src := append(make([]byte, 0, len(in)+1), in...)
	ast, err := js.Parse(parse.NewInputBytes(src), jsOptions(args["opts"]))
	if err != nil {
		return
	}
	c.Count("trees", 1)
	g := buildGroundTruth(ast)
	for _, n := range g.nodes {
		if !seenNodeTypes[n.typ] {
			seenNodeTypes[n.typ] = true
			c.State(n.typ)
		}
	}
	c.Count("nodes", int64(len(g.nodes)))
	desc := func(p string) string { return fmt.Sprintf("program %q, policy %s: ", in, p) }
	if cl, msg := checkWalk(ast, g, nil); cl != "" {
		c.Fail(cl, desc("descend everywhere")+msg)
		return
	}
	c.Count("walks", 1)
	// how many Enter calls does a full walk make?
	full := &recVisitor{}
	js.Walk(full, ast)
	n := full.entered
	if n <= 48 {
		for i := 0; i < n; i++ {
			if cl, msg := checkWalk(ast, g, map[int]bool{i: true}); cl != "" {
				c.Fail(cl, desc(fmt.Sprintf("return nil at Enter #%d", i))+msg)
				return
			}
			c.Count("walks", 1)
		}
	}
	if n <= 16 {
		for i := 0; i < n; i++ {
			for j := i + 1; j < n; j++ {
				if cl, msg := checkWalk(ast, g, map[int]bool{i: true, j: true}); cl != "" {
					c.Fail(cl, desc(fmt.Sprintf("return nil at Enter #%d and #%d", i, j))+msg)
					return
				}
				c.Count("walks", 1)
			}
		}
	}
}

var c18ExtraSeeds = []string{
	"let [...r] = x", "function f([...r]){}", "([...r]) => 0", "try{}catch([...r]){}", "({k:[...r]} = x)", "let {...s} = x", "function g(...r){}", "let [,...r]=x", "for(const [...r] of x);",
	"class A { [k]() {} #p = 1; static #q() {} get [a+b]() {} set x(v) {} 'str'() {} 1() {} f = g; static [h] = i; async *[m]() {} #p2; static { s = 1; } }",
	"x = { [k]() {}, get [a]() {}, set b(v) {}, async *c() {}, d, e: f, ...g, 'h': 1, [i]: j, k = 1 }",
	"x = class { static a; #b; [c] = d; }; y = class Z extends W {};",
	"tag`lit`; String.raw`a${b}c`; f(a,b)`x`; t`a``b`;",
	"function f(){ new.target; } import.meta;",
	"for (const [a, {b = 1, ...c}] of d) ; for (e in f) g; for (var h = 0, i; ; ) {}",
	"try { a } catch ({b, c: [d]}) { e } finally { f }",
	"switch (a) { case b: c; default: d; case e: }",
	"label: for (;;) { continue label; }",
	"export default class {}; export { a as b }; export * from 'm'; import c, * as d from 'm'; import { e as f } from 'm';",
	"x = a?.b?.[c]?.(d); new A; new B(c, ...d); x = (a, b); x = a ? b : c; yield_ = function*(){ yield; yield a; yield* b; };",
	"'use strict'; /*! keep */ x; with (a) b; debugger; do ; while (a); while (b) ; if (c) ; else ;",
	"x = async (a, [b], {c}, ...d) => e; y = async z => { await z; };",
	"let [a, , b = 1, ...[c]] = d; var {e, f: {g}, ...h} = i;",
}

func c18Setup(c *engine.Ctx) {
	c.Register(&engine.Space{Name: "walk", Run: c18Run})
	c.Register(&engine.Space{Name: "walk-big", Run: c18Run, NoMinimise: true})
}

func c18Work(c *engine.Ctx) {
	sp := c.SpaceByName("walk")
	k := 0
	for _, s := range append(append([]string{}, seedsJS...), c18ExtraSeeds...) {
		for _, o := range jsOptionNames {
			k++
			if !c.Mine(k) {
				continue
			}
			c.Exec(sp, []byte(s), map[string]string{"opts": o})
			c.Count("exec", 1)
			c.Count("distinct_nontrivial", 1)
		}
	}
	c.Sample(c18ExtraSeeds[0])
	// every accepted string of the enumerated JS space, and the edit balls around the seeds
	al := engine.NewAlphabet(alphaJSCore)
	c.EnumSeq(al, 0, c.Pick(4, 5), func(in []byte, idx []int) {
		c.Exec(sp, in, map[string]string{"opts": "00"})
		c.Count("exec", 1)
	})
	al2 := engine.NewAlphabet(alphaJS)
	c.EnumSeq(al2, 0, c.Pick(2, 3), func(in []byte, idx []int) {
		c.Exec(sp, in, map[string]string{"opts": "00"})
		c.Count("exec", 1)
	})
	for _, seed := range append(append([]string{}, seedsJS...), c18ExtraSeeds...) {
		c.EditBall([]byte(seed), alphaJSCore, func(in []byte) {
			c.Exec(sp, in, map[string]string{"opts": "00"})
			c.Count("exec", 1)
		})
	}
	// trees as deep as the parser returns them (one level of source nesting is several levels of tree) and as wide
	big := c.SpaceByName("walk-big")
	k = 0
	for _, d := range [][3]string{{"f(", "1", ")"}, {"[", "", "]"}, {"(", "1", ")"}, {"x={a:", "1", "}"}, {"a=>", "1", ""}, {"!", "a", ""}, {"a?.b(", "", ")"}, {"`${", "", "}`"}, {"new A(", "", ")"}, {"[...", "a", "]"},
		{"{", "", "}"}, {"if(a)", ";", ""}, {"for(;;)", ";", ""}, {"function f(){", "", "}"}, {"x=function(){", "", "}"}, {"x=()=>{", "", "}"}, {"class A{m(){", "", "}}"}, {"l:", ";", ""}, {"try{", "", "}catch{}"}, {"switch(a){case 1:", "", "}"}, {"a=", "1", ""}, {"a?", "1", ":2"}, {"a,(", "1", ")"}} {
		for _, n := range []int{100, 330, 660, 900, 998} {
			k++
			if !c.Mine(k) {
				continue
			}
			prog := strings.Repeat(d[0], n) + d[1] + strings.Repeat(d[2], n)
			c.Exec(big, []byte(prog), map[string]string{"opts": "00"})
			c.Exec(big, []byte(prog), map[string]string{"opts": "10"})
			c.Count("exec", 2)
			c.Count("deep-programs", 1)
		}
	}
	for _, w := range [][3]string{{"x=[", "1,", "]"}, {"f(", "a,", "b)"}, {"", "a;", ""}, {"x={", "a:1,", "}"}, {"class A{", "m(){}", "}"}, {"switch(a){", "case 1:b;", "}"}, {"let ", "a=1,", "b"}, {"x=`", "${a}", "`"}} {
		k++
		if !c.Mine(k) {
			continue
		}
		prog := w[0] + strings.Repeat(w[1], 3000) + w[2]
		c.Exec(big, []byte(prog), map[string]string{"opts": "00"})
		c.Count("exec", 1)
		c.Count("wide-programs", 1)
	}
}

func c18Finish(c *engine.Ctx, cov map[string]interface{}) string {
	// every node struct type of js/ast.go must have occurred in some tree
	want := []string{"AST", "Var", "BlockStmt", "EmptyStmt", "ExprStmt", "IfStmt", "DoWhileStmt", "WhileStmt", "ForStmt", "ForInStmt", "ForOfStmt", "CaseClause", "SwitchStmt", "BranchStmt", "ReturnStmt",
		"WithStmt", "LabelledStmt", "ThrowStmt", "TryStmt", "DebuggerStmt", "Alias", "ImportStmt", "ExportStmt", "DirectivePrologueStmt", "PropertyName", "BindingArray", "BindingObjectItem", "BindingObject",
		"BindingElement", "VarDecl", "Params", "FuncDecl", "MethodDecl", "Field", "ClassDecl", "LiteralExpr", "Element", "ArrayExpr", "Property", "ObjectExpr", "TemplatePart", "TemplateExpr", "GroupExpr",
		"IndexExpr", "DotExpr", "NewTargetExpr", "ImportMetaExpr", "Arg", "Args", "NewExpr", "CallExpr", "UnaryExpr", "BinaryExpr", "CondExpr", "YieldExpr", "ArrowFunc", "CommaExpr", "ClassElementName", "Comment"}
	var missing []string
	for _, w := range want {
		if _, ok := c.States[w]; !ok {
			missing = append(missing, w)
		}
	}
	sort.Strings(missing)
	cov["node_types_seen"] = engine.SortedKeys(c.States)
	cov["ground_truth_exclusions"] = []string{"fields of type Scope / *Scope (scope tables)", "Var.Link"}
	if len(missing) > 0 {
		return "incomplete: node types never produced by the generated programs: " + strings.Join(missing, ", ")
	}
	if c.Counters["walks"] < 100000 {
		return "vacuous: fewer than 100000 walks"
	}
	return ""
}

func init() {
	register(&engine.Check{
		ID: "C18", Level: "exploration",
		Rule:        "every tree js.Parse returns for the JS seed catalogue + 14 class/object/template/meta-property programs (× 4 Options), every accepted string ≤4 (5) atoms over the JS core alphabet and ≤2 (3) over the full one, and every accepted single-edit neighbour of the seeds; per tree: Walk with a recording visitor that descends everywhere, that returns nil at the i-th Enter for every i (trees ≤48 Enter calls), and at every pair (i,j) (≤16); compared with a reflection walk of the same tree (follows interface, pointer, struct and slice fields; excludes Scope tables and Var.Link): every statement/expression/binding/identifier node entered exactly once unless cut by the policy, nothing foreign entered, Exit exactly once per non-nil Enter in stack order, cut subtrees not entered",
		Assumptions: []string{"required nodes = values held in IStmt/IExpr/IBinding fields, *Var, BlockStmt and non-empty LiteralExpr values embedded in a struct (literal property/method/binding keys); auxiliary structs (Params, Arg, Element, PropertyName, ClassElementName, …) may be entered but need not be", "a node passed by value (DotExpr.Y) is identified by the source bytes it points to"},
		Setup:       c18Setup, Work: c18Work, Finish: c18Finish,
	})
}
