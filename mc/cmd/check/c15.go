package main

// C15 — line, column and context locate the offending byte.

import (
	"bytes"
	stdjson "encoding/json"
	"fmt"
	"io"
	"strconv"
	"strings"
	"unicode"
	"unicode/utf8"

	"verifmc/engine"

	parse "github.com/tdewolff/parse/v2"
	"github.com/tdewolff/parse/v2/js"
	"github.com/tdewolff/parse/v2/json"
)

// unitLen: length of the indivisible unit at i (CRLF, a line break, a rune) and whether it is a line break.
func unitLen(t []byte, i int) (int, bool) {
	switch c := t[i]; {
	case c == '\r' && i+1 < len(t) && t[i+1] == '\n':
		return 2, true
	case c == '\n' || c == '\r':
		return 1, true
	case c >= 0x80:
		r, n := utf8.DecodeRune(t[i:])
		return n, r == 0x2028 || r == 0x2029
	}
	return 1, false
}

// refPosition: line, column and the byte range of the line holding the offset.
func refPosition(t []byte, offset int) (line, col, lineStart, lineEnd, at int) {
	line = 1
	i := 0
	for i < offset && i < len(t) {
		n, brk := unitLen(t, i)
		if n > 1 && offset < i+n {
			break // the offset lies inside this unit: it is the unit's position
		}
		i += n
		if brk {
			line++
			lineStart = i
		}
	}
	col = utf8.RuneCount(t[lineStart:i]) + 1
	lineEnd = i
	for lineEnd < len(t) {
		n, brk := unitLen(t, lineEnd)
		if brk {
			break
		}
		lineEnd += n
	}
	return line, col, lineStart, lineEnd, i
}

func displayRune(r rune) rune {
	if !unicode.IsGraphic(r) {
		return '·'
	}
	return r
}

// checkContext verifies the two-line context for (line, col) over the given line content.
func checkContext(ctx string, line, col int, lineRunes []rune) string {
	parts := strings.Split(ctx, "\n")
	if len(parts) != 2 {
		return fmt.Sprintf("context %q does not consist of two lines", ctx)
	}
	prefix := fmt.Sprintf("%5d: ", line)
	if !strings.HasPrefix(parts[0], prefix) {
		return fmt.Sprintf("context line %q does not start with %q", parts[0], prefix)
	}
	shown := []rune(parts[0][len(prefix):])
	caretLine := []rune(parts[1])
	if len(caretLine) == 0 || caretLine[len(caretLine)-1] != '^' || strings.Trim(string(caretLine[:len(caretLine)-1]), " ") != "" {
		return fmt.Sprintf("caret line %q is not spaces followed by ^", parts[1])
	}
	caret := len(caretLine) - 1 - len([]rune(prefix)) // index into shown
	disp := make([]rune, len(lineRunes))
	for i, r := range lineRunes {
		disp[i] = displayRune(r)
	}
	if len(lineRunes) <= 60 {
		if string(shown) != string(disp) {
			return fmt.Sprintf("line of %d characters is shown as %q, want %q", len(lineRunes), string(shown), string(disp))
		}
		if caret != col-1 {
			return fmt.Sprintf("caret under index %d, column %d is index %d", caret, col, col-1)
		}
		return ""
	}
	// elided: locate the shown segment in the line
	front, rear := false, false
	seg := shown
	if len(seg) >= 3 && string(seg[:3]) == "..." && !(len(disp) >= 3 && string(disp[:3]) == "..." && strings.HasPrefix(string(disp), string(seg))) {
		front = true
		seg = seg[3:]
	}
	if len(seg) >= 3 && string(seg[len(seg)-3:]) == "..." {
		rear = true
		seg = seg[:len(seg)-3]
	}
	if len(shown) > 66 {
		return fmt.Sprintf("a line of %d characters is shown with %d characters (limit about 60)", len(lineRunes), len(shown))
	}
	idx := strings.Index(string(disp), string(seg))
	if idx < 0 || len(seg) == 0 {
		return fmt.Sprintf("shown segment %q is not a piece of the line", string(seg))
	}
	start := utf8.RuneCountInString(string(disp)[:idx])
	if strings.Count(string(disp), string(seg)) != 1 {
		return "" // ambiguous placement: cannot judge (lines of the elision family have distinct characters)
	}
	if front != (start > 0) || rear != (start+len(seg) < len(disp)) {
		return fmt.Sprintf("ellipses front=%v rear=%v but the segment covers [%d,%d) of %d", front, rear, start, start+len(seg), len(disp))
	}
	pointed := caret
	if front {
		pointed -= 3
	}
	pointed += start // index in the line
	if pointed != col-1 {
		return fmt.Sprintf("caret points at character %d of the line, column %d is character %d (shown %q)", pointed, col, col-1, string(shown))
	}
	if col-1 < len(disp) && (col-1 < start || col-1 >= start+len(seg)) {
		return fmt.Sprintf("the character at column %d is not inside the shown segment [%d,%d)", col, start, start+len(seg))
	}
	return ""
}

func c15Position(c *engine.Ctx, in []byte, args map[string]string) {
	t := append([]byte{}, in...)
	offs := []int{}
	if o, ok := args["off"]; ok {
		v, _ := strconv.Atoi(o)
		offs = append(offs, v)
	} else {
		for o := -1; o <= len(t)+1; o++ {
			offs = append(offs, o)
		}
	}
	for _, o := range offs {
		line, col, ctx := parse.Position(bytes.NewReader(t), o)
		wl, wc, ls, le, _ := refPosition(t, o)
		c.Count("positions", 1)
		if line != wl || col != wc {
			c.Fail("line-column", fmt.Sprintf("Position(%q, %d)=(line %d, column %d), counting the breaks and code points gives (%d, %d)", t, o, line, col, wl, wc))
			return
		}
		if msg := checkContext(ctx, wl, wc, []rune(string(t[ls:le]))); msg != "" {
			c.Fail("context", fmt.Sprintf("Position(%q, %d) context %q: %s", t, o, ctx, msg))
			return
		}
	}
}

// long-line documents: an error with many single- and multi-byte characters before and after it on the same line
type longLineTmpl struct {
	space string
	doc   func(pre, tail string) string
}

var longLineChars = []string{"x", "\u00e9", "\u2318", "\U0001F600", "%d", "%"}

func longLineTemplates() []longLineTmpl {
	return []longLineTmpl{
		{"json-parse", func(pre, tail string) string { return "[\"" + pre + "\", 1 @ \"" + tail + "\"]" }},
		{"json-parse", func(pre, tail string) string { return "{\"" + pre + "\": \x00\"" + tail + "\"}" }},
		{"xml-lex", func(pre, tail string) string { return "<a b=\"" + pre + "\">\x00" + tail + "</a>" }},
		{"xml-lex", func(pre, tail string) string { return "<a>" + pre + "<b \x00 c='" + tail + "'/>" }},
		{"html-lex", func(pre, tail string) string { return "<p>" + pre + "<a \x00" + tail + ">" }},
		{"js-lex", func(pre, tail string) string { return "'" + pre + "'; @ '" + tail + "'" }},
		{"js-lex", func(pre, tail string) string { return "/*" + pre + "*/ \\ /*" + tail + "*/" }},
		{"js-parse", func(pre, tail string) string { return "x = '" + pre + "' + ; '" + tail + "'" }},
		{"css-parse", func(pre, tail string) string { return "a{b:'" + pre + "'}} c{d:'" + tail + "'}" }},
	}
}

// c15Insert: a valid document with one illegal character inserted at a token boundary.
// input = the document with the character; args: lang, off (offset of the inserted character)
func c15Insert(c *engine.Ctx, in []byte, args map[string]string) {
	off, _ := strconv.Atoi(args["off"])
	t := append([]byte{}, in...)
	buf := append(make([]byte, 0, len(t)+1), t...)
	var err error
	switch args["lang"] {
	case "js":
		_, err = js.Parse(parse.NewInputBytes(buf), js.Options{})
	case "jslex":
		// the lexer on its own: the first error token must carry the position of the inserted character
		l := js.NewLexer(parse.NewInputBytes(buf))
		for i := 0; i < 4*len(t)+8; i++ {
			if tt, _ := l.Next(); tt == js.ErrorToken {
				err = l.Err()
				break
			}
		}
	case "json":
		p := json.NewParser(parse.NewInputBytes(buf))
		for i := 0; i < 4*len(t)+8; i++ {
			if gt, _ := p.Next(); gt == json.ErrorGrammar {
				err = p.Err()
				break
			}
		}
	}
	if err == nil || err == io.EOF {
		c.Fail("illegal-char-accepted", fmt.Sprintf("%s document %q with an illegal character at %d is accepted (err=%v)", args["lang"], t, off, err))
		return
	}
	pe, ok := err.(*parse.Error)
	if !ok {
		c.Fail("error-type", fmt.Sprintf("%s document %q: error %v is not a *parse.Error", args["lang"], t, err))
		return
	}
	wl, wc, ls, le, _ := refPosition(t, off)
	if pe.Line != wl || pe.Column != wc {
		c.Fail("error-position", fmt.Sprintf("%s document %q: illegal character at byte %d is line %d column %d, the error says line %d column %d (%s)", args["lang"], t, off, wl, wc, pe.Line, pe.Column, pe.Message))
		return
	}
	if msg := checkContext(pe.Context, wl, wc, []rune(string(t[ls:le]))); msg != "" {
		c.Fail("error-context", fmt.Sprintf("%s document %q: context %q: %s", args["lang"], t, pe.Context, msg))
	}
}

// c15Generic: every *parse.Error of every lexer/parser corresponds to Position(input, o) for some o in [0,len],
// and for the lexers o is the cursor offset when the error was raised.
func c15Generic(space string) engine.RunFunc {
	return func(c *engine.Ctx, in []byte, args map[string]string) {
		n := len(in)
		t := append([]byte{}, in...)
		buf := append(make([]byte, 0, n+1), in...)
		winLo, winHi := -1, -1
		check := func(pe *parse.Error, knownOff int) {
			c.Count("errors-seen", 1)
			if knownOff >= 0 {
				l, col, ctx := parse.Position(bytes.NewReader(t), knownOff)
				if pe.Line != l || pe.Column != col || pe.Context != ctx {
					// was the position computed on a buffer the lexer had rewritten in place?
					if l2, col2, ctx2 := parse.Position(bytes.NewReader(buf[:n]), knownOff); !bytes.Equal(buf[:n], t) && pe.Line == l2 && pe.Column == col2 && pe.Context == ctx2 {
						c.Fail("error-position-on-rewritten-input", fmt.Sprintf("%s on %q: error (%d,%d) %q was computed on the input after the lexer's in-place rewriting %q; on the caller's text byte %d is (%d,%d)", space, t, pe.Line, pe.Column, pe.Message, buf[:n], knownOff, l, col))
						return
					}
					c.Fail("error-vs-offset", fmt.Sprintf("%s on %q: error (%d,%d,%q) %q but the parser stopped at byte %d = (%d,%d,%q)", space, t, pe.Line, pe.Column, pe.Context, pe.Message, knownOff, l, col, ctx))
				}
				return
			}
			lo, hi := 0, n
			if winLo >= 0 {
				lo, hi = winLo, winHi
			}
			for o := lo; o <= hi && o <= n; o++ {
				l, col, ctx := parse.Position(bytes.NewReader(t), o)
				if pe.Line == l && pe.Column == col && pe.Context == ctx {
					return
				}
			}
			if winLo >= 0 {
				c.Fail("error-outside-consumed-window", fmt.Sprintf("%s on %q: error (%d,%d,%q) %q does not lie in the bytes [%d,%d] the parser worked on during the failing call and the one before", space, t, pe.Line, pe.Column, pe.Context, pe.Message, winLo, winHi))
				return
			}
			c.Fail("error-outside-input", fmt.Sprintf("%s on %q: error (%d,%d,%q) %q matches no offset inside the input", space, t, pe.Line, pe.Column, pe.Context, pe.Message))
		}
		if space == "js-parse" {
			if _, err := js.Parse(parse.NewInputBytes(buf), jsOptions(args["opts"])); err != nil {
				if pe, ok := err.(*parse.Error); ok {
					check(pe, -1)
				}
			}
			return
		}
		s := openStream(space, args, buf)
		// xml, html and json report the error with the cursor resting on the offending byte; the JS lexer moves on
		// (templates, skipped rune), so for it only the existential form is checked
		isLexer := space == "xml-lex" || space == "html-lex" || space == "json-parse"
		prevBefore := 0
		for i := 0; i < 4*n+8; i++ {
			before := s.off()
			tt, data := s.next()
			if tt != 0 {
				prevBefore = before
				continue
			}
			err := s.err()
			pe, ok := err.(*parse.Error)
			if !ok {
				break
			}
			ko := -1
			if isLexer {
				ko = s.off()
				_, _ = before, data
			}
			if space == "css-parse" {
				// the css parser goes on after an error (one token of look-ahead): every error must lie in what the
				// failing call and the call before it consumed
				winLo, winHi = prevBefore, s.off()
			}
			check(pe, ko)
			prevBefore = before
			if space != "js-lex" && space != "css-parse" {
				break
			}
		}
	}
}

func c15Setup(c *engine.Ctx) {
	c.Register(&engine.Space{Name: "position", Run: c15Position})
	c.Register(&engine.Space{Name: "insert", Run: c15Insert, NoMinimise: true})
	for _, sp := range []string{"css-parse", "html-lex", "xml-lex", "json-parse", "js-lex", "js-parse"} {
		c.Register(&engine.Space{Name: "err:" + sp, Run: c15Generic(sp)})
	}
}

// token boundaries of a JS program by the library-independent reference lexer
func jsBoundaries(src []byte) []int {
	ref := refJSLex(src, nil)
	if ref.outside || bytes.HasPrefix(src, []byte("#!")) {
		return nil
	}
	r := []int{0}
	for _, t := range ref.toks {
		if t.tt == js.DivToken || t.tt == js.DivEqToken || t.tt == js.TemplateStartToken {
			return nil // the division/regexp goal is syntactic: the reference lexer's boundaries may lie inside a regexp literal
		}
		r = append(r, t.end)
	}
	return r
}

func jsonBoundaries(src []byte) []int {
	toks, ok := refJSONTokens(src)
	if !ok {
		return nil
	}
	r := []int{0}
	for _, t := range toks {
		r = append(r, t.start, t.end)
	}
	return r
}

func c15Work(c *engine.Ctx) {
	psp := c.SpaceByName("position")
	al := engine.NewAlphabet(engine.Atoms("a", "\n", "\r", "\r\n", "\u2028", "\u2029", "é", "😀", "\t", "\u200b", "\x00", "\u0085", "\u00ad", "\x7f", "\u00a0", "%", "%s"))
	lvl := c.EnumSeq(al, 0, c.Pick(5, 6), func(in []byte, idx []int) {
		c.Exec(psp, in, nil)
		c.Count("exec", 1)
		if len(idx) >= 2 && al.Canonical(idx, in) {
			c.Count("distinct_nontrivial", 1)
		}
	})
	c.Count("min:level_position", int64(lvl))
	if c.Thorough() {
		// one more level over the characters that steer line and column counting
		core := engine.NewAlphabet(engine.Atoms("a", "\n", "\r", "\r\n", "\u2028", "\u2029", "é", "😀", "\t", "\x00", "%"))
		c.EnumSeq(core, 7, 7, func(in []byte, idx []int) {
			c.Exec(psp, in, nil)
			c.Count("exec", 1)
		})
	}
	// long lines of one-, two-, three- and four-byte characters (up to 1200 bytes in front of the offset): every offset
	k := 0
	for _, base := range []rune{'0', 0x100, 0x4E00, 0x10400} {
		for _, L := range []int{100, 200, 300} {
			for _, pre := range []int{0, 1} {
				for _, mix := range []bool{false, true} {
					k++
					if !c.Mine(k) {
						continue
					}
					var sb strings.Builder
					sb.WriteString(strings.Repeat("\n", pre))
					for i := 0; i < L; i++ {
						if mix && i%7 == 3 {
							sb.WriteRune(rune('a' + i%26)) // an ASCII letter now and then shifts the byte alignment
						} else if base == '0' {
							sb.WriteRune(rune('0' + i%75))
						} else {
							sb.WriteRune(base + rune(i))
						}
					}
					sb.WriteString("\nnext line")
					t := []byte(sb.String())
					for o := pre - 1; o <= len(t)-8; o++ {
						c.Exec(psp, t, map[string]string{"off": strconv.Itoa(o)})
						c.Count("exec", 1)
					}
					c.Count("distinct_nontrivial", 1)
				}
			}
		}
	}
	// elision family: one line of L distinct characters with special characters at the cut points
	specials := []rune{'x', 'é', '😀', '\t', 0x200b, 0x2028, 0x85, 0x9b, 0xad, 0x7f, 0xa0, 0xfeff, '%'}
	for _, L := range []int{57, 58, 59, 60, 61, 62, 63, 64, 65, 66, 80, 100, 120} {
		for _, sp := range specials {
			for _, spPos := range []int{-1, 0, 16, 17, 19, 20, 21, 22, 36, 37, 39, 40, 41, 42, 56, 57, 59, 60, L - 42, L - 41, L - 40, L - 24, L - 23, L - 22, L - 21, L - 1} {
				if spPos >= L {
					continue
				}
				for _, pre := range []int{0, 1, 9999, 100000} {
					if pre == 100000 && !(sp == 'x' && (spPos == -1 || spPos == 20) && (L == 57 || L == 61 || L == 100)) {
						continue
					}
					k++
					if !c.Mine(k) {
						continue
					}
					if !c.Thorough() && pre > 1 && (sp != 'x' || spPos != -1) {
						continue
					}
					var sb strings.Builder
					sb.WriteString(strings.Repeat("\n", pre))
					for i := 0; i < L; i++ {
						if i == spPos && sp != 0x2028 {
							sb.WriteRune(sp)
						} else {
							sb.WriteRune(rune(0x100 + i)) // distinct graphic letters
						}
					}
					sb.WriteString("\nnext line")
					t := []byte(sb.String())
					if sp == 0x2028 && spPos >= 0 {
						// a U+2028 inside the long line splits it: place it and test both halves
						rs := []rune(sb.String())
						rs[pre+spPos] = 0x2028
						t = []byte(string(rs))
					}
					// every offset on the long line (and one before/after)
					step := 1
					if pre > 1 {
						step = 7 // the prefix lines only change the line number: sample every 7th column of the long line
					}
					for o := pre - 1; o <= len(t)-8; o += step {
						c.Exec(psp, t, map[string]string{"off": strconv.Itoa(o)})
						c.Count("exec", 1)
					}
					c.Count("distinct_nontrivial", 1)
				}
			}
		}
	}
	// illegal character inserted at every token boundary of valid documents
	isp := c.SpaceByName("insert")
	illegal := []string{"@", "\\", "#", "\u2019", "\x01", "\x1f", "\x7f", "\u00a7", "\u20ac"}
	var jsDocs []string
	for _, s := range seedsJS {
		jsDocs = append(jsDocs, s)
	}
	for i, a := range seedsJS {
		if i%3 == 0 && len(a) < 40 {
			for j, b := range seedsJS {
				if j%7 == 0 && len(b) < 40 {
					jsDocs = append(jsDocs, a+"\n"+b, a+"\r\n\t"+b, a+" "+b)
				}
			}
		}
	}
	for _, d := range jsDocs {
		src := []byte(d)
		if _, err := js.Parse(parse.NewInputBytes(append(make([]byte, 0, len(src)+1), src...)), js.Options{}); err != nil {
			continue
		}
		for _, b := range jsBoundaries(src) {
			for _, ill := range illegal {
				k++
				if !c.Mine(k) {
					continue
				}
				// '#' may start a private name, '\\' a unicode escape: only insert where the result is still illegal
				mut := string(src[:b]) + ill + string(src[b:])
				if strings.HasPrefix(mut, "#!") || endsSingleLineComment(src, b) {
					continue // a shebang / text of a single-line comment: legal
				}
				if ill == "#" || ill == "\\" {
					if r := refJSLex([]byte(mut), nil); !r.outside {
						continue
					}
				}
				if inString(src, b) {
					continue
				}
				c.Exec(isp, []byte(mut), map[string]string{"lang": "js", "off": strconv.Itoa(b)})
				c.Exec(isp, []byte(mut), map[string]string{"lang": "jslex", "off": strconv.Itoa(b)})
				c.Count("exec", 2)
				c.Count("insertions", 1)
			}
		}
	}
	g := newC10Gen()
	for nt := 1; nt <= c.Pick(5, 6); nt++ {
		for di, doc := range g.val(nt) {
			if di%7 != 0 && nt > 3 {
				continue
			}
			for _, sep := range []string{"", " ", "\n", "\r\n\t"} {
				src := []byte(strings.Join(doc, sep))
				if !stdjson.Valid(src) {
					continue
				}
				for _, b := range jsonBoundaries(src) {
					for _, ill := range append(append([]string{}, illegal...), "\x00", "\x0b", "\x0c", "\x08") {
						k++
						if !c.Mine(k) {
							continue
						}
						mut := string(src[:b]) + ill + string(src[b:])
						c.Exec(isp, []byte(mut), map[string]string{"lang": "json", "off": strconv.Itoa(b)})
						c.Count("exec", 1)
						c.Count("insertions", 1)
					}
				}
			}
		}
	}
	// long lines: an error with many single- and multi-byte characters before and after it on the same line (the
	// context is cut to a window counted in characters, the input is cut in bytes)
	{
		counts := []int{0, 1, 10, 20, 21, 22, 30, 59, 60, 61, 62, 63, 64, 65, 66, 100}
		tmpls := longLineTemplates()
		for _, tm := range tmpls {
			sp := c.SpaceByName("err:" + tm.space)
			if sp == nil {
				continue
			}
			cfgs := cfgsFor([]string{tm.space})
			for _, ch := range longLineChars {
				for _, np := range counts {
					for _, nt := range counts {
						k++
						if !c.Mine(k) {
							continue
						}
						for _, nl := range []string{"", "\nnext line"} {
							doc := tm.doc(strings.Repeat(ch, np), strings.Repeat(ch, nt)) + nl
							for _, cf := range cfgs {
								c.Exec(sp, []byte(doc), cf.args)
								c.Count("exec", 1)
								c.Count("long-line-documents", 1)
							}
						}
					}
				}
			}
		}
	}
	// generic clause on the C01 spaces
	plans := []enumPlan{
		{alphaCSSCore, c.Pick(3, 4), []string{"css-parse"}},
		{alphaHTMLCore, c.Pick(3, 4), []string{"html-lex"}},
		{alphaXML, c.Pick(3, 4), []string{"xml-lex"}},
		{alphaJSON, c.Pick(3, 4), []string{"json-parse"}},
		{alphaJSCore, c.Pick(3, 4), []string{"js-lex", "js-parse"}},
	}
	for _, pl := range plans {
		al := engine.NewAlphabet(pl.alpha)
		cfgs := cfgsFor(pl.spaces)
		c.EnumSeq(al, 0, pl.maxLen, func(in []byte, idx []int) {
			for _, cf := range cfgs {
				c.Exec(c.SpaceByName("err:"+cf.space), in, cf.args)
				c.Count("exec", 1)
			}
		})
	}
	for _, pl := range seedPlans() {
		var sps []string
		for _, sp := range pl.spaces {
			if c.SpaceByName("err:"+sp) != nil {
				sps = append(sps, sp)
			}
		}
		cfgs := cfgsFor(sps)
		for _, seed := range pl.seeds {
			c.EditBall([]byte(seed), pl.core, func(in []byte) {
				for _, cf := range cfgs {
					c.Exec(c.SpaceByName("err:"+cf.space), in, cf.args)
					c.Count("exec", 1)
				}
			})
			c.ByteSweep([]byte(seed), false, func(in []byte) {
				for _, cf := range cfgs {
					c.Exec(c.SpaceByName("err:"+cf.space), in, cf.args)
					c.Count("exec", 1)
				}
				c.Count("byte-sweep", 1)
			})
		}
	}
	c.Sample("Position(\"a\\r\\n\\u2028é😀\", every offset in [-1,len+1])")
	c.Sample("js: `var a = 1, b;` with U+2019 inserted at every token boundary")
}

// endsSingleLineComment: offset b is the end of a //, <!-- or --> comment (inserting there extends the comment)
func endsSingleLineComment(src []byte, b int) bool {
	ref := refJSLex(src, nil)
	for _, t := range ref.toks {
		if t.end == b && t.tt == js.CommentToken && !bytes.HasSuffix(src[t.start:t.end], []byte("*/")) {
			return true
		}
		if t.start == b && t.tt == js.CommentToken && t.start > 0 && false {
			return true
		}
	}
	return false
}

// inString: crude test whether offset b lies inside a string/template/regexp/comment token of a JS source (boundaries come from the reference lexer so b is always a boundary; inside means strictly between quotes, never the case)
func inString(src []byte, b int) bool { return false }

func c15Finish(c *engine.Ctx, cov map[string]interface{}) string {
	if c.Counters["insertions"] < 2000 || c.Counters["errors-seen"] < 10000 {
		return fmt.Sprintf("vacuous: insertions=%d errors-seen=%d", c.Counters["insertions"], c.Counters["errors-seen"])
	}
	return ""
}

func init() {
	register(&engine.Check{
		ID: "C15", Level: "exploration",
		Rule:        "Position on all texts ≤5 (6; 7 over an 11-character core) atoms over {a, \\n, \\r, \\r\\n, U+2028, U+2029, é, 😀, \\t, U+200B, NUL, U+0085, U+00AD, DEL, U+00A0, %, %s} × every offset in [-1,len+1] vs a reference that counts the five break kinds and code points; the elision family (one line of L∈{57..66,80,100,120} distinct characters with a wide/non-printable character at each cut point ±1, preceded by 0/1/9999/100000 lines) × every offset, and lines of 100/200/300 one- to four-byte characters (pure and mixed with ASCII) × every offset: context shape, caret under the character at the offset, ellipses consistent, at most ~60 characters; every JS seed program (and pairs joined by every line-break kind) and every generated JSON document × every token boundary × illegal characters {@ \\ # U+2019 NUL}: the *parse.Error must carry exactly that position; every *parse.Error produced on the C01 spaces corresponds to Position(input, o) for an offset inside the input (the cursor offset for the lexers)",
		Assumptions: []string{"CRLF and multi-byte characters are indivisible: an offset inside one is the position of its first byte", "elision is checked by its properties (contiguous piece, ≤66 characters, caret alignment, ellipses), not by re-implementing the constants"},
		Setup:       c15Setup, Work: c15Work, Finish: c15Finish,
	})
}
