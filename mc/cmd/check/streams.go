package main

// Shared adapters: every token/grammar source of the library behind one
// interface, plus the alphabets of DESIGN.md §2.

import (
	"strings"
	"unsafe"

	"verifmc/engine"

	parse "github.com/tdewolff/parse/v2"
	"github.com/tdewolff/parse/v2/css"
	"github.com/tdewolff/parse/v2/html"
	"github.com/tdewolff/parse/v2/js"
	"github.com/tdewolff/parse/v2/json"
	"github.com/tdewolff/parse/v2/xml"
)

// stream is a uniform view of a lexer/parser driven by Next().
type stream struct {
	in     *parse.Input
	next   func() (tt int, data []byte) // tt == 0 is the error token/grammar
	err    func() error
	off    func() int
	extras func() [][]byte // further slices handed out with the last token
	ttName func(int) string
	// typed handles for checks that need more than the uniform view
	cssL  *css.Lexer
	cssP  *css.Parser
	htmlL *html.Lexer
	xmlL  *xml.Lexer
	jsonP *json.Parser
	jsL   *js.Lexer
}

var htmlDialects = map[string][2]string{
	"":           {"", ""},
	"go":         html.GoTemplate,
	"handlebars": html.HandlebarsTemplate,
	"mustache":   html.MustacheTemplate,
	"ejs":        html.EJSTemplate,
	"asp":        html.ASPTemplate,
	"php":        html.PHPTemplate,
}

var htmlDialectOrder = []string{"", "go", "handlebars", "mustache", "ejs", "asp", "php"}

// openStream builds the source named by space/args over in (which must have
// spare capacity so that the terminator lies outside the caller's bytes).
func openStream(space string, args map[string]string, in []byte) *stream {
	z := parse.NewInputBytes(in)
	s := &stream{in: z}
	s.off = z.Offset
	switch space {
	case "css-lex":
		l := css.NewLexer(z)
		s.cssL = l
		s.next = func() (int, []byte) { tt, d := l.Next(); return int(tt), d }
		s.err = l.Err
		s.ttName = func(t int) string { return css.TokenType(t).String() }
	case "css-parse":
		p := css.NewParser(z, args["inline"] == "1")
		s.cssP = p
		s.next = func() (int, []byte) { gt, _, d := p.Next(); return int(gt), d }
		s.err = p.Err
		s.off = p.Offset
		s.extras = func() [][]byte {
			vs := p.Values()
			r := make([][]byte, len(vs))
			for i, v := range vs {
				r[i] = v.Data
			}
			return r
		}
		s.ttName = func(t int) string { return css.GrammarType(t).String() }
	case "html-lex":
		var l *html.Lexer
		if d := args["tmpl"]; d == "" {
			l = html.NewLexer(z)
		} else {
			l = html.NewTemplateLexer(z, htmlDialects[d])
		}
		s.htmlL = l
		s.next = func() (int, []byte) { tt, d := l.Next(); return int(tt), d }
		s.err = l.Err
		s.extras = func() [][]byte { return [][]byte{l.Text(), l.AttrKey(), l.AttrVal()} }
		s.ttName = func(t int) string { return html.TokenType(t).String() }
	case "xml-lex":
		l := xml.NewLexer(z)
		s.xmlL = l
		s.next = func() (int, []byte) { tt, d := l.Next(); return int(tt), d }
		s.err = l.Err
		s.extras = func() [][]byte { return [][]byte{l.Text(), l.AttrVal()} }
		s.ttName = func(t int) string { return xml.TokenType(t).String() }
	case "json-parse":
		p := json.NewParser(z)
		s.jsonP = p
		s.next = func() (int, []byte) { gt, d := p.Next(); return int(gt), d }
		s.err = p.Err
		s.ttName = func(t int) string { return json.GrammarType(t).String() }
	case "js-lex":
		l := js.NewLexer(z)
		s.jsL = l
		re := args["regexp"] == "1"
		s.next = func() (int, []byte) {
			tt, d := l.Next()
			if re && (tt == js.DivToken || tt == js.DivEqToken) {
				tt, d = l.RegExp()
			}
			return int(tt), d
		}
		s.err = l.Err
		s.ttName = func(t int) string { return js.TokenType(t).String() }
	default:
		panic("unknown stream space " + space)
	}
	return s
}

// inside reports whether sl aliases arr[0:n] (n = logical input length).
// Empty slices are always fine.
func aliasOffset(arr []byte, sl []byte) (off int, aliases bool) {
	if len(sl) == 0 || cap(arr) == 0 {
		return 0, false
	}
	base := uintptr(unsafe.Pointer(unsafe.SliceData(arr)))
	p := uintptr(unsafe.Pointer(unsafe.SliceData(sl)))
	if p < base || p >= base+uintptr(cap(arr)) {
		return 0, false
	}
	return int(p - base), true
}

func lowerASCII(b []byte) string {
	return strings.ToLower(string(b)) // only used on ASCII-relevant comparisons
}

func asciiLower(b []byte) []byte {
	r := make([]byte, len(b))
	for i, c := range b {
		if 'A' <= c && c <= 'Z' {
			c += 'a' - 'A'
		}
		r[i] = c
	}
	return r
}

// ---- alphabets (DESIGN.md §2) ----

var alphaCSS = engine.Atoms(" ", "\t", "\n", "\r", "\f", "\v", ":", ";", ",", "(", ")", "[", "]", "{", "}", "#", "\"", "'", ".",
	"+", "-", "@", "$", "*", "^", "~", "/", "<", "!", ">", "\\", "|", "=", "?", "%", "_", "\x00", "\x1f", "\x7f",
	"0", "1", "9", "a", "f", "A", "F", "g", "e", "E", "u", "U", "r", "l", "R", "L",
	"\x80", "é", "\u2028", "😀", "\xc3", "\xe2", "\xf0", "\ufeff")

// core alphabet: the bytes that steer multi-byte look-ahead, for one more level
var alphaCSSCore = engine.Atoms(" ", "\n", "\v", ":", ";", ",", "(", ")", "[", "]", "{", "}", "#", "\"", "'", ".",
	"+", "-", "@", "*", "/", "<", "!", ">", "\\", "|", "=", "%", "\x00", "1", "a", "e", "u", "r", "l", "é")

var alphaJS = engine.Atoms(
	" ", "\t", "\v", "\f", "\n", "\r", "\x00", "!", "\"", "#", "$", "%", "&", "'", "(", ")", "*", "+", ",", "-", ".", "/",
	":", ";", "<", "=", ">", "?", "@", "[", "\\", "]", "^", "_", "`", "{", "|", "}", "~",
	"0", "1", "7", "8", "9", "a", "b", "e", "E", "n", "o", "x", "X", "u", "f",
	"é", "\u00a0", "\ufeff", "\u2028", "\u2029", "\u200c", "😀", "\xc3", "\xe2", "\xf0", "\u00b7", "\u0301",
	"let", "var", "const", "function", "async", "await", "yield", "class", "static", "get", "set", "new", "in", "of",
	"if", "else", "for", "while", "do", "return", "import", "export", "from", "as", "default", "extends", "super", "this",
	"typeof", "delete", "void", "=>", "...", "?.", "??", "**", "++", "--", "${", "//", "/*", "*/", "<!--", "-->", "#!")

var alphaJSCore = engine.Atoms(
	" ", "\n", "\x00", "!", "\"", "#", "(", ")", "*", "+", ",", "-", ".", "/", ":", ";", "<", "=", ">", "?", "[", "\\", "]",
	"`", "{", "}", "~", "0", "1", "a", "e", "n", "x", "é", "\u2028",
	"let", "function", "async", "class", "=>", "${", "in", "of", "for", "new")

var alphaHTML = engine.Atoms("<", ">", "/", "!", "?", "=", "\"", "'", "-", "[", "]", " ", "\t", "\n", "\r", "\f", "\x00",
	"a", "A", "z", "0", "script", "SCRIPT", "style", "title", "textarea", "xmp", "iframe", "plaintext", "svg", "math", "xml",
	"<!--", "-->", "--!>", "<![CDATA[", "]]>", "doctype", "DOCTYPE", "</", "{{", "}}", "<%", "%>", "<?", "?>", "\\", "é")

var alphaHTMLCore = engine.Atoms("<", ">", "/", "!", "=", "\"", "'", "-", " ", "\x00", "a", "script", "svg", "<!--", "-->",
	"</", "{{", "}}", "<?", "?>", "\\", "title", "plaintext", "SCRIPT")

var alphaXML = engine.Atoms("<", ">", "/", "?", "!", "=", "\"", "'", "-", "[", "]", " ", "\t", "\n", "\r", "\x00", "\f", "\x01", "a", ":",
	"&", ";", "<!--", "-->", "<![CDATA[", "]]>", "<!DOCTYPE", "<?", "?>", "/>", "é", "\xc3")

var alphaJSON = engine.Atoms("{", "}", "[", "]", ",", ":", "\"", "\\", "/", "-", "+", ".", "0", "1", "9", "e", "E", "a", "u", "t",
	" ", "\n", "\x00", "true", "false", "null", "\\\"", "\\\\", "\\u00e9", "é")
