package main

// C03 generator, part 1: expression trees with the expected String() form by
// construction. The renderer below is the trusted piece: it transcribes the
// String() layout of js/ast.go and the precedence/associativity table of
// ECMA-262 §13 (independently of js/parse.go).

import (
	"strings"
)

type exKind int

const (
	kLeaf       exKind = iota
	kPrefix            // ! ~ + - typeof void delete await
	kPreUpdate         // ++x --x
	kPostUpdate        // x++ x--
	kBinary            // all binary operators incl. in/instanceof/??
	kAssign            // = += …
	kCond
	kComma
	kDot
	kOptDot
	kIndex
	kOptIndex
	kCall
	kOptCall
	kNew     // new X
	kNewArgs // new X(arg)
	kTag     // X`t`
	kArrow   // p => body
	kYield   // yield X
	kYieldStar
)

type ex struct {
	kind exKind
	op   string
	kids []*ex
	src  string // leaves
	exp  string // leaves
	num  bool   // numeric literal leaf
	obj  bool   // leaf starting with { or function/class (needs care at statement start / arrow body)
	lhs  bool   // leaf that is a valid assignment target
}

var binLevel = map[string]int{
	"??": 4, "||": 5, "&&": 6, "|": 7, "^": 8, "&": 9,
	"==": 10, "!=": 10, "===": 10, "!==": 10,
	"<": 11, ">": 11, "<=": 11, ">=": 11, "instanceof": 11, "in": 11,
	"<<": 12, ">>": 12, ">>>": 12, "+": 13, "-": 13, "*": 14, "/": 14, "%": 14, "**": 15,
}

var binOps = []string{"??", "||", "&&", "|", "^", "&", "==", "!=", "===", "!==", "<", ">", "<=", ">=", "instanceof", "in", "<<", ">>", ">>>", "+", "-", "*", "/", "%", "**"}
var assignOps = []string{"=", "+=", "-=", "*=", "/=", "%=", "**=", "<<=", ">>=", ">>>=", "&=", "^=", "|=", "&&=", "||=", "??="}
var prefixOps = []string{"!", "~", "+", "-", "typeof", "void", "delete", "await"}

func (e *ex) level() float64 {
	switch e.kind {
	case kLeaf:
		return 20
	case kDot, kIndex, kNewArgs, kTag:
		return 19
	case kCall, kOptCall, kOptDot, kOptIndex:
		return 18
	case kNew:
		return 17.5
	case kPreUpdate, kPostUpdate:
		return 17
	case kPrefix:
		return 16
	case kBinary:
		return float64(binLevel[e.op])
	case kCond:
		return 3
	case kAssign, kArrow, kYield, kYieldStar:
		return 2
	case kComma:
		return 1
	}
	return 0
}

func (e *ex) isLHS() bool {
	return e.kind == kLeaf && e.lhs || e.kind == kDot || e.kind == kIndex
}

// valid reports whether the tree respects the grammar's operand restrictions that parentheses cannot repair.
func (e *ex) valid() bool {
	if e.kind == kArrow && e.kids[0].hasYieldOrAwait() {
		return false // arrow bodies do not inherit [Yield]/[Await]
	}
	switch e.kind {
	case kAssign, kPreUpdate, kPostUpdate:
		if !e.kids[0].isLHS() {
			return false
		}
	}
	for _, k := range e.kids {
		if !k.valid() {
			return false
		}
	}
	return true
}

func isWord(op string) bool { return op[0] >= 'a' && op[0] <= 'z' }

// needParens: does kid i of e need parentheses (minimal spelling)?
func (e *ex) needParens(i int) bool {
	c := e.kids[i]
	l := c.level()
	switch e.kind {
	case kPrefix:
		return l < 16
	case kPreUpdate, kPostUpdate:
		return false
	case kBinary:
		L := float64(binLevel[e.op])
		switch e.op {
		case "**":
			if i == 0 {
				return l < 17
			}
			return l < 15
		case "??":
			if c.kind == kBinary && (c.op == "||" || c.op == "&&") {
				return true
			}
			if i == 0 {
				return l < 4
			}
			return l <= 4
		}
		if i == 0 {
			return l < L
		}
		return l <= L
	case kAssign:
		if i == 0 {
			return false
		}
		return l < 2
	case kCond:
		if i == 0 {
			return l <= 3
		}
		return l < 2
	case kComma:
		return l < 2
	case kDot, kOptDot, kIndex, kOptIndex, kCall, kOptCall, kTag:
		if i > 0 {
			if e.kind == kIndex || e.kind == kOptIndex {
				return false // Expression
			}
			return l < 2 // arguments are AssignmentExpressions
		}
		if (e.kind == kDot || e.kind == kOptDot) && c.kind == kLeaf && c.num {
			return true
		}
		if e.kind == kTag && (c.kind == kOptDot || c.kind == kOptIndex || c.kind == kOptCall) {
			return true
		}
		return l < 18
	case kNew:
		if c.kind == kNew {
			return false
		}
		return l < 19 || callInSpine(c)
	case kNewArgs:
		if i > 0 {
			return l < 2
		}
		return l < 19 || callInSpine(c)
	case kArrow:
		return l < 2 || c.kind == kLeaf && c.obj && strings.HasPrefix(c.src, "{")
	case kYield, kYieldStar:
		return l < 2
	}
	return false
}

// callInSpine: the operand of new is a MemberExpression; a call or optional chain anywhere along its
// unparenthesised left spine would take the arguments for itself (new a(b).p is (new a(b)).p).
func callInSpine(c *ex) bool {
	for c.kind == kDot || c.kind == kIndex || c.kind == kTag {
		if c.needParens(0) {
			return false
		}
		c = c.kids[0]
	}
	return c.kind == kCall || c.kind == kOptCall || c.kind == kOptDot || c.kind == kOptIndex
}

// leftmost token text of the rendered source (for spacing and statement-start decisions)
func firstByte(s string) byte {
	if s == "" {
		return 0
	}
	return s[0]
}

// render returns source and expected String(). mode: 0 minimal parentheses, 1 parentheses around every
// non-leaf operand where that keeps the meaning, 2 minimal plus one redundant pair around node `extra`.
func (e *ex) render(mode int, extra *ex) (string, string) {
	if e.kind == kLeaf {
		return e.src, e.exp
	}
	ks := make([]string, len(e.kids))
	xs := make([]string, len(e.kids))
	for i, c := range e.kids {
		s, x := c.render(mode, extra)
		paren := e.needParens(i)
		if mode == 1 && c.kind != kLeaf && !(i == 0 && (e.kind == kAssign || e.kind == kPreUpdate || e.kind == kPostUpdate)) {
			paren = true
		}
		if mode == 2 && c == extra && !(i == 0 && (e.kind == kAssign || e.kind == kPreUpdate || e.kind == kPostUpdate)) {
			if paren {
				s, x = "("+s+")", "("+x+")" // a second, redundant pair
			}
			paren = true
		}
		if paren {
			s, x = "("+s+")", "("+x+")"
		}
		ks[i], xs[i] = s, x
	}
	switch e.kind {
	case kPrefix:
		sp := ""
		if isWord(e.op) || (e.op == "+" || e.op == "-") && firstByte(ks[0]) == e.op[0] {
			sp = " "
		}
		if isWord(e.op) {
			return e.op + sp + ks[0], "(" + e.op + " " + xs[0] + ")"
		}
		return e.op + sp + ks[0], "(" + e.op + xs[0] + ")"
	case kPreUpdate:
		return e.op + ks[0], "(" + e.op + xs[0] + ")"
	case kPostUpdate:
		return ks[0] + e.op, "(" + xs[0] + e.op + ")"
	case kBinary, kAssign:
		l, r := ks[0], ks[1]
		op := e.op
		if isWord(op) {
			return l + " " + op + " " + r, "(" + xs[0] + " " + op + " " + xs[1] + ")"
		}
		// avoid gluing operators: a+ +b, a- -b, a++ +b, a/ /r/
		if (op == "+" || op == "-") && firstByte(r) == op[0] || op == "/" && firstByte(r) == '/' || op == "<" && strings.HasPrefix(r, "!--") {
			r = " " + r
		}
		if strings.HasSuffix(l, "+") && op[0] == '+' || strings.HasSuffix(l, "-") && op[0] == '-' || strings.HasSuffix(l, "/") && (op[0] == '/' || op[0] == '*') {
			l += " " // a++ +b, a-- -b, /r/ /b and /r/ *b must not glue into ++, --, a line comment or a block comment
		}
		return l + op + r, "(" + xs[0] + op + xs[1] + ")"
	case kCond:
		return ks[0] + "?" + ks[1] + ":" + ks[2], "(" + xs[0] + " ? " + xs[1] + " : " + xs[2] + ")"
	case kComma:
		return strings.Join(ks, ","), "(" + strings.Join(xs, ",") + ")"
	case kDot:
		return ks[0] + "." + e.op, "(" + xs[0] + "." + e.op + ")"
	case kOptDot:
		return ks[0] + "?." + e.op, "(" + xs[0] + "?." + e.op + ")"
	case kIndex:
		return ks[0] + "[" + ks[1] + "]", "(" + xs[0] + "[" + xs[1] + "])"
	case kOptIndex:
		return ks[0] + "?.[" + ks[1] + "]", "(" + xs[0] + "?.[" + xs[1] + "])"
	case kCall:
		return ks[0] + "(" + strings.Join(ks[1:], ",") + ")", "(" + xs[0] + "(" + strings.Join(xs[1:], ", ") + "))"
	case kOptCall:
		return ks[0] + "?.(" + strings.Join(ks[1:], ",") + ")", "(" + xs[0] + "?.(" + strings.Join(xs[1:], ", ") + "))"
	case kNew:
		return "new " + ks[0], "(new " + xs[0] + ")"
	case kNewArgs:
		return "new " + ks[0] + "(" + strings.Join(ks[1:], ",") + ")", "(new " + xs[0] + "(" + strings.Join(xs[1:], ", ") + "))"
	case kTag:
		return ks[0] + "`t`", xs[0] + "`t`"
	case kArrow:
		return e.op + "=>" + ks[0], "(Params(Binding(" + e.op + ")) => Stmt({ Stmt(return " + xs[0] + ") }))"
	case kYield:
		return "yield " + ks[0], "(yield " + xs[0] + ")"
	case kYieldStar:
		return "yield*" + ks[0], "(yield* " + xs[0] + ")"
	}
	return "", ""
}

func (e *ex) hasYield() bool {
	if e.kind == kYield || e.kind == kYieldStar {
		return true
	}
	for _, k := range e.kids {
		if k.hasYield() {
			return true
		}
	}
	return false
}

func (e *ex) hasYieldOrAwait() bool {
	if e.kind == kYield || e.kind == kYieldStar || e.kind == kPrefix && e.op == "await" {
		return true
	}
	for _, k := range e.kids {
		if k.hasYieldOrAwait() {
			return true
		}
	}
	return false
}

func (e *ex) hasAwait() bool {
	if e.kind == kPrefix && e.op == "await" {
		return true
	}
	for _, k := range e.kids {
		if k.hasAwait() {
			return true
		}
	}
	return false
}

func (e *ex) nodes(out *[]*ex) {
	if e.kind != kLeaf {
		*out = append(*out, e)
	}
	for _, k := range e.kids {
		k.nodes(out)
	}
}

// program wraps an expression into a statement context and returns source and expected AST.String().
func exprProgram(src, exp string, yield bool) (string, string) {
	if yield {
		return "function*g(){[" + src + "];}", "Decl(function* g Params() Stmt({ Stmt([" + exp + "]) }))"
	}
	return "[" + src + "];", "Stmt([" + exp + "])"
}

// ---- enumeration ----

type opSpec struct {
	kind  exKind
	op    string
	arity int
}

func allOpSpecs() []opSpec {
	var r []opSpec
	for _, o := range prefixOps {
		r = append(r, opSpec{kPrefix, o, 1})
	}
	r = append(r, opSpec{kPreUpdate, "++", 1}, opSpec{kPreUpdate, "--", 1}, opSpec{kPostUpdate, "++", 1}, opSpec{kPostUpdate, "--", 1})
	for _, o := range binOps {
		r = append(r, opSpec{kBinary, o, 2})
	}
	for _, o := range assignOps {
		r = append(r, opSpec{kAssign, o, 2})
	}
	r = append(r, opSpec{kCond, "?:", 3}, opSpec{kComma, ",", 2}, opSpec{kComma, ",", 3},
		opSpec{kDot, "p", 1}, opSpec{kOptDot, "p", 1}, opSpec{kDot, "new", 1}, opSpec{kOptDot, "class", 1}, opSpec{kOptDot, "in", 1}, opSpec{kIndex, "[]", 2}, opSpec{kOptIndex, "?.[]", 2},
		opSpec{kCall, "()", 2}, opSpec{kCall, "()", 3}, opSpec{kOptCall, "?.()", 2}, opSpec{kNew, "new", 1}, opSpec{kNewArgs, "new()", 2}, opSpec{kTag, "`t`", 1},
		opSpec{kArrow, "q", 1}, opSpec{kYield, "yield", 1}, opSpec{kYieldStar, "yield*", 1})
	return r
}

func binarySpecs() []opSpec {
	var r []opSpec
	for _, o := range binOps {
		r = append(r, opSpec{kBinary, o, 2})
	}
	return r
}

var exLeafNames = []string{"a", "b", "c", "d", "e", "f", "g", "h"}

// enumTrees calls f for every tree with exactly n operator nodes over specs; leaves are fresh identifiers.
func enumTrees(specs []opSpec, n int, f func(*ex)) {
	var build func(n int, done func(*ex))
	build = func(n int, done func(*ex)) {
		if n == 0 {
			done(nil) // placeholder: a leaf, filled in later
			return
		}
		for _, sp := range specs {
			// distribute n-1 operators over the kids
			var dist func(k int, left int, kids []*ex)
			dist = func(k int, left int, kids []*ex) {
				if k == sp.arity {
					if left == 0 {
						done(&ex{kind: sp.kind, op: sp.op, kids: append([]*ex{}, kids...)})
					}
					return
				}
				for m := 0; m <= left; m++ {
					build(m, func(sub *ex) {
						dist(k+1, left-m, append(kids, sub))
					})
				}
			}
			dist(0, n-1, nil)
		}
	}
	build(n, func(t *ex) {
		// deep copy with fresh leaves
		i := 0
		var cp func(e *ex) *ex
		cp = func(e *ex) *ex {
			if e == nil {
				nm := exLeafNames[i%len(exLeafNames)]
				i++
				return &ex{kind: kLeaf, src: nm, exp: nm, lhs: true}
			}
			n := &ex{kind: e.kind, op: e.op}
			for _, k := range e.kids {
				n.kids = append(n.kids, cp(k))
			}
			return n
		}
		c := cp(t)
		if c.valid() {
			f(c)
		}
	})
}

var exLeafPool = []*ex{
	{kind: kLeaf, src: "a", exp: "a", lhs: true}, {kind: kLeaf, src: "1", exp: "1", num: true}, {kind: kLeaf, src: "\"s\"", exp: "\"s\""}, {kind: kLeaf, src: "/r/", exp: "/r/"},
	{kind: kLeaf, src: "`t`", exp: "`t`"}, {kind: kLeaf, src: "this", exp: "this"}, {kind: kLeaf, src: "{}", exp: "{}", obj: true}, {kind: kLeaf, src: "[]", exp: "[]"},
	{kind: kLeaf, src: "function(){}", exp: "Decl(function Params() Stmt({ }))", obj: true}, {kind: kLeaf, src: "class{}", exp: "Decl(class)", obj: true},
	{kind: kLeaf, src: "1.5", exp: "1.5", num: true}, {kind: kLeaf, src: "null", exp: "null"}, {kind: kLeaf, src: "async", exp: "async", lhs: true}, {kind: kLeaf, src: "of", exp: "of", lhs: true},
}
