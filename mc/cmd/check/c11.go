package main

// C11 — XML lexer tokenises well-formed XML like a conforming XML reader.

import (
	"bytes"
	stdxml "encoding/xml"
	"fmt"
	"io"
	"strings"
	"unicode/utf8"

	"verifmc/engine"

	parse "github.com/tdewolff/parse/v2"
	"github.com/tdewolff/parse/v2/xml"
)

type xTok struct {
	tt   xml.TokenType
	data string // whole token text (after the documented normalisation)
	text string
	val  string
}

func (t xTok) String() string {
	return fmt.Sprintf("%s(%q text=%q val=%q)", t.tt, t.data, t.text, t.val)
}

func xmlNorm(s string) string {
	return strings.Map(func(r rune) rune {
		if r == '\t' || r == '\n' || r == '\r' {
			return ' '
		}
		return r
	}, s)
}

func xmlLexAll(src []byte) ([]xTok, error) {
	in := append(make([]byte, 0, len(src)+1), src...)
	l := xml.NewLexer(parse.NewInputBytes(in))
	var r []xTok
	for i := 0; i < 4*len(src)+8; i++ {
		tt, d := l.Next()
		if tt == xml.ErrorToken {
			return r, l.Err()
		}
		t := xTok{tt: tt, data: string(d), text: string(l.Text())}
		if tt == xml.AttributeToken {
			t.val = string(l.AttrVal())
		}
		r = append(r, t)
	}
	return r, fmt.Errorf("no end")
}

// ---- construct grammar with expected tokens ----

type xCons struct {
	src  string
	toks []xTok
}

func xAttr(lead, name, eq, val string) xTok {
	if val == "" && eq == "" {
		return xTok{tt: xml.AttributeToken, data: lead + name, text: name}
	}
	// quoted values are normalised in place (tab/newline → space), also inside the token data
	nv := val
	if len(val) > 0 && (val[0] == '"' || val[0] == '\'') {
		nv = xmlNorm(val)
	}
	return xTok{tt: xml.AttributeToken, data: lead + name + eq + nv, text: name, val: nv}
}

type xAttrSpec struct{ name, val string }

// element start with attributes and a whitespace plan
func xStart(name string, attrs []xAttrSpec, ws [4]string, closer string) xCons {
	// ws: [0] before each attribute, [1] before '=', [2] after '=', [3] before the closer
	c := xCons{}
	c.src = "<" + name
	c.toks = append(c.toks, xTok{tt: xml.StartTagToken, data: "<" + name, text: name})
	for _, a := range attrs {
		lead := ws[0]
		if lead == "" {
			lead = " "
		}
		eq := ws[1] + "=" + ws[2]
		c.src += lead + a.name + eq + a.val
		c.toks = append(c.toks, xAttr(lead, a.name, eq, a.val))
	}
	c.src += ws[3] + closer
	tt := xml.StartTagCloseToken
	if closer == "/>" {
		tt = xml.StartTagCloseVoidToken
	}
	c.toks = append(c.toks, xTok{tt: tt, data: closer})
	return c
}

func xSimple(tt xml.TokenType, src, text string) xCons {
	return xCons{src, []xTok{{tt: tt, data: src, text: text}}}
}

func xPI(target string, attrs []xAttrSpec) xCons {
	c := xCons{src: "<?" + target}
	c.toks = append(c.toks, xTok{tt: xml.StartTagPIToken, data: "<?" + target, text: target})
	for _, a := range attrs {
		if a.val == "" {
			c.src += " " + a.name
			c.toks = append(c.toks, xAttr(" ", a.name, "", ""))
		} else {
			c.src += " " + a.name + "=" + a.val
			c.toks = append(c.toks, xAttr(" ", a.name, "=", a.val))
		}
	}
	c.src += "?>"
	c.toks = append(c.toks, xTok{tt: xml.StartTagClosePIToken, data: "?>"})
	return c
}

var xAttrPool = []xAttrSpec{
	{"b", `"c"`}, {"b", `'c'`}, {"b", `"c'd"`}, {"b", `'c"d'`}, {"b", `"i>j"`}, {"b", `'l/m?n'`}, {"b", `"/>"`}, {"b", `'?>'`}, {"b", "\"c\td\ne\rf\""},
	{"x:y", `"z"`}, {"b", `""`}, {"b", `"a=b"`}, {"b", `"<"`}, {"b-c.d_e", `"1"`}, {"voilà", `"à"`}, {"Århus", `'丅'`},
}

func xChildPool() []xCons {
	var p []xCons
	p = append(p, xSimple(xml.TextToken, "g", "g"), xSimple(xml.TextToken, " t x ", " t x "), xSimple(xml.TextToken, "a]]>b", "a]]>b"),
		xSimple(xml.CommentToken, "<!-- h -->", " h "), xSimple(xml.CommentToken, "<!---->", ""), xSimple(xml.CommentToken, "<!-- a - b -> c -->", " a - b -> c "), xSimple(xml.CommentToken, "<!-- <a> -->", " <a> "),
		xSimple(xml.CDATAToken, "<![CDATA[i]]>", "i"), xSimple(xml.CDATAToken, "<![CDATA[]]>", ""), xSimple(xml.CDATAToken, "<![CDATA[b]]c]>d]]]>", "b]]c]>d]"), xSimple(xml.CDATAToken, "<![CDATA[<a>&]]>", "<a>&"),
		xSimple(xml.CDATAToken, "<![CDATA[x]]]]>", "x]]"), xSimple(xml.CDATAToken, "<![CDATA[]]]>", "]"),
		xPI("p", nil), xPI("p", []xAttrSpec{{"q", ""}}), xPI("p", []xAttrSpec{{"d", `'f'`}}), xPI("xml-stylesheet", []xAttrSpec{{"href", `"a?b>c"`}}), xPI("php", []xAttrSpec{{"echo", ""}, {"1", ""}, {">", ""}, {"0;", ""}}))
	for _, a := range xAttrPool {
		p = append(p, xStart("f", []xAttrSpec{a}, [4]string{}, "/>"))
	}
	// names with letters whose UTF-8 encoding has the continuation bytes 0x85 and 0xA0 (white space in Latin-1 and Unicode)
	for _, n := range []string{"voilà", "Århus", "丅", "naïve", "π"} {
		p = append(p, xStart(n, nil, [4]string{}, "/>"), xConcat(xStart(n, []xAttrSpec{{"id", `"7"`}}, [4]string{}, ">"), xEnd(n, "")))
	}
	p = append(p, xStart("f", nil, [4]string{}, "/>"), xStart("f", []xAttrSpec{xAttrPool[0], {"d", `'e'`}}, [4]string{}, "/>"),
		xStart("f", []xAttrSpec{xAttrPool[4], {"d", `"x"`}, {"e", `'/>'`}}, [4]string{}, "/>"))
	return p
}

func xEnd(name, ws string) xCons {
	return xCons{"</" + name + ws + ">", []xTok{{tt: xml.EndTagToken, data: "</" + name + ws + ">", text: name}}}
}

func xConcat(cs ...xCons) xCons {
	var r xCons
	for _, c := range cs {
		r.src += c.src
		r.toks = append(r.toks, c.toks...)
	}
	return r
}

var xProlog = []xCons{
	{},
	xPI("xml", []xAttrSpec{{"version", `"1.0"`}}),
	xConcat(xPI("xml", []xAttrSpec{{"version", `"1.0"`}, {"encoding", `'UTF-8'`}}), xSimple(xml.TextToken, "\n", "\n")),
	xSimple(xml.DOCTYPEToken, "<!DOCTYPE a>", " a"),
	xSimple(xml.DOCTYPEToken, `<!DOCTYPE a SYSTEM "b>c">`, ` a SYSTEM "b>c"`),
	xSimple(xml.DOCTYPEToken, `<!DOCTYPE a [<!ENTITY b "c>d"><!ELEMENT e (f)>]>`, ` a [<!ENTITY b "c>d"><!ELEMENT e (f)>]`),
	xSimple(xml.DOCTYPEToken, `<!DOCTYPE a [ <!-- x --> ]>`, ` a [ <!-- x --> ]`),
	xConcat(xPI("xml", []xAttrSpec{{"version", `"1.0"`}}), xSimple(xml.DOCTYPEToken, `<!DOCTYPE a PUBLIC "p" "s" [<!ATTLIST e f CDATA "]>">]>`, ` a PUBLIC "p" "s" [<!ATTLIST e f CDATA "]>">]`), xSimple(xml.CommentToken, "<!--c-->", "c")),
}

// ---- oracles ----

func c11Gen(c *engine.Ctx, in []byte, args map[string]string) {
	// input: the document; args["exp"]: expected tokens rendered
	got, err := xmlLexAll(in)
	var gs []string
	for _, t := range got {
		gs = append(gs, t.String())
	}
	g := strings.Join(gs, " ")
	if g != args["exp"] || err != io.EOF {
		c.Fail("construct-tokens", fmt.Sprintf("document %q lexes as\n      %s (err=%v)\n want %s", in, g, err, args["exp"]))
		return
	}
	c11VsEncodingXML(c, in, got)
}

// names and attribute values vs encoding/xml RawToken
func c11VsEncodingXML(c *engine.Ctx, in []byte, got []xTok) {
	var want []string
	d := stdxml.NewDecoder(bytes.NewReader(in))
	d.Strict = false
	for {
		t, err := d.RawToken()
		if err != nil {
			if err != io.EOF {
				c.Count("encoding-xml-rejects", 1)
				return
			}
			break
		}
		qn := func(n stdxml.Name) string {
			if n.Space != "" {
				return n.Space + ":" + n.Local
			}
			return n.Local
		}
		switch e := t.(type) {
		case stdxml.StartElement:
			want = append(want, "start:"+qn(e.Name))
			for _, a := range e.Attr {
				want = append(want, "attr:"+qn(a.Name)+"="+xmlNorm(a.Value))
			}
		case stdxml.EndElement:
			want = append(want, "end:"+qn(e.Name))
		}
	}
	var have []string
	open := ""
	inPI := false
	for _, t := range got {
		switch t.tt {
		case xml.StartTagToken:
			have = append(have, "start:"+t.text)
			open = t.text
		case xml.StartTagPIToken:
			inPI = true
		case xml.StartTagClosePIToken:
			inPI = false
		case xml.AttributeToken:
			if inPI {
				continue
			}
			v := t.val
			if len(v) >= 2 && (v[0] == '"' || v[0] == '\'') {
				v = v[1 : len(v)-1]
			}
			if strings.Contains(v, "&") {
				v = "&"
			}
			have = append(have, "attr:"+t.text+"="+v)
		case xml.StartTagCloseVoidToken:
			have = append(have, "end:"+open)
		case xml.EndTagToken:
			have = append(have, "end:"+t.text)
		}
	}
	for i := range want {
		if strings.HasPrefix(want[i], "attr:") && strings.Contains(want[i], "&") {
			want[i] = want[i][:strings.Index(want[i], "=")+1] + "&"
		}
	}
	c.Count("encoding-xml-compared", 1)
	if strings.Join(have, " ") != strings.Join(want, " ") {
		c.Fail("vs-encoding-xml", fmt.Sprintf("document %q: lexer gives %v, encoding/xml gives %v", in, have, want))
	}
}

// c11Strict: whatever encoding/xml accepts in strict mode as a complete sequence of well-formed constructs must lex to
// the same events (element names, attributes with normalised values, text and CDATA content, comments, PI targets,
// directives). Returns a description of the first difference.
func c11Strict(src []byte) string {
	if bytes.IndexByte(src, 0) >= 0 || !utf8.Valid(src) {
		return ""
	}
	amp := bytes.IndexByte(src, '&') >= 0
	var want []string
	text := func(list *[]string, s string) {
		if s == "" {
			return
		}
		if amp {
			s = "&"
		}
		if n := len(*list); n > 0 && strings.HasPrefix((*list)[n-1], "text:") {
			if amp {
				return
			}
			(*list)[n-1] += s
			return
		}
		*list = append(*list, "text:"+s)
	}
	qn := func(n stdxml.Name) string {
		if n.Space != "" {
			return n.Space + ":" + n.Local
		}
		return n.Local
	}
	d := stdxml.NewDecoder(bytes.NewReader(src))
	for {
		off0 := int(d.InputOffset())
		t, err := d.RawToken()
		if err != nil {
			if err != io.EOF {
				return ""
			}
			break
		}
		switch e := t.(type) {
		case stdxml.StartElement:
			want = append(want, "start:"+qn(e.Name))
			for _, a := range e.Attr {
				v := xmlNorm(a.Value)
				if amp {
					v = "&"
				}
				want = append(want, "attr:"+qn(a.Name)+"="+v)
			}
		case stdxml.EndElement:
			want = append(want, "end:"+qn(e.Name))
		case stdxml.CharData:
			text(&want, strings.ReplaceAll(strings.ReplaceAll(string(e), "\r\n", "\n"), "\r", "\n"))
		case stdxml.Comment:
			want = append(want, "comment:"+string(e))
		case stdxml.ProcInst:
			// well-formed only if the target is followed by whitespace or the closing "?>"
			rest := src[off0:]
			if !bytes.HasPrefix(rest, []byte("<?"+e.Target)) {
				return ""
			}
			rest = rest[2+len(e.Target):]
			if !(bytes.HasPrefix(rest, []byte("?>")) || len(rest) > 0 && (rest[0] == ' ' || rest[0] == '\t' || rest[0] == '\n' || rest[0] == '\r')) {
				return ""
			}
			// the lexer models a processing instruction as a tag with pseudo-attributes; whatever the instruction's
			// data look like, it has to end where the instruction ends (the tokens inside it are not compared)
			want = append(want, "pi:"+e.Target)
		case stdxml.Directive:
			// encoding/xml passes any <!...> through with its own bracket counting: no reference for directives
			// (document type declarations are covered by the generated family)
			return ""
		}
	}
	got, err := xmlLexAll(src)
	if err != io.EOF {
		return fmt.Sprintf("encoding/xml accepts the input as %v, the lexer ends with %v", want, err)
	}
	var have []string
	open := ""
	inPI := false
	for _, t := range got {
		switch t.tt {
		case xml.StartTagToken:
			have = append(have, "start:"+t.text)
			open = t.text
		case xml.StartTagPIToken:
			have = append(have, "pi:"+t.text)
			inPI = true
		case xml.StartTagClosePIToken:
			inPI = false
		case xml.AttributeToken:
			if inPI {
				continue
			}
			v := t.val
			if len(v) >= 2 && (v[0] == '"' || v[0] == '\'') {
				v = v[1 : len(v)-1]
			}
			if amp {
				v = "&"
			}
			have = append(have, "attr:"+t.text+"="+v)
		case xml.StartTagCloseVoidToken:
			have = append(have, "end:"+open)
		case xml.EndTagToken:
			have = append(have, "end:"+t.text)
		case xml.TextToken:
			// Text() is the content of the token (for character data: all of it)
			text(&have, strings.ReplaceAll(strings.ReplaceAll(t.text, "\r\n", "\n"), "\r", "\n"))
		case xml.CDATAToken:
			text(&have, strings.ReplaceAll(strings.ReplaceAll(t.text, "\r\n", "\n"), "\r", "\n"))
		case xml.CommentToken:
			have = append(have, "comment:"+t.text)
		case xml.DOCTYPEToken:
			have = append(have, "directive")
		}
	}
	if bytes.Contains(src, []byte("\r\n")) {
		// XML turns CR LF into one line feed before attribute-value normalisation; the lexer replaces byte for byte
		// in place and cannot shorten the value: two spaces for one (recorded as a representation difference)
		for _, l := range []*[]string{&have, &want} {
			for i, e := range *l {
				if strings.HasPrefix(e, "attr:") {
					for strings.Contains(e, "  ") {
						e = strings.ReplaceAll(e, "  ", " ")
					}
					(*l)[i] = e
				}
			}
		}
	}
	if strings.Join(have, "\x00") != strings.Join(want, "\x00") {
		return fmt.Sprintf("the lexer gives %q, encoding/xml (strict) gives %q", have, want)
	}
	return "ok"
}

// structural clauses on arbitrary bytes
func c11Any(c *engine.Ctx, in []byte, args map[string]string) {
	switch msg := c11Strict(in); msg {
	case "":
	case "ok":
		c.Count("strict-xml-compared", 1)
	default:
		c.Fail("vs-encoding-xml-strict", fmt.Sprintf("input %q: %s", in, msg))
		return
	}
	src := append([]byte{}, in...)
	buf := append(make([]byte, 0, len(src)+1), src...)
	z := parse.NewInputBytes(buf)
	l := xml.NewLexer(z)
	nul := bytes.IndexByte(src, 0)
	inTag := false
	for i := 0; i < 4*len(src)+8; i++ {
		tt, _ := l.Next()
		off := z.Offset()
		if tt == xml.ErrorToken {
			err := l.Err()
			if nul >= 0 {
				pe, ok := err.(*parse.Error)
				if !ok || !strings.Contains(pe.Message, "NULL") {
					c.Fail("nul-silently-ends", fmt.Sprintf("input %q contains NUL at %d but the lexer ends with %v", src, nul, err))
				}
			} else if err != io.EOF {
				c.Fail("error-without-nul", fmt.Sprintf("input %q without NUL ends with %v", src, err))
			}
			return
		}
		if nul >= 0 && off > nul {
			c.Fail("token-past-nul", fmt.Sprintf("input %q: token %s ends at %d, past the NUL at %d, before any error was reported", src, tt, off, nul))
			return
		}
		switch tt {
		case xml.StartTagToken, xml.StartTagPIToken:
			inTag = true
		case xml.AttributeToken:
			if !inTag {
				c.Fail("attribute-outside-tag", fmt.Sprintf("input %q: Attribute token outside a start tag", src))
				return
			}
		case xml.StartTagCloseToken, xml.StartTagCloseVoidToken, xml.StartTagClosePIToken:
			if !inTag {
				c.Fail("closer-outside-tag", fmt.Sprintf("input %q: %s without an open start tag", src, tt))
				return
			}
			inTag = false
		default:
			if inTag {
				c.Fail("token-inside-tag", fmt.Sprintf("input %q: %s between a start tag and its closer", src, tt))
				return
			}
		}
	}
	c.Fail("no-end", fmt.Sprintf("input %q: no end", src))
}

func c11Setup(c *engine.Ctx) {
	c.Register(&engine.Space{Name: "xml-gen", Run: c11Gen, NoMinimise: true})
	c.Register(&engine.Space{Name: "xml-any", Run: c11Any})
}

func c11Work(c *engine.Ctx) {
	gen := c.SpaceByName("xml-gen")
	k := 0
	emit := func(d xCons) {
		k++
		if !c.Mine(k) {
			return
		}
		var es []string
		for _, t := range d.toks {
			es = append(es, t.String())
		}
		c.Exec(gen, []byte(d.src), map[string]string{"exp": strings.Join(es, " ")})
		c.Count("exec", 1)
		c.Count("distinct_nontrivial", 1)
		if k%997 == 0 {
			c.Sample(d.src)
		}
	}
	pool := xChildPool()
	maxKids := c.Pick(2, 3)
	// children sequences (text tokens must not be adjacent: they would merge)
	var seqs []xCons
	var rec func(cur xCons, n int, lastText bool)
	rec = func(cur xCons, n int, lastText bool) {
		seqs = append(seqs, cur)
		if n == maxKids {
			return
		}
		for _, ch := range pool {
			isText := ch.toks[0].tt == xml.TextToken
			if isText && lastText {
				continue
			}
			rec(xConcat(cur, ch), n+1, isText)
		}
	}
	rec(xCons{}, 0, false)
	for pi, pro := range xProlog {
		for si, s := range seqs {
			if pi > 0 && si%3 != 0 && !c.Thorough() {
				continue
			}
			// root element wraps the children; nested one level deeper as well
			root := xConcat(pro, xStart("a", nil, [4]string{}, ">"), s, xEnd("a", ""))
			emit(root)
			if si%5 == 0 {
				emit(xConcat(pro, xStart("r:oot", []xAttrSpec{{"xmlns:r", `'u'`}}, [4]string{}, ">"), xStart("b", nil, [4]string{}, ">"), s, xEnd("b", " "), xEnd("r:oot", "\n")))
			}
		}
	}
	// DOCTYPE family: external identifiers and internal subsets whose quoted literals contain every character that
	// means something outside a literal ('>', '[', ']', ']>', the other quote, comment and PI openers)
	lits := []string{"b", "b>c", "d[1].dtd", "e]f", "g]>h", "[", "]", "[]>", "<!--", "<?", "k l"}
	quote := func(l string, q string) string { return q + l + q }
	var externals []string
	externals = append(externals, "")
	for _, l := range lits {
		externals = append(externals, ` SYSTEM `+quote(l, `"`), ` SYSTEM `+quote(l, `'`), ` PUBLIC "p" `+quote(l, `"`), ` PUBLIC 'p[' `+quote(l, `'`))
	}
	externals = append(externals, ` SYSTEM "i'j"`, ` SYSTEM 'k"l'`)
	subsets := []string{"", " []", "[]", " [ ]", " [<!-- it's \"x ] > [ --><!ELEMENT e (f)>]", "[<!--]>-->]", " [<?pi x?>]", " [<?pi it's?>]", "[<?pi ]> ?>]", " [<?pi \"?><!ENTITY b \"c\">]", "[<?a [?><?b ]>?>]"}
	for _, l := range lits {
		subsets = append(subsets, ` [<!ENTITY b `+quote(l, `"`)+`>]`, `[<!ATTLIST e f CDATA `+quote(l, `'`)+`><!ELEMENT e (f)>]`, ` [<!ENTITY % p SYSTEM `+quote(l, `"`)+`> %p;]`)
	}
	for ei, ext := range externals {
		for si, sub := range subsets {
			if !c.Thorough() && ei > 0 && si > 3 && (ei+si)%4 != 0 {
				continue
			}
			body := " a" + ext + sub
			emit(xConcat(xSimple(xml.DOCTYPEToken, "<!DOCTYPE"+body+">", body), xStart("a", nil, [4]string{}, "/>")))
			emit(xConcat(xSimple(xml.DOCTYPEToken, "<!DOCTYPE"+body+" >", body+" "), xSimple(xml.TextToken, "\n", "\n"), xStart("a", nil, [4]string{}, ">"), xEnd("a", "")))
		}
	}
	// whitespace variants at every in-tag position × attribute combinations
	wsv := []string{"", " ", "\n", "\r", "\t\r\n "}
	ws0v := []string{" ", "\n", "\t", "\r", "\r\n", "  "}
	for _, a1 := range xAttrPool {
		for _, a2 := range []xAttrSpec{{}, {"d", `'e'`}, {"d", `"/>"`}} {
			attrs := []xAttrSpec{a1}
			if a2.name != "" {
				attrs = append(attrs, a2)
			}
			for _, closer := range []string{">", "/>"} {
				for _, w0 := range ws0v {
					for _, w1 := range wsv {
						for _, w2 := range wsv {
							for _, w3 := range wsv {
								st := xStart("e", attrs, [4]string{w0, w1, w2, w3}, closer)
								d := xConcat(xStart("a", nil, [4]string{}, ">"), st)
								if closer == ">" {
									d = xConcat(d, xSimple(xml.TextToken, "t", "t"), xEnd("e", w3))
								}
								emit(xConcat(d, xEnd("a", "")))
							}
						}
					}
				}
			}
		}
	}
	// structural clauses on arbitrary bytes
	anysp := c.SpaceByName("xml-any")
	al := engine.NewAlphabet(alphaXML)
	lvl := c.EnumSeq(al, 0, c.Pick(5, 5), func(in []byte, idx []int) {
		c.Exec(anysp, in, nil)
		c.Count("exec", 1)
		if len(idx) >= 2 && al.Canonical(idx, in) {
			c.Count("distinct_nontrivial", 1)
		}
	})
	c.Count("min:level_bytes", int64(lvl))
	for _, seed := range seedsXML {
		c.EditBall([]byte(seed), alphaXML, func(in []byte) {
			c.Exec(anysp, in, nil)
			c.Count("exec", 1)
		})
		c.ByteSweep([]byte(seed), true, func(in []byte) {
			c.Exec(anysp, in, nil)
			c.Count("exec", 1)
			c.Count("byte-sweep", 1)
		})
	}
}

func c11Finish(c *engine.Ctx, cov map[string]interface{}) string {
	if c.Counters["encoding-xml-compared"] < 5000 {
		return fmt.Sprintf("vacuous: only %d documents compared with encoding/xml (%d rejected by it)", c.Counters["encoding-xml-compared"], c.Counters["encoding-xml-rejects"])
	}
	return ""
}

func init() {
	register(&engine.Check{
		ID: "C11", Level: "exploration",
		Rule:        "documents = 8 prologs (XML declaration, DOCTYPE with system id containing '>', internal subsets with quoted '>' and ']>', comments) × root element × every sequence of ≤2 (3) children from a pool of 34 constructs (text, comments with '-' and '->', CDATA with ]] and ]> look-alikes, processing instructions, empty-element tags with every attribute shape: both quote styles, the other quote, '>', '/>', '?>', tab/newline, prefixed names), also nested one level deeper with whitespace in end tags; every whitespace plan ({none, space, newline, mixed} at the 4 in-tag positions) × 14 attribute shapes × 3 second attributes × 2 closers. Expected (type, Text, AttrVal) lists by construction, and element names/attribute names/values vs encoding/xml RawToken. All byte strings ≤4 (5) atoms over the XML alphabet and edit balls around the XML seeds for the structural clauses (attributes only inside tags; NUL reported as *parse.Error, no token past it)",
		Assumptions: []string{"attribute values are compared after the tab/newline→space normalisation that XML 1.0 §3.3.3 prescribes and the lexer documents", "documents that encoding/xml rejects are only compared with the expected list"},
		Setup:       c11Setup, Work: c11Work, Finish: c11Finish,
	})
}
