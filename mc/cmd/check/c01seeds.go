package main

// C01 (ii) edit balls around the seed catalogue and (iii) nesting templates
// run in child processes with a bounded stack.

import (
	"bytes"
	"context"
	"fmt"
	"os"
	"os/exec"
	"runtime/debug"
	"strconv"
	"strings"
	"time"

	"verifmc/engine"
)

type seedPlan struct {
	seeds  []string
	alpha  [][]byte
	core   [][]byte
	spaces []string
}

func seedPlans() []seedPlan {
	return []seedPlan{
		{seedsCSS, alphaCSS, alphaCSSCore, []string{"css-lex", "css-parse"}},
		{seedsHTML, alphaHTML, alphaHTMLCore, []string{"html-lex"}},
		{seedsXML, alphaXML, alphaXML, []string{"xml-lex"}},
		{seedsJSON, alphaJSON, alphaJSON, []string{"json-parse"}},
		{seedsJS, alphaJS, alphaJSCore, []string{"js-lex", "js-parse"}},
	}
}

func cfgsFor(spaces []string) []streamCfg {
	var cfgs []streamCfg
	for _, sp := range spaces {
		if sp == "js-parse" {
			for _, o := range jsOptionNames {
				cfgs = append(cfgs, streamCfg{sp, map[string]string{"opts": o}})
			}
		} else {
			cfgs = append(cfgs, allStreamCfgs(sp)...)
		}
	}
	return cfgs
}

func c01SeedWork(c *engine.Ctx) {
	var seen map[uint64]struct{}
	for _, pl := range seedPlans() {
		cfgs := cfgsFor(pl.spaces)
		spaces := make([]*engine.Space, len(cfgs))
		for i, cf := range cfgs {
			spaces[i] = c.SpaceByName(cf.space)
		}
		tmp := make([]byte, 0, 1024)
		run := func(in []byte) {
			h := engine.Hash64(in)
			if _, dup := seen[h]; dup {
				return
			}
			seen[h] = struct{}{}
			c.Count("distinct_nontrivial", 1)
			for i, cf := range cfgs {
				tmp = append(tmp[:0], in...)
				tmp = append(tmp, 0xEE)
				c.Exec(spaces[i], tmp[:len(in)], cf.args)
				c.Count("exec", 1)
				c.Count("edit-ball-exec", 1)
			}
		}
		for _, seed := range pl.seeds {
			seen = map[uint64]struct{}{}
			c.EditBall([]byte(seed), pl.alpha, run)
			c.ByteSweep([]byte(seed), true, run)
			if c.Thorough() && len(seed) <= 60 {
				// radius 2 with the core alphabet: a ball around every member of the core ball
				var first [][]byte
				one := engine.NewCtx("", "", 0, 1)
				one.EditBall([]byte(seed), pl.core, func(in []byte) { first = append(first, append([]byte{}, in...)) })
				for _, f := range first {
					c.EditBall(f, pl.core, run)
				}
			}
		}
	}
}

// c01Families: inputs that the atom enumerations and edit balls do not reach.
//   - every kind of expression in every position where the JSON conversion looks at it (the tree must survive
//     String, JS, JSON and Walk without a panic whether or not it is JSON)
//   - syntax errors on long lines of single- and multi-byte characters (the error's context is built inside the call)
func c01Families(c *engine.Ctx) {
	jsp := c.SpaceByName("js-parse")
	exprs := []string{"a", "1", "-1", "1.5e3", "0x10", "1n", "'s'", "\"d\"", "`t`", "`a${b}c`", "/r/g", "true", "false", "null", "this", "undefined",
		"[]", "[1,2]", "[,1]", "[1,,]", "[...a]", "({})", "({a:1})", "({'a':1})", "({1:2})", "({[k]:1})", "({a})", "({...a})", "({a(){}})", "({get a(){return 1}})", "({set a(v){}})",
		"({async a(){}})", "({*a(){}})", "({async*a(){}})", "({a:function(){}})", "({a:()=>1})", "({a:class{}})", "({a:1,b(){},c:2})", "function(){}", "function*g(){}", "async function(){}",
		"()=>1", "a=>a", "async()=>1", "async a=>a", "class{}", "class A extends B{static #p=1;m(){}}", "a.b", "a[b]", "a?.b", "a?.[b]", "a()", "a(...b)", "a?.()", "new A", "new A(1)", "import.meta", "import('m')",
		"a`t`", "a++", "--a", "!a", "-a", "+a", "~a", "typeof a", "void 0", "delete a.b", "await a", "a+b", "a**b", "a&&b", "a??b", "a in b", "a instanceof b", "a?b:c", "a=b", "a+=b", "a??=b", "(a,b)", "(a)", "((1))", "-(1)", "- -1", "[[[]]]", "({a:{b:{c:[]}}})"}
	wraps := []string{"%s", "(%s)", "[%s]", "[1,%s,2]", "({\"k\":%s})", "({k:%s,l:1})", "[{\"k\":[%s]}]", "({k:{l:%s}})", "-%s", "x=%s", "%s;%s"}
	k := 0
	for _, e := range exprs {
		for _, w := range wraps {
			k++
			if !c.Mine(k) {
				continue
			}
			src := strings.ReplaceAll(w, "%s", e)
			for _, o := range jsOptionNames {
				in := append(make([]byte, 0, len(src)+1), src...)
				c.Exec(jsp, in, map[string]string{"opts": o})
				c.Count("exec", 1)
				c.Count("json-shaped-programs", 1)
			}
			c.Count("distinct_nontrivial", 1)
		}
	}
	// one identifier used more often than a 16-bit counter can count, followed by the constructs that consult the counter
	for _, n := range []int{65534, 65535, 65536, 65537, 131071, 131072} {
		for _, head := range []string{"", "var a;", "let a;", "function f(){", "x=()=>{"} {
			for _, tail := range []string{"a=>1", "(a)=>1", "async a=>1", "(a,b)=>1", "({a})=>1", "(a)", "a", "var a", "x={a}", "[a]=b", "a:;"} {
				k++
				if !c.Mine(k) {
					continue
				}
				closer := ""
				if strings.HasSuffix(head, "{") {
					closer = "}"
				}
				src := head + strings.Repeat("a;", n) + tail + closer
				for _, o := range jsOptionNames[:2] {
					in := append(make([]byte, 0, len(src)+1), src...)
					c.Exec(jsp, in, map[string]string{"opts": o})
					c.Count("exec", 1)
					c.Count("many-uses-programs", 1)
				}
			}
		}
	}
	counts := []int{0, 1, 10, 19, 20, 21, 30, 57, 60, 63, 64, 65, 100}
	for _, tm := range longLineTemplates() {
		spaces := []string{tm.space}
		if tm.space == "css-parse" {
			spaces = append(spaces, "css-lex")
		}
		cfgs := cfgsFor(spaces)
		for _, ch := range longLineChars {
			for _, np := range counts {
				for _, nt := range counts {
					k++
					if !c.Mine(k) {
						continue
					}
					doc := tm.doc(strings.Repeat(ch, np), strings.Repeat(ch, nt))
					for _, cf := range cfgs {
						in := append(make([]byte, 0, len(doc)+1), doc...)
						c.Exec(c.SpaceByName(cf.space), in, cf.args)
						c.Count("exec", 1)
						c.Count("long-line-documents", 1)
					}
					c.Count("distinct_nontrivial", 1)
				}
			}
		}
	}
}

// ---- nesting ----

type nestTpl struct {
	lang, name  string
	head, open  string
	leaf        string
	close, tail string
	cfg         string
}

func (t nestTpl) build(d int) []byte {
	var b bytes.Buffer
	b.Grow(len(t.head) + d*(len(t.open)+len(t.close)) + len(t.leaf) + len(t.tail))
	b.WriteString(t.head)
	for i := 0; i < d; i++ {
		b.WriteString(t.open)
	}
	b.WriteString(t.leaf)
	for i := 0; i < d; i++ {
		b.WriteString(t.close)
	}
	b.WriteString(t.tail)
	return b.Bytes()
}

var nestTpls = []nestTpl{
	{"js", "bind-array", "let ", "[", "a", "]", "=b", ""},
	{"js", "bind-object", "let ", "{a:", "a", "}", "=b", ""},
	{"js", "bind-default", "let ", "[a=", "b", "]", "=c", ""},
	{"js", "param-array", "function f(", "[", "a", "]", "){}", ""},
	{"js", "param-object", "function f(", "{a:", "a", "}", "){}", ""},
	{"js", "arrow-param", "x=(", "[", "a", "]", ")=>a", ""},
	{"js", "catch-param", "try{}catch(", "[", "a", "]", "){}", ""},
	{"js", "for-of-bind", "for(let ", "[", "a", "]", " of b);", ""},
	{"js", "assign-pattern", "", "[", "a", "]", "=b", ""},
	{"js", "paren", "x=", "(", "a", ")", "", ""},
	{"js", "array", "x=", "[", "a", "]", "", ""},
	{"js", "object", "x=", "{a:", "a", "}", "", ""},
	{"js", "block", "", "{", "", "}", "", ""},
	{"js", "not", "x=", "!", "a", "", "", ""},
	{"js", "neg", "x=", "- ", "a", "", "", ""},
	{"js", "typeof", "x=", "typeof ", "a", "", "", ""},
	{"js", "await", "x=", "await ", "a", "", "", ""},
	{"js", "new", "x=", "new ", "a", "", "", ""},
	{"js", "plus", "x=a", "+a", "", "", "", ""},
	{"js", "exp", "x=a", "**a", "", "", "", ""},
	{"js", "nullish", "x=a", "??a", "", "", "", ""},
	{"js", "and", "x=a", "&&a", "", "", "", ""},
	{"js", "comma", "x=a", ",a", "", "", "", ""},
	{"js", "dot", "x=a", ".a", "", "", "", ""},
	{"js", "optchain", "x=a", "?.a", "", "", "", ""},
	{"js", "index", "x=a", "[a]", "", "", "", ""},
	{"js", "call", "x=a", "()", "", "", "", ""},
	{"js", "call-nest", "x=", "a(", "a", ")", "", ""},
	{"js", "tagged", "x=a", "`t`", "", "", "", ""},
	{"js", "postfix", "x=a", "++", "", "", "", ""},
	{"js", "arrow", "x=", "a=>", "a", "", "", ""},
	{"js", "arrow-paren", "x=", "(a)=>", "a", "", "", ""},
	{"js", "async-arrow", "x=", "async a=>", "a", "", "", ""},
	{"js", "async-call", "x=", "async(", "a", ")", "", ""},
	{"js", "async-call-args", "x=", "async(a,", "a", ")", "", ""},
	{"js", "async-arrow-default", "x=", "async(a=", "a", ")=>a", "", ""},
	{"js", "opt-call", "x=", "a?.(", "a", ")", "", ""},
	{"js", "opt-index", "x=a", "?.[a]", "", "", "", ""},
	{"js", "new-call", "x=", "new a(", "a", ")", "", ""},
	{"js", "import-call", "x=", "import(", "a", ")", "", ""},
	{"js", "tagged-nest", "x=", "a`${", "a", "}`", "", ""},
	{"js", "arrow-body-paren", "x=", "a=>(", "a", ")", "", ""},
	{"js", "await-paren", "x=", "await(", "a", ")", "", ""},
	{"js", "yield-paren", "function*g(){x=", "yield(", "a", ")", "}", ""},
	{"js", "super-call", "class A extends B{constructor(){", "super(", "a", ")", "}}", ""},
	{"js", "object-spread", "x=", "{...", "a", "}", "", ""},
	{"js", "class-computed", "x=", "class{[", "a", "](){}}", "", ""},
	{"js", "assign", "x", "=x", "", "", "", ""},
	{"js", "cond", "x=", "a?a:", "a", "", "", ""},
	{"js", "cond-mid", "x=", "a?", "a", ":a", "", ""},
	{"js", "template", "x=", "`${", "a", "}`", "", ""},
	{"js", "elseif", "", "if(a);else ", ";", "", "", ""},
	{"js", "if", "", "if(a)", ";", "", "", ""},
	{"js", "for", "", "for(;;)", ";", "", "", ""},
	{"js", "while", "", "while(a)", ";", "", "", ""},
	{"js", "do", "", "do ", ";", " while(a)", "", ""},
	{"js", "with", "", "with(a)", ";", "", "", ""},
	{"js", "label", "", "a:", ";", "", "", ""},
	{"js", "function", "", "function f(){", "", "}", "", ""},
	{"js", "func-expr", "x=", "function(){return ", "a", "}", "", ""},
	{"js", "class", "", "class A{m(){", "", "}}", "", ""},
	{"js", "class-extends", "x=", "class extends ", "a", "{}", "", ""},
	{"js", "class-field", "x=", "class{a=", "a", "}", "", ""},
	{"js", "static-block", "", "class A{static{", "", "}}", "", ""},
	{"js", "switch", "", "switch(a){case a:", "", "}", "", ""},
	{"js", "try", "", "try{", "", "}finally{}", "", ""},
	{"js", "spread", "x=", "[...", "a", "]", "", ""},
	{"js", "obj-method", "x=", "{m(){return ", "a", "}}", "", ""},
	{"js", "computed", "x=", "{[", "a", "]:a}", "", ""},
	{"js", "default-param", "x=", "(a=", "a", ")=>a", "", ""},
	{"js", "yield", "function*g(){x=", "yield ", "a", "", "}", ""},
	{"js", "arrow-block", "", "x=()=>{", "", "}", "", ""},
	{"js", "iife", "", "(function(){", "", "})()", "", ""},
	{"js", "func-expr-stmt", "", "x=function(){", "", "}", "", ""},
	{"js", "obj-method-stmt", "", "x={m(){", "", "}}", "", ""},
	{"js", "class-expr-stmt", "", "x=class{m(){", "", "}}", "", ""},
	{"js", "call-arrow-block", "", "f(()=>{", "", "})", "", ""},
	{"js", "stmts", "", "a;", "", "", "", ""},
	{"js", "var-list", "var a", ",a", "", "", "", ""},
	{"js", "import-list", "import{a", ",a", "", "", "}from'm'", ""},
	{"js", "comment-nest", "", "/*", "", "*/", "", ""},
	{"js", "regexp-class", "x=/", "[", "a", "]", "/", ""},
	{"css", "ruleset", "", "a{", "b:c", "}", "", ""},
	{"css", "media", "", "@media x{", "a{b:c}", "}", "", ""},
	{"css", "unknown-at", "", "@x{", "", "}", "", ""},
	{"css", "value-paren", "a{b:", "(", "c", ")", "}", ""},
	{"css", "value-func", "a{b:", "f(", "c", ")", "}", ""},
	{"css", "value-bracket", "a{b:", "[", "c", "]", "}", ""},
	{"css", "selector-paren", "", ":not(", "a", ")", "{b:c}", ""},
	{"css", "custom-brace", "a{--x:", "{", "c", "}", "}", ""},
	{"css", "decl-list", "a{", "b:c;", "", "", "}", ""},
	{"css", "inline-paren", "b:", "(", "c", ")", "", "inline"},
	{"css", "open-only", "", "a{", "", "", "", ""},
	{"css", "close-only", "", "}", "", "", "", ""},
	{"json", "array", "", "[", "1", "]", "", ""},
	{"json", "object", "", "{\"a\":", "1", "}", "", ""},
	{"json", "array-list", "[1", ",1", "", "", "]", ""},
	{"json", "open-only", "", "[", "", "", "", ""},
	{"json", "close-only", "", "]", "", "", "", ""},
	{"html", "elements", "", "<a>", "t", "</a>", "", ""},
	{"html", "svg", "", "<svg>", "t", "</svg>", "", ""},
	{"html", "math", "", "<math>", "t", "</math>", "", ""},
	{"html", "script-escape", "<script>", "<!--<script>", "x", "</script>-->", "</script>", ""},
	{"html", "attrs", "<a", " b=c", "", "", ">", ""},
	{"html", "tmpl", "", "{{", "a", "}}", "", "go"},
	{"html", "tmpl-quote", "{{", "\"", "a", "\"", "}}", "go"},
	{"html", "lt", "", "<", "", "", "", ""},
	{"xml", "elements", "", "<a>", "t", "</a>", "", ""},
	{"xml", "doctype-bracket", "<!DOCTYPE a ", "[", "", "]", ">", ""},
	{"xml", "attrs", "<a", " b='c'", "", "", "/>", ""},
	{"xml", "cdata-look", "<![CDATA[", "]]", "", "", "]]>", ""},
}

func nestTplByName(lang, name string) *nestTpl {
	for i := range nestTpls {
		if nestTpls[i].lang == lang && nestTpls[i].name == name {
			return &nestTpls[i]
		}
	}
	return nil
}

// c01Child: check C01 --child nest <lang> <name> <depth> <stackMB>
// Exit 0: fine; exit 1: an oracle failed (message on stdout); anything else: crash.
func c01Child(args []string) int {
	if len(args) < 5 || args[0] != "nest" {
		return 2
	}
	t := nestTplByName(args[1], args[2])
	d, _ := strconv.Atoi(args[3])
	mb, _ := strconv.Atoi(args[4])
	if t == nil {
		return 2
	}
	debug.SetMaxStack(mb << 20)
	src := t.build(d)
	c := engine.NewCtx("C01", "quick", 0, 1)
	c01Setup(c)
	var cfgs []streamCfg
	switch t.lang {
	case "js":
		cfgs = cfgsFor([]string{"js-lex", "js-parse"})
	case "css":
		if t.cfg == "inline" {
			cfgs = []streamCfg{{"css-parse", map[string]string{"inline": "1"}}}
		} else {
			cfgs = cfgsFor([]string{"css-lex", "css-parse"})
		}
	case "json":
		cfgs = cfgsFor([]string{"json-parse"})
	case "html":
		cfgs = []streamCfg{{"html-lex", map[string]string{"tmpl": t.cfg}}}
	case "xml":
		cfgs = cfgsFor([]string{"xml-lex"})
	}
	for _, cf := range cfgs {
		in := append(make([]byte, 0, len(src)+1), src...)
		c.Exec(c.SpaceByName(cf.space), in, cf.args)
	}
	if len(c.Viol) > 0 {
		v := c.Viol[0]
		fmt.Printf("ORACLE %s|%s|%s\n", v.Clause, v.Site, v.Detail)
		return 1
	}
	return 0
}

func c01NestRun(c *engine.Ctx, in []byte, args map[string]string) {
	limit := 600 * time.Second
	if d, _ := strconv.Atoi(args["depth"]); d <= 1000 {
		limit = 150 * time.Second // milliseconds of linear-time work
	}
	ctx, cancel := context.WithTimeout(context.Background(), limit)
	defer cancel()
	cmd := exec.CommandContext(ctx, os.Args[0], "C01", "--child", "nest", args["lang"], string(in), args["depth"], args["stack"])
	cmd.Env = append(os.Environ(), "GOTRACEBACK=single", "GOMAXPROCS=2")
	out, err := cmd.CombinedOutput()
	if err == nil {
		return
	}
	so := string(out)
	if ctx.Err() != nil {
		c.Fail("nest-timeout", fmt.Sprintf("template %s/%s at depth %s did not finish within %v (linear-time work takes well under a second)", args["lang"], in, args["depth"], limit))
		return
	}
	if i := strings.Index(so, "ORACLE "); i >= 0 {
		line := so[i+7:]
		if j := strings.IndexByte(line, '\n'); j >= 0 {
			line = line[:j]
		}
		parts := strings.SplitN(line, "|", 3)
		if len(parts) == 3 {
			c.Fail("nest-"+parts[0], parts[1]+": "+parts[2])
			return
		}
	}
	if strings.Contains(so, "stack overflow") || strings.Contains(so, "stack exceeds") {
		site := "?"
		for _, ln := range strings.Split(so, "\n") {
			if strings.HasPrefix(ln, "github.com/tdewolff/parse/v2") {
				site = strings.TrimPrefix(ln, "github.com/tdewolff/parse/v2")
				site = strings.TrimLeft(site, "/.")
				if k := strings.Index(site, "(0x"); k >= 0 {
					site = site[:k]
				}
				if k := strings.LastIndex(site, "({"); k >= 0 {
					site = site[:k]
				}
				break
			}
		}
		c.Fail("stack-exhaustion", fmt.Sprintf("template %s/%s at depth %s exhausts a %s MB stack (unbounded recursion) in %s", args["lang"], in, args["depth"], args["stack"], site))
		return
	}
	c.Fail("nest-crash", fmt.Sprintf("child died: %v: %s", err, tail2(so, 300)))
}

func tail2(s string, n int) string {
	if len(s) > n {
		return s[len(s)-n:]
	}
	return s
}

func c01NestSetup(c *engine.Ctx) {
	c.Register(&engine.Space{Name: "nest", Run: c01NestRun, NoMinimise: true})
}

func c01NestWork(c *engine.Ctx) {
	sp := c.SpaceByName("nest")
	type ds struct{ depth, stack int }
	depths := []ds{{40, 64}, {999, 64}, {1001, 64}, {100000, 32}, {1000000, 64}}
	if c.Thorough() {
		depths = []ds{{10, 64}, {40, 64}, {300, 64}, {999, 64}, {1000, 64}, {1001, 64}, {2000, 64}, {10000, 64}, {100000, 32}, {1000000, 64}, {3000000, 128}}
	}
	k := 0
	for _, d := range depths {
		for _, t := range nestTpls {
			k++
			if !c.Mine(k) {
				continue
			}
			args := map[string]string{"lang": t.lang, "depth": strconv.Itoa(d.depth), "stack": strconv.Itoa(d.stack)}
			c.Exec(sp, []byte(t.name), args)
			c.Count("exec", 1)
			c.Count("nest-exec", 1)
			c.Count("distinct_nontrivial", 1)
		}
	}
}
