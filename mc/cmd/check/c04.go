package main

// C04 — identifier resolution in the JS tree follows ECMAScript scoping.
// All scope skeletons up to a node bound are generated together with a
// textbook resolver's answer (which binding every identifier occurrence
// denotes); the parser's answer is observed through the property's own
// differential: rename every declared Var to a fresh name, print, and
// compare the identifier sequence of the output.

import (
	"fmt"
	"reflect"
	"strconv"
	"strings"
	"unsafe"

	"verifmc/engine"

	"github.com/tdewolff/parse/v2/js"
)

// ---- skeleton ----

type skForm int

const (
	fVar     skForm = iota
	fVarInit        // var n = m;
	fLet
	fConst
	fUse
	fAssign
	fFuncDecl      // function n(){B}
	fFuncDeclParam // function n(m){B}
	fClass         // class n{}
	fClassMethod   // class n{f(){B}}
	fBlock         // {B}
	fForLet        // for(let n=0;n<m;n++){B}
	fForVarOf      // for(var n of m){B}
	fForConstOf    // for(const n of m){B}
	fForIn         // for(n in m){B}
	fTryCatch      // try{B}catch(n){B2}
	fTryCatchNoBinding
	fFuncExprNamed       // (function n(){B});
	fFuncExprParam       // (function(n){B});
	fArrowParen          // ((n)=>{B});
	fArrowSingle         // (n=>m);
	fAsyncArrow          // (async n=>{B});
	fParamDefault        // (function(n, p=n){B});
	fDefaultOuter        // (function(p=n){B});
	fLetObj              // let {n}=m;
	fLetArr              // let [n]=m;
	fSwitchLet           // switch(m){case 0:let n;B}
	fParenList           // (n, m);
	fParenAssign         // (n = m);
	fParenObj            // ({n});
	fLabel               // l: n;
	fClassExprNamed      // (class n{f(){B}});
	fObjMethod           // ({f(n){B}});
	fIfBlock             // if(n){B}else{B2}
	fObjMethod0          // ({f(){B}});
	fUseArr              // [n];
	fUseObjKV            // ({k:n});
	fArrowBare           // q=n=>m;   (no parentheses anywhere: the identifier is first read as a use)
	fAsyncArrowBare      // q=async n=>{B};
	fDefaultOuterRest    // (function(p=n,...r){B});
	fStaticBlock         // (class{static{B}});   a var scope of its own
	fArrowComputedKey    // (({[[n]]:p})=>{B});   the key is an expression (here an array literal), not a binding
	fObjMethodDefault    // ({f(p=n){B}});
	fClassMethodDefault  // (class{f(p=n){B}});
	fAsyncArrowParen     // (async(n)=>{B});
	fArrowPatternDefault // (([p]=[n])=>{B});   the default value of a pattern is an expression
	numForms
)

type sk struct {
	form   skForm
	n, m   string
	b1, b2 []*sk
}

func (f skForm) bodies() int {
	switch f {
	case fFuncDecl, fFuncDeclParam, fClassMethod, fBlock, fForLet, fForVarOf, fForConstOf, fForIn, fTryCatchNoBinding, fFuncExprNamed, fFuncExprParam, fArrowParen, fAsyncArrow, fParamDefault, fDefaultOuter, fSwitchLet, fClassExprNamed, fObjMethod, fObjMethod0, fAsyncArrowBare, fDefaultOuterRest, fStaticBlock, fArrowComputedKey, fObjMethodDefault, fClassMethodDefault, fAsyncArrowParen, fArrowPatternDefault:
		return 1
	case fTryCatch, fIfBlock:
		return 2
	}
	return 0
}

func (f skForm) usesM() bool {
	switch f {
	case fVarInit, fFuncDeclParam, fForLet, fForVarOf, fForConstOf, fForIn, fArrowSingle, fLetObj, fLetArr, fSwitchLet, fParenList, fParenAssign, fArrowBare:
		return true
	}
	return false
}

// ---- resolver ----

type scopeKind int

const (
	scFunc scopeKind = iota // module or function: var-scoped and lexical
	scBlock
	scName // function/class expression name
)

type rscope struct {
	kind    scopeKind
	parent  *rscope
	lex     map[string]int
	vars    map[string]int // function scopes: params and vars
	params  map[string]bool
	through map[string]bool // var names declared in this block or hoisted through it
	funcs   map[string]int  // function declarations (count) for the ambiguity rule
	catch   string          // catch parameter name, if this is a catch scope
}

type resolver struct {
	classExpr map[int]bool // bindings that are names of class expressions
	funcExpr  map[int]bool // bindings that are names of function expressions
	next      int
	err       string // "redecl": lexical redeclaration the parser must reject; "ambiguous": outside the quantifier
	scopeOf   map[*sk][]*rscope
}

func newScope(kind scopeKind, parent *rscope) *rscope {
	return &rscope{kind: kind, parent: parent, lex: map[string]int{}, vars: map[string]int{}, params: map[string]bool{}, through: map[string]bool{}, funcs: map[string]int{}}
}

func (r *resolver) fail(kind string) {
	if r.err == "" || kind == "ambiguous" {
		r.err = kind
	}
}

func (r *resolver) declLex(s *rscope, n string) {
	if _, dup := s.lex[n]; dup {
		r.fail("redecl")
		return
	}
	if s.kind == scFunc {
		if _, ok := s.vars[n]; ok {
			r.fail("ambiguous") // let vs var/param/function of one name: an error, but not the clause under test
		}
	}
	if s.catch == n || s.through[n] {
		r.fail("ambiguous") // let vs a var of the same name hoisted through this block
	}
	r.next++
	s.lex[n] = r.next
}

func (r *resolver) declVar(s *rscope, n string, isFunc bool) {
	for c := s; c != nil; c = c.parent {
		if c.kind == scName {
			continue
		}
		if _, ok := c.lex[n]; ok {
			r.fail("ambiguous") // var vs let of one name
			return
		}
		if c.catch == n {
			r.fail("ambiguous") // Annex B: var redeclaring a catch parameter
			return
		}
		c.through[n] = true
		if c.kind == scFunc {
			if isFunc {
				c.funcs[n]++
				if _, ok := c.vars[n]; ok {
					r.fail("ambiguous") // function vs var/param of one name (module top level differs from function bodies)
				}
			} else if c.funcs[n] > 0 {
				r.fail("ambiguous")
			}
			if _, ok := c.vars[n]; !ok {
				r.next++
				c.vars[n] = r.next
			}
			return
		}
	}
}

func (r *resolver) declParam(s *rscope, n string) {
	if s.params[n] {
		r.fail("ambiguous")
		return
	}
	s.params[n] = true
	r.next++
	s.vars[n] = r.next
}

// lookup from scope s; skipBody: start at the parameter view of function scope s (default-value expressions)
func lookup(s *rscope, n string, paramView bool) int {
	for c := s; c != nil; c = c.parent {
		if paramView && c == s {
			if c.params[n] {
				return c.vars[n]
			}
			continue
		}
		if id, ok := c.lex[n]; ok {
			return id
		}
		if id, ok := c.vars[n]; ok {
			return id
		}
	}
	return -1
}

// declare walks a statement list and records all declarations in the scopes.
func (r *resolver) declare(list []*sk, s *rscope, funcLevel bool) {
	for _, k := range list {
		switch k.form {
		case fVar, fVarInit:
			r.declVar(s, k.n, false)
		case fLet, fConst, fLetObj, fLetArr, fClass:
			r.declLex(s, k.n)
		case fClassMethod:
			r.declLex(s, k.n)
			fs := newScope(scFunc, s)
			r.scopeOf[k] = []*rscope{fs}
			r.declare(k.b1, fs, true)
		case fFuncDecl, fFuncDeclParam:
			// block-level function declarations hoist to the enclosing function like var: the reading the property
			// states ("var and function hoisting to the enclosing function ... through sibling and nested blocks")
			r.declVar(s, k.n, true)
			fs := newScope(scFunc, s)
			if k.form == fFuncDeclParam {
				r.declParam(fs, k.m)
			}
			r.scopeOf[k] = []*rscope{fs}
			r.declare(k.b1, fs, true)
		case fBlock, fTryCatchNoBinding:
			bs := newScope(scBlock, s)
			r.scopeOf[k] = []*rscope{bs}
			r.declare(k.b1, bs, false)
		case fIfBlock:
			b1, b2 := newScope(scBlock, s), newScope(scBlock, s)
			r.scopeOf[k] = []*rscope{b1, b2}
			r.declare(k.b1, b1, false)
			r.declare(k.b2, b2, false)
		case fForLet, fForConstOf:
			ls := newScope(scBlock, s)
			r.declLex(ls, k.n)
			bs := newScope(scBlock, ls)
			r.scopeOf[k] = []*rscope{ls, bs}
			r.declare(k.b1, bs, false)
		case fForVarOf:
			r.declVar(s, k.n, false)
			bs := newScope(scBlock, s)
			r.scopeOf[k] = []*rscope{bs}
			r.declare(k.b1, bs, false)
		case fForIn:
			bs := newScope(scBlock, s)
			r.scopeOf[k] = []*rscope{bs}
			r.declare(k.b1, bs, false)
		case fTryCatch:
			ts := newScope(scBlock, s)
			cs := newScope(scBlock, s)
			cs.catch = k.n
			r.next++
			cs.lex[k.n] = r.next
			bs := newScope(scBlock, cs)
			r.scopeOf[k] = []*rscope{ts, cs, bs}
			r.declare(k.b1, ts, false)
			r.declare(k.b2, bs, false)
			if _, ok := bs.lex[k.n]; ok {
				r.fail("ambiguous") // let redeclaring the catch parameter
			}
		case fFuncExprNamed, fClassExprNamed:
			ns := newScope(scName, s)
			r.next++
			ns.lex[k.n] = r.next
			if k.form == fClassExprNamed {
				r.classExpr[r.next] = true
			} else {
				r.funcExpr[r.next] = true
			}
			fs := newScope(scFunc, ns)
			r.scopeOf[k] = []*rscope{ns, fs}
			r.declare(k.b1, fs, true)
		case fFuncExprParam, fArrowParen, fAsyncArrow, fObjMethod, fAsyncArrowBare, fAsyncArrowParen:
			fs := newScope(scFunc, s)
			r.declParam(fs, k.n)
			r.scopeOf[k] = []*rscope{fs}
			r.declare(k.b1, fs, true)
		case fObjMethod0:
			fs := newScope(scFunc, s)
			r.scopeOf[k] = []*rscope{fs}
			r.declare(k.b1, fs, true)
		case fArrowSingle, fArrowBare:
			fs := newScope(scFunc, s)
			r.declParam(fs, k.n)
			r.scopeOf[k] = []*rscope{fs}
		case fParamDefault:
			fs := newScope(scFunc, s)
			r.declParam(fs, k.n)
			r.declParam(fs, "p")
			r.scopeOf[k] = []*rscope{fs}
			r.declare(k.b1, fs, true)
		case fDefaultOuter, fArrowComputedKey, fObjMethodDefault, fClassMethodDefault, fArrowPatternDefault:
			fs := newScope(scFunc, s)
			r.declParam(fs, "p")
			r.scopeOf[k] = []*rscope{fs}
			r.declare(k.b1, fs, true)
		case fDefaultOuterRest:
			fs := newScope(scFunc, s)
			r.declParam(fs, "p")
			r.declParam(fs, "r")
			r.scopeOf[k] = []*rscope{fs}
			r.declare(k.b1, fs, true)
		case fStaticBlock:
			fs := newScope(scFunc, s)
			r.scopeOf[k] = []*rscope{fs}
			r.declare(k.b1, fs, true)
		case fSwitchLet:
			ss := newScope(scBlock, s)
			r.declLex(ss, k.n)
			r.scopeOf[k] = []*rscope{ss}
			r.declare(k.b1, ss, false)
		}
	}
}

type occ struct {
	name    string
	binding int // >0 binding id, -1 unresolved (global)
}

type renderer struct {
	r    *resolver
	sb   strings.Builder
	occs []occ
}

func (w *renderer) id(s *rscope, n string, paramView bool) {
	w.sb.WriteString(n)
	w.occs = append(w.occs, occ{n, lookup(s, n, paramView)})
}

func (w *renderer) raw(s string) { w.sb.WriteString(s) }

func (w *renderer) list(list []*sk, s *rscope) {
	for _, k := range list {
		sc := w.r.scopeOf[k]
		switch k.form {
		case fVar:
			w.raw("var ")
			w.id(s, k.n, false)
			w.raw(";")
		case fVarInit:
			w.raw("var ")
			w.id(s, k.n, false)
			w.raw("=")
			w.id(s, k.m, false)
			w.raw(";")
		case fLet:
			w.raw("let ")
			w.id(s, k.n, false)
			w.raw(";")
		case fConst:
			w.raw("const ")
			w.id(s, k.n, false)
			w.raw("=0;")
		case fUse:
			w.id(s, k.n, false)
			w.raw(";")
		case fAssign:
			w.id(s, k.n, false)
			w.raw("=1;")
		case fFuncDecl:
			w.raw("function ")
			w.id(s, k.n, false)
			w.raw("(){")
			w.list(k.b1, sc[0])
			w.raw("}")
		case fFuncDeclParam:
			w.raw("function ")
			w.id(s, k.n, false)
			w.raw("(")
			w.id(sc[0], k.m, false)
			w.raw("){")
			w.list(k.b1, sc[0])
			w.raw("}")
		case fClass:
			w.raw("class ")
			w.id(s, k.n, false)
			w.raw("{}")
		case fClassMethod:
			w.raw("class ")
			w.id(s, k.n, false)
			w.raw("{f(){")
			w.list(k.b1, sc[0])
			w.raw("}}")
		case fBlock:
			w.raw("{")
			w.list(k.b1, sc[0])
			w.raw("}")
		case fIfBlock:
			w.raw("if(")
			w.id(s, k.n, false)
			w.raw("){")
			w.list(k.b1, sc[0])
			w.raw("}else{")
			w.list(k.b2, sc[1])
			w.raw("}")
		case fForLet:
			w.raw("for(let ")
			w.id(sc[0], k.n, false)
			w.raw("=0;")
			w.id(sc[0], k.n, false)
			w.raw("<")
			w.id(sc[0], k.m, false)
			w.raw(";")
			w.id(sc[0], k.n, false)
			w.raw("++){")
			w.list(k.b1, sc[1])
			w.raw("}")
		case fForConstOf:
			w.raw("for(const ")
			w.id(sc[0], k.n, false)
			w.raw(" of ")
			w.id(sc[0], k.m, false) // the right-hand side is evaluated in the TDZ scope of the loop's own declaration
			w.raw("){")
			w.list(k.b1, sc[1])
			w.raw("}")
		case fForVarOf:
			w.raw("for(var ")
			w.id(s, k.n, false)
			w.raw(" of ")
			w.id(s, k.m, false)
			w.raw("){")
			w.list(k.b1, sc[0])
			w.raw("}")
		case fForIn:
			w.raw("for(")
			w.id(s, k.n, false)
			w.raw(" in ")
			w.id(s, k.m, false)
			w.raw("){")
			w.list(k.b1, sc[0])
			w.raw("}")
		case fTryCatch:
			w.raw("try{")
			w.list(k.b1, sc[0])
			w.raw("}catch(")
			w.id(sc[1], k.n, false)
			w.raw("){")
			w.list(k.b2, sc[2])
			w.raw("}")
		case fTryCatchNoBinding:
			w.raw("try{}catch{")
			w.list(k.b1, sc[0])
			w.raw("}")
		case fFuncExprNamed:
			w.raw("(function ")
			w.id(sc[0], k.n, false)
			w.raw("(){")
			w.list(k.b1, sc[1])
			w.raw("});")
		case fClassExprNamed:
			w.raw("(class ")
			w.id(sc[0], k.n, false)
			w.raw("{f(){")
			w.list(k.b1, sc[1])
			w.raw("}});")
		case fFuncExprParam:
			w.raw("(function(")
			w.id(sc[0], k.n, false)
			w.raw("){")
			w.list(k.b1, sc[0])
			w.raw("});")
		case fObjMethod:
			w.raw("({f(")
			w.id(sc[0], k.n, false)
			w.raw("){")
			w.list(k.b1, sc[0])
			w.raw("}});")
		case fObjMethod0:
			w.raw("({f(){")
			w.list(k.b1, sc[0])
			w.raw("}});")
		case fUseArr:
			w.raw("[")
			w.id(s, k.n, false)
			w.raw("];")
		case fUseObjKV:
			w.raw("({k:")
			w.id(s, k.n, false)
			w.raw("});")
		case fArrowParen:
			w.raw("((")
			w.id(sc[0], k.n, false)
			w.raw(")=>{")
			w.list(k.b1, sc[0])
			w.raw("});")
		case fAsyncArrow:
			w.raw("(async ")
			w.id(sc[0], k.n, false)
			w.raw("=>{")
			w.list(k.b1, sc[0])
			w.raw("});")
		case fArrowSingle:
			w.raw("(")
			w.id(sc[0], k.n, false)
			w.raw("=>")
			w.id(sc[0], k.m, false)
			w.raw(");")
		case fArrowBare:
			w.id(s, "q", false)
			w.raw("=")
			w.id(sc[0], k.n, false)
			w.raw("=>")
			w.id(sc[0], k.m, false)
			w.raw(";")
		case fAsyncArrowBare:
			w.id(s, "q", false)
			w.raw("=async ")
			w.id(sc[0], k.n, false)
			w.raw("=>{")
			w.list(k.b1, sc[0])
			w.raw("};")
		case fParamDefault:
			w.raw("(function(")
			w.id(sc[0], k.n, false)
			w.raw(",")
			w.id(sc[0], "p", false)
			w.raw("=")
			w.id(sc[0], k.n, true)
			w.raw("){")
			w.list(k.b1, sc[0])
			w.raw("});")
		case fDefaultOuter:
			w.raw("(function(")
			w.id(sc[0], "p", false)
			w.raw("=")
			w.id(sc[0], k.n, true)
			w.raw("){")
			w.list(k.b1, sc[0])
			w.raw("});")
		case fDefaultOuterRest:
			w.raw("(function(")
			w.id(sc[0], "p", false)
			w.raw("=")
			w.id(sc[0], k.n, true)
			w.raw(",...")
			w.id(sc[0], "r", false)
			w.raw("){")
			w.list(k.b1, sc[0])
			w.raw("});")
		case fObjMethodDefault, fClassMethodDefault:
			if k.form == fObjMethodDefault {
				w.raw("({f(")
			} else {
				w.raw("(class{f(")
			}
			w.id(sc[0], "p", false)
			w.raw("=")
			w.id(sc[0], k.n, true)
			w.raw("){")
			w.list(k.b1, sc[0])
			w.raw("}});")
		case fArrowPatternDefault:
			w.raw("(([")
			w.id(sc[0], "p", false)
			w.raw("]=[")
			w.id(sc[0], k.n, true)
			w.raw("])=>{")
			w.list(k.b1, sc[0])
			w.raw("});")
		case fAsyncArrowParen:
			w.raw("(async(")
			w.id(sc[0], k.n, false)
			w.raw(")=>{")
			w.list(k.b1, sc[0])
			w.raw("});")
		case fStaticBlock:
			w.raw("(class{static{")
			w.list(k.b1, sc[0])
			w.raw("}});")
		case fArrowComputedKey:
			w.raw("(({[[")
			w.id(sc[0], k.n, true)
			w.raw("]]:")
			w.id(sc[0], "p", false)
			w.raw("})=>{")
			w.list(k.b1, sc[0])
			w.raw("});")
		case fLetObj:
			w.raw("let {")
			w.id(s, k.n, false)
			w.raw("}=")
			w.id(s, k.m, false)
			w.raw(";")
		case fLetArr:
			w.raw("let [")
			w.id(s, k.n, false)
			w.raw("]=")
			w.id(s, k.m, false)
			w.raw(";")
		case fSwitchLet:
			w.raw("switch(")
			w.id(s, k.m, false)
			w.raw("){case 0:let ")
			w.id(sc[0], k.n, false)
			w.raw(";")
			w.list(k.b1, sc[0])
			w.raw("}")
		case fParenList:
			w.raw("(")
			w.id(s, k.n, false)
			w.raw(",")
			w.id(s, k.m, false)
			w.raw(");")
		case fParenAssign:
			w.raw("(")
			w.id(s, k.n, false)
			w.raw("=")
			w.id(s, k.m, false)
			w.raw(");")
		case fParenObj:
			w.raw("({")
			w.id(s, k.n, false)
			w.raw("});")
		case fLabel:
			w.raw("l:")
			w.id(s, k.n, false)
			w.raw(";")
		}
	}
}

// mentions lists, in source order, the occurrences of name x in a statement list (nested constructs and closures
// included): 'd' for a declaration that belongs to this list's scope (direct lexical declaration or a var hoisted out of
// nested blocks), 'u' for any other occurrence.
func mentions(list []*sk, x string, direct bool, out *[]byte) {
	for _, k := range list {
		decl := byte('u')
		switch k.form {
		case fLet, fConst, fLetObj, fLetArr, fClass, fClassMethod:
			if direct {
				decl = 'd'
			}
		case fVar, fVarInit, fForVarOf, fFuncDecl, fFuncDeclParam:
			decl = 'd' // hoists
		}
		blockLike := k.form == fBlock || k.form == fIfBlock || k.form == fForLet || k.form == fForVarOf || k.form == fForConstOf || k.form == fForIn || k.form == fTryCatch || k.form == fTryCatchNoBinding || k.form == fSwitchLet
		if k.n == x {
			switch k.form {
			case fVar, fVarInit, fLet, fConst, fLetObj, fLetArr, fClass, fClassMethod, fFuncDecl, fFuncDeclParam, fForVarOf:
				*out = append(*out, decl)
			default:
				*out = append(*out, 'u')
			}
		}
		if k.m == x {
			*out = append(*out, 'u')
		}
		if blockLike {
			mentions(k.b1, x, false, out)
			mentions(k.b2, x, false, out)
		} else {
			var inner []byte
			mentions(k.b1, x, false, &inner)
			mentions(k.b2, x, false, &inner)
			for range inner {
				*out = append(*out, 'u') // inside a nested function every mention is a (closure) use for the outer list
			}
		}
	}
}

// declaresDirectly: the statement list declares x for its own scope, and some other mention of x comes first in source order
func declaresDirectly(list []*sk, x string) bool {
	var m []byte
	mentions(list, x, true, &m)
	seenUse := false
	for _, b := range m {
		if b == 'u' {
			seenUse = true
		} else if seenUse {
			return true
		}
	}
	return false
}

func hoistsVar(list []*sk, x string) bool {
	for _, k := range list {
		switch k.form {
		case fVar, fVarInit, fForVarOf:
			if k.n == x {
				return true
			}
		}
		switch k.form {
		case fBlock, fIfBlock, fForLet, fForVarOf, fForConstOf, fForIn, fTryCatch, fTryCatchNoBinding, fSwitchLet:
			if hoistsVar(k.b1, x) || hoistsVar(k.b2, x) {
				return true
			}
		}
	}
	return false
}

// headBodyNames: names that occur in the head of a loop or in a parameter default (or are declared by a for head)
// and are declared again in that construct's body *after* another mention of the name in the body (use before declaration). The parser keeps head and body in one scope and one Var per
// name, so it cannot give the head occurrence and a body use-before-declaration different bindings (known finding).
func headBodyNames(list []*sk, out map[string]bool) {
	for _, k := range list {
		switch k.form {
		case fForVarOf, fForConstOf, fForIn, fForLet:
			for _, x := range []string{k.n, k.m} {
				if x != "" && declaresDirectly(k.b1, x) {
					out[x] = true
				}
			}
		case fParamDefault, fDefaultOuter, fDefaultOuterRest, fArrowComputedKey, fObjMethodDefault, fClassMethodDefault, fArrowPatternDefault:
			if declaresDirectly(k.b1, k.n) {
				out[k.n] = true
			}
		}
		headBodyNames(k.b1, out)
		headBodyNames(k.b2, out)
	}
}

// resolveProgram returns the source, the occurrences with their bindings, and the verdict ("", "redecl", "ambiguous").
func resolveProgram(prog []*sk) (string, []occ, string) {
	// (bindings ≥1000 mark class-expression names, ≥2000 function-expression names)
	r := &resolver{scopeOf: map[*sk][]*rscope{}, classExpr: map[int]bool{}, funcExpr: map[int]bool{}}
	top := newScope(scFunc, nil)
	r.declare(prog, top, true)
	w := &renderer{r: r}
	w.list(prog, top)
	// encode the kind of special bindings in the occurrence list: class-expression names as 1000+id, function-expression names as 2000+id
	for i, o := range w.occs {
		if r.classExpr[o.binding] {
			w.occs[i].binding += 1000
		} else if r.funcExpr[o.binding] {
			w.occs[i].binding += 2000
		}
	}
	return w.sb.String(), w.occs, r.err
}

// ---- the parser's answer ----

func collectScopes(v reflect.Value, out *[]*js.Scope) {
	switch v.Kind() {
	case reflect.Interface, reflect.Ptr:
		if v.IsNil() {
			return
		}
		if v.Kind() == reflect.Ptr && v.Type().Elem() == tScope {
			return // parent/func links and VarDecl.Scope point to scopes found elsewhere
		}
		collectScopes(v.Elem(), out)
	case reflect.Struct:
		if v.Type() == tScope {
			if v.CanAddr() {
				*out = append(*out, (*js.Scope)(unsafe.Pointer(v.UnsafeAddr())))
			}
			return
		}
		t := v.Type()
		for i := 0; i < t.NumField(); i++ {
			if t == tVar {
				return
			}
			fv := v.Field(i)
			if !fv.CanInterface() && fv.CanAddr() {
				fv = reflect.NewAt(fv.Type(), unsafe.Pointer(fv.UnsafeAddr())).Elem()
			}
			collectScopes(fv, out)
		}
	case reflect.Slice:
		if v.Type().Elem().Kind() == reflect.Uint8 {
			return
		}
		for i := 0; i < v.Len(); i++ {
			collectScopes(v.Index(i), out)
		}
	}
}

func c04Run(c *engine.Ctx, in []byte, args map[string]string) {
	// args: verdict, occs = name:binding,...
	verdict := args["verdict"]
	ast, err := jsParseCopy(in, js.Options{})
	if verdict == "redecl" {
		if err == nil {
			c.Fail("redeclaration-accepted", fmt.Sprintf("program %q declares one lexical name twice in a scope but is accepted: %s", in, ast.String()))
		}
		return
	}
	if err != nil {
		c.Fail("valid-rejected", fmt.Sprintf("program %q is rejected: %s", in, firstLine(err)))
		return
	}
	var occs []occ
	for _, f := range strings.Split(args["occs"], ",") {
		if f == "" {
			continue
		}
		i := strings.LastIndexByte(f, ':')
		var b int
		fmt.Sscanf(f[i+1:], "%d", &b)
		occs = append(occs, occ{f[:i], b})
	}
	// rename every declared Var
	var scopes []*js.Scope
	collectScopes(reflect.ValueOf(ast), &scopes)
	fresh := map[*js.Var]string{}
	usesOf := map[string]int{}
	for _, s := range scopes {
		for _, v := range s.Declared {
			if _, done := fresh[v]; done {
				continue
			}
			if v.Decl == js.PrivateDecl {
				continue
			}
			name := fmt.Sprintf("v_%d", len(fresh))
			fresh[v] = name
			usesOf[name] = int(v.Uses)
			v.Data = []byte(name)
		}
	}
	out := ast.JSString()
	if _, err := jsParseCopy([]byte(out), js.Options{}); err != nil {
		c.Fail("renamed-program-rejected", fmt.Sprintf("program %q after renaming every declared variable prints as %q, which does not parse: %s", in, out, firstLine(err)))
		return
	}
	// identifier sequence of the output (reference lexer of C06)
	ref := refJSLex([]byte(out), nil)
	if ref.outside {
		c.Fail("renamed-program-rejected", fmt.Sprintf("program %q renamed prints as %q, which the reference lexer does not accept (%s)", in, out, ref.why))
		return
	}
	var got []string
	for i, t := range ref.toks {
		if t.tt == js.IdentifierToken {
			s := out[t.start:t.end]
			if s == "f" || s == "l" {
				continue // method name and label of the generator: not variables
			}
			j := i + 1
			for j < len(ref.toks) && (ref.toks[j].tt == js.WhitespaceToken || ref.toks[j].tt == js.LineTerminatorToken) {
				j++
			}
			if j < len(ref.toks) && ref.toks[j].tt == js.ColonToken {
				continue // a property key written out because the shorthand variable was renamed
			}
			got = append(got, s)
		}
	}
	// property keys are not bindings: a shorthand property {n} whose variable is renamed has to be written out as n: v_i,
	// so the keys of the output are the keys of the source plus the names of the shorthand properties whose variable prints under another name
	keysOf := func(text string, toks []rjTok, shorthand func(idx int) bool) []string {
		var keys []string
		idx := -1
		sig := func(i, d int) int { // next significant token in direction d
			for i += d; i >= 0 && i < len(toks) && (toks[i].tt == js.WhitespaceToken || toks[i].tt == js.LineTerminatorToken); i += d {
			}
			return i
		}
		for i, t := range toks {
			if t.tt != js.IdentifierToken {
				continue
			}
			name := text[t.start:t.end]
			if name == "f" || name == "l" {
				continue
			}
			if j := sig(i, 1); j < len(toks) && toks[j].tt == js.ColonToken {
				keys = append(keys, name)
				continue
			}
			idx++
			if a, b := sig(i, -1), sig(i, 1); shorthand != nil && a >= 0 && b < len(toks) && toks[a].tt == js.OpenBraceToken && toks[b].tt == js.CloseBraceToken && shorthand(idx) {
				keys = append(keys, name)
			}
		}
		return keys
	}
	if len(got) != len(occs) {
		c.Fail("identifier-count", fmt.Sprintf("program %q has %d identifier occurrences, the renamed output %q has %d", in, len(occs), out, len(got)))
		return
	}
	if srcRef := refJSLex([]byte(in), nil); !srcRef.outside {
		wantKeys := keysOf(string(in), srcRef.toks, func(idx int) bool { return idx < len(got) && got[idx] != occs[idx].name })
		gotKeys := keysOf(out, ref.toks, nil)
		if strings.Join(wantKeys, ",") != strings.Join(gotKeys, ",") {
			c.Fail("property-key-changed", fmt.Sprintf("program %q after renaming prints as %q: its property keys are %v, the source has %v (a shorthand property of a renamed variable must keep its key)", in, out, gotKeys, wantKeys))
			return
		}
	}
	hb := args["hb"]
	knownFamily := false
	failN := func(o occ, clause, msg string) bool {
		if o.binding >= 1000 && o.binding < 2000 {
			clause = "class-expr-name:" + clause
			knownFamily = true
		} else if o.name != "" && strings.Contains(hb, o.name) {
			clause = "head-vs-body-decl:" + clause
			knownFamily = true
		} else {
			c.Fail(clause, msg)
			return true // stop: a new kind of failure
		}
		c.Fail(clause, msg)
		return false // a known finding (see known_findings.txt): keep checking the other occurrences
	}
	b2n := map[int]string{}
	n2b := map[string]int{}
	printed := map[string]int{}
	for i, o := range occs {
		g := got[i]
		printed[g]++
		if o.binding < 0 {
			if g != o.name {
				if failN(o, "global-renamed", fmt.Sprintf("program %q: occurrence %d of %q is bound nowhere (a global) but prints as %q in %q", in, i, o.name, g, out)) {
					return
				}
				continue
			}
			continue
		}
		if !strings.HasPrefix(g, "v_") && o.binding >= 1000 && o.binding < 2000 {
			failN(o, "binding-not-renamed", fmt.Sprintf("program %q: the name %q of a class expression is a Var in no scope (prints as %q in %q)", in, o.name, g, out))
			continue
		}
		if !strings.HasPrefix(g, "v_") {
			if failN(o, "binding-not-renamed", fmt.Sprintf("program %q: occurrence %d of %q denotes a declared binding but prints as %q in %q (treated as undeclared, or its declaration is in no scope)", in, i, o.name, g, out)) {
				return
			}
			continue
		}
		if n, ok := b2n[o.binding]; ok && n != g {
			if failN(o, "one-binding-two-vars", fmt.Sprintf("program %q: occurrences of binding #%d (%q) print as %q and %q in %q: one binding is split over two Vars", in, o.binding, o.name, n, g, out)) {
				return
			}
			continue
		}
		if b, ok := n2b[g]; ok && b != o.binding {
			// a function-expression name that is fully shadowed by a declaration of the same name in its own
			// function has its declaration as only occurrence: sharing a Var with the shadowing binding cannot change meaning
			fe, other := b, o.binding
			if !(fe >= 2000) {
				fe, other = o.binding, b
			}
			if fe >= 2000 {
				cnt := 0
				for _, x := range occs {
					if x.binding == fe {
						cnt++
					}
				}
				if cnt == 1 && occs[0].name != "" {
					// the shadowing binding is now known under this name: its other occurrences must agree
					if o.binding == other {
						if _, known := b2n[other]; !known {
							b2n[other] = g
						}
					}
					continue
				}
			}
			if failN(occ{o.name, map[bool]int{true: b, false: o.binding}[b >= 1000 && b < 2000]}, "two-bindings-one-var", fmt.Sprintf("program %q: %q is printed for two different bindings (#%d and #%d, name %q) in %q: different bindings share one Var", in, g, b, o.binding, o.name, out)) {
				return
			}
			continue
		}
		b2n[o.binding], n2b[g] = g, o.binding
	}
	if knownFamily {
		return // Uses of the affected Vars are necessarily off as well
	}
	for name, uses := range usesOf {
		if printed[name] != uses {
			c.Fail("uses-count", fmt.Sprintf("program %q: Var printed as %q has Uses=%d but its name is printed %d times in %q", in, name, uses, printed[name], out))
			return
		}
	}
	// undeclared variables of the outermost scope
	for _, v := range ast.BlockStmt.Scope.Undeclared {
		if v.Decl != js.NoDecl {
			c.Fail("undeclared-table", fmt.Sprintf("program %q: outermost Undeclared holds %q with Decl=%s", in, v.Data, v.Decl))
			return
		}
		if n := printed[string(v.Data)]; n != int(v.Uses) {
			c.Fail("uses-count", fmt.Sprintf("program %q: undeclared %q has Uses=%d but is printed %d times in %q", in, v.Data, v.Uses, n, out))
			return
		}
	}
	c.Observe(engine.Hash64([]byte(out)))
}

// c04Many: one declared and one undeclared name with n occurrences each: Uses must count them all.
// input = n in decimal
func c04Many(c *engine.Ctx, in []byte, args map[string]string) {
	n, _ := strconv.Atoi(string(in))
	src := "var a;" + strings.Repeat("a;b;", n)
	ast, err := jsParseCopy([]byte(src), js.Options{})
	if err != nil {
		c.Fail("valid-rejected", fmt.Sprintf("\"var a;\" + \"a;b;\"×%d is rejected: %s", n, firstLine(err)))
		return
	}
	for _, v := range ast.BlockStmt.Scope.Declared {
		if string(v.Data) == "a" && int(v.Uses) != n+1 {
			c.Fail("uses-count-wraps", fmt.Sprintf("\"var a;\" + \"a;b;\"×%d: the declared a is printed %d times but has Uses=%d", n, n+1, v.Uses))
			return
		}
	}
	for _, v := range ast.BlockStmt.Scope.Undeclared {
		if string(v.Data) == "b" && int(v.Uses) != n {
			c.Fail("uses-count-wraps", fmt.Sprintf("\"var a;\" + \"a;b;\"×%d: the undeclared b is printed %d times but has Uses=%d", n, n, v.Uses))
			return
		}
	}
}

func c04Setup(c *engine.Ctx) {
	c.Register(&engine.Space{Name: "scope", Run: c04Run, NoMinimise: true})
	c.Register(&engine.Space{Name: "scope-many", Run: c04Many, NoMinimise: true})
}

// enumeration of skeletons with exactly n nodes
func enumSkeletons(forms []skForm, names []string, n int, funcLevel bool, f func([]*sk)) {
	// a statement list with n nodes in total: first statement takes k nodes (1 + its bodies), the rest n-k
	var list func(n int, funcLevel bool, done func([]*sk))
	var stmt func(n int, funcLevel bool, done func(*sk))
	stmt = func(n int, funcLevel bool, done func(*sk)) {
		for _, fm := range forms {
			nb := fm.bodies()
			if nb == 0 && n != 1 {
				continue
			}
			if fm == fFuncDeclParam && !funcLevel {
				continue // block-level function declarations are generated in the parameterless form only (bounds)
			}
			for _, nm := range names {
				ms := []string{""}
				if fm.usesM() {
					ms = names
				}
				for _, m := range ms {
					switch nb {
					case 0:
						done(&sk{form: fm, n: nm, m: m})
					case 1:
						bodyFuncLevel := fm != fBlock && fm != fForLet && fm != fForVarOf && fm != fForConstOf && fm != fForIn && fm != fTryCatchNoBinding && fm != fSwitchLet
						list(n-1, bodyFuncLevel, func(b []*sk) { done(&sk{form: fm, n: nm, m: m, b1: b}) })
					case 2:
						for a := 0; a <= n-1; a++ {
							list(a, false, func(b1 []*sk) {
								list(n-1-a, false, func(b2 []*sk) { done(&sk{form: fm, n: nm, m: m, b1: b1, b2: b2}) })
							})
						}
					}
				}
			}
		}
	}
	list = func(n int, funcLevel bool, done func([]*sk)) {
		if n == 0 {
			done(nil)
			return
		}
		for k := 1; k <= n; k++ {
			stmt(k, funcLevel, func(s *sk) {
				list(n-k, funcLevel, func(rest []*sk) {
					done(append([]*sk{s}, rest...))
				})
			})
		}
	}
	list(n, funcLevel, f)
}

func c04Work(c *engine.Ctx) {
	sp := c.SpaceByName("scope")
	k := 0
	for _, n := range []int{1000, 65534, 65535, 65536, 70000} {
		k++
		if c.Mine(k) {
			c.Exec(c.SpaceByName("scope-many"), []byte(strconv.Itoa(n)), nil)
			c.Count("exec", 1)
		}
	}
	emit := func(prog []*sk) {
		k++
		if !c.Mine(k) {
			return
		}
		src, occs, verdict := resolveProgram(prog)
		if verdict == "ambiguous" {
			c.Count("skipped_ambiguous", 1)
			return
		}
		var sb strings.Builder
		for _, o := range occs {
			fmt.Fprintf(&sb, "%s:%d,", o.name, o.binding)
		}
		hb := map[string]bool{}
		headBodyNames(prog, hb)
		hbs := ""
		for x := range hb {
			hbs += x
		}
		c.Exec(sp, []byte(src), map[string]string{"verdict": verdict, "occs": sb.String(), "hb": hbs})
		c.Count("exec", 1)
		c.Count("distinct_nontrivial", 1)
		if verdict == "redecl" {
			c.Count("redeclarations", 1)
		}
		if k%30011 == 0 {
			c.Sample(src)
		}
	}
	var all []skForm
	for f := skForm(0); f < numForms; f++ {
		all = append(all, f)
	}
	core := []skForm{fVar, fLet, fUse, fAssign, fFuncDecl, fClass, fBlock, fForLet, fForVarOf, fTryCatch, fFuncExprNamed, fFuncExprParam, fArrowParen, fArrowSingle, fParamDefault, fDefaultOuter, fParenList, fParenObj, fSwitchLet}
	small := []skForm{fVar, fLet, fUse, fFuncDecl, fBlock, fForLet, fFuncExprParam, fArrowParen, fTryCatch, fParenList}
	ab := []string{"a", "b"}
	tiny := []skForm{fVar, fLet, fUse, fBlock, fFuncExprParam, fForLet}
	for n := 1; n <= 2; n++ {
		enumSkeletons(all, ab, n, true, emit)
	}
	if c.Thorough() {
		enumSkeletons(all, ab, 3, true, emit)
		enumSkeletons(core, ab, 4, true, emit)
		enumSkeletons(small, ab, 5, true, emit)
		enumSkeletons(core, []string{"a", "b", "c"}, 3, true, emit)
		enumSkeletons(tiny, ab, 6, true, emit)
	} else {
		enumSkeletons(core, ab, 3, true, emit)
		enumSkeletons(all, []string{"a"}, 3, true, emit)
		enumSkeletons(small, ab, 4, true, emit)
		enumSkeletons(tiny, ab, 5, true, emit)
	}
}

func c04Finish(c *engine.Ctx, cov map[string]interface{}) string {
	cov["skipped_ambiguous"] = c.Counters["skipped_ambiguous"]
	if c.Counters["exec"] < 100000 || c.Counters["redeclarations"] < 1000 {
		return fmt.Sprintf("vacuous: programs=%d redeclarations=%d", c.Counters["exec"], c.Counters["redeclarations"])
	}
	return ""
}

func init() {
	register(&engine.Check{
		ID: "C04", Level: "exploration",
		Rule:        "all scope skeletons with ≤3 nodes over 41 statement forms (var/let/const/class/function declarations, uses, assignments, blocks, if/else blocks, for(let;;), for-of with var/const, for-in, try/catch with and without binding, named and anonymous function expressions, parenthesised/single/async arrows, methods, parameters with default values referring to another parameter or to an outer/body name, object and array destructuring, switch with a lexical declaration, parenthesised lists/assignments/object literals that look like arrow heads, labels, named class expressions, rest parameters after a default value, class static blocks, computed keys in arrow parameter patterns, default values in object and class methods, async arrows with parenthesised parameters, default values of patterns in arrow parameters) × names {a,b}, with 4 nodes over a 19-form core and with 5 (6) nodes over a 10-form core; every order of statements (use before declaration, hoisting through nested and sibling blocks, shadowing at every level). A textbook resolver labels every identifier occurrence with its binding (or global) and predicts lexical redeclarations; the parser's resolution is observed by giving every Var in every Scope.Declared a fresh name, printing with JS(), re-lexing the output with the reference lexer and comparing the identifier sequence (same binding ⇔ same fresh name, globals unchanged), re-parsing it, and comparing every Var.Uses with the number of times its name is printed",
		Assumptions: []string{"programs on which 'var/function hoist to the enclosing function' and ES2022 disagree or that are invalid for reasons other than a lexical redeclaration (var vs let of one name, function vs var, duplicate parameters, block-level function declarations, Annex B catch-parameter cases) are counted as skipped_ambiguous", "a body-level var of the same name as a parameter denotes the parameter's binding"},
		Setup:       c04Setup, Work: c04Work, Finish: c04Finish,
	})
}
