package main

// C02 — tokens are faithful, ordered, non-empty slices of the input.

import (
	"bytes"
	"fmt"
	"unicode/utf8"

	"verifmc/engine"

	parse "github.com/tdewolff/parse/v2"
	"github.com/tdewolff/parse/v2/css"
	"github.com/tdewolff/parse/v2/html"
	"github.com/tdewolff/parse/v2/js"
	"github.com/tdewolff/parse/v2/xml"
)

var c02Spaces = []string{"css-lex", "js-lex", "html-lex", "xml-lex"}

func isWS(c byte) bool { return c == ' ' || c == '\t' || c == '\n' || c == '\r' || c == '\f' }

// subRange returns the [a,b) offsets of sub inside arr when it aliases it.
func subRange(arr, sub []byte) (int, int, bool) {
	if len(sub) == 0 {
		return 0, 0, false
	}
	off, ok := aliasOffset(arr, sub)
	if !ok {
		return 0, 0, false
	}
	return off, off + len(sub), true
}

func c02Lex(space string) engine.RunFunc {
	isHTML, isXML, isCSS, isJS := space == "html-lex", space == "xml-lex", space == "css-lex", space == "js-lex"
	return func(c *engine.Ctx, in []byte, args map[string]string) {
		n := len(in)
		if isJS && !utf8.Valid(in) {
			return // outside the quantifier: rune boundaries unspecified
		}
		if cap(in) == n {
			in = append(make([]byte, 0, n+1), in...)
		}
		P := append([]byte{}, in...) // pristine copy
		s := openStream(space, args, in)
		arr := in[:n+1]
		prevEnd := 0
		sawError := false
		inTag := false // html/xml: between a start tag and its closer
		// allowed rewrite positions
		var lowerOK, spaceOK []bool
		if isHTML {
			lowerOK = make([]bool, n)
		}
		if isXML {
			spaceOK = make([]bool, n)
		}
		limit := 4*n + 17
		var obs uint64 = 14695981039346656037
		for call := 1; ; call++ {
			tt, tok := s.next()
			off := s.off()
			if tt == 0 && len(tok) == 0 {
				if isHTML && prevEnd < n && P[prevEnd] == '<' {
					// an error inside an svg or math subtree: no token is delivered, but the name of its opening tag, where
					// the failing call began, is a tag name all the same
					for i := prevEnd + 1; i < n; i++ {
						if b := P[i]; !('a' <= b && b <= 'z' || 'A' <= b && b <= 'Z') {
							break
						}
						lowerOK[i] = true
					}
				}
				// error token without data: whitespace moved over inside a tag may stay uncovered
				if (isHTML || isXML) && inTag {
					for i := prevEnd; i < off && i < n; i++ {
						if !isWS(P[i]) {
							c.Fail("uncovered-bytes", fmt.Sprintf("byte %d (%q) before the error report is covered by no token and is not whitespace", i, P[i]))
							break
						}
					}
				}
				break
			}
			if off < 0 || off > n || len(tok) > off {
				c.Fail("token-position", fmt.Sprintf("call %d: token %s %q with cursor offset %d of %d", call, s.ttName(tt), tok, off, n))
				return
			}
			start := off - len(tok)
			// the token is the piece of the input ending at the offset
			if a, b, ok := subRange(arr, tok); len(tok) > 0 && (!ok || a != start || b != off) {
				c.Fail("token-not-slice", fmt.Sprintf("call %d: token %s %q is not input[%d:%d] (aliases=%v range=[%d,%d))", call, s.ttName(tt), tok, start, off, ok, a, b))
				return
			}
			if tt != 0 && len(tok) == 0 {
				c.Fail("empty-token", fmt.Sprintf("call %d: non-error token %s is empty at offset %d", call, s.ttName(tt), off))
				return
			}
			if start < prevEnd {
				c.Fail("token-order", fmt.Sprintf("call %d: token %s %q starts at %d, before the end %d of the previous token", call, s.ttName(tt), tok, start, prevEnd))
				return
			}
			// content vs pristine copy, with the documented rewrites only
			for i := start; i < off; i++ {
				g, w := tok[i-start], P[i]
				if g == w {
					continue
				}
				if isHTML && 'A' <= w && w <= 'Z' && g == w+'a'-'A' {
					continue
				}
				if isXML && (w == '\t' || w == '\n' || w == '\r') && g == ' ' {
					continue
				}
				c.Fail("token-content", fmt.Sprintf("call %d: token %s %q differs from the source bytes %q", call, s.ttName(tt), tok, P[start:off]))
				return
			}
			// gaps
			if start > prevEnd {
				if (isCSS || isJS) && !sawError {
					c.Fail("skipped-bytes", fmt.Sprintf("call %d: bytes [%d:%d) %q are covered by no token", call, prevEnd, start, P[prevEnd:start]))
					return
				}
				if isHTML || isXML {
					closer := false
					if isHTML {
						closer = html.TokenType(tt) == html.StartTagCloseToken || html.TokenType(tt) == html.StartTagVoidToken
					} else {
						t := xml.TokenType(tt)
						closer = t == xml.StartTagCloseToken || t == xml.StartTagCloseVoidToken || t == xml.StartTagClosePIToken
					}
					if !closer || !inTag {
						c.Fail("uncovered-bytes", fmt.Sprintf("call %d: bytes [%d:%d) %q before %s are covered by no token outside a tag", call, prevEnd, start, P[prevEnd:start], s.ttName(tt)))
						return
					}
					for i := prevEnd; i < start; i++ {
						if !isWS(P[i]) {
							c.Fail("uncovered-bytes", fmt.Sprintf("call %d: uncovered byte %d (%q) inside a tag is not whitespace", call, i, P[i]))
							return
						}
					}
				}
			}
			// sub-slices
			if s.extras != nil && tt != 0 {
				for k, e := range s.extras() {
					if len(e) == 0 {
						continue
					}
					a, b, ok := subRange(arr, e)
					if !ok || a < start || b > off {
						c.Fail("accessor-outside-token", fmt.Sprintf("call %d: accessor %d %q is not a sub-slice of token %s %q", call, k, e, s.ttName(tt), tok))
						return
					}
				}
			}
			// allowed rewrite ranges
			if isHTML {
				t := html.TokenType(tt)
				switch t {
				case html.StartTagToken, html.EndTagToken:
					if a, b, ok := subRange(arr, s.htmlL.Text()); ok {
						// Text() of an end tag runs to the '>': the tag name and whatever stands where attribute names
						// would stand are names, attribute values are not
						inValue, quote, inTagName := false, byte(0), true
						for i := a; i < b; i++ {
							ch := P[i]
							if inTagName && (isWS(ch) || ch == '/') {
								inTagName = false
							}
							switch {
							case t != html.EndTagToken || inTagName:
								lowerOK[i] = true
							case quote != 0:
								if ch == quote {
									quote, inValue = 0, false
								}
							case inValue:
								if ch == '"' || ch == '\'' {
									if i > a && (P[i-1] == '=' || isWS(P[i-1])) {
										quote = ch
									}
								} else if isWS(ch) && i > a && P[i-1] != '=' && !isWS(P[i-1]) {
									inValue = false
								}
							case ch == '=' && i > a && !isWS(P[i-1]) && P[i-1] != '/':
								inValue = true
							default:
								lowerOK[i] = true // incl. a '=' where a name starts, which HTML reads as part of the name
							}
						}
					}
				case html.AttributeToken:
					if a, b, ok := subRange(arr, s.htmlL.AttrKey()); ok {
						for i := a; i < b; i++ {
							lowerOK[i] = true
						}
					}
				case html.SVGToken, html.MathToken, html.XMLToken:
					// the whole subtree is one token; its opening tag name is a tag name
					for i := start + 1; i < off; i++ {
						if b := P[i]; isWS(b) || b == '>' || b == '/' || b == 0 || !('a' <= b && b <= 'z' || 'A' <= b && b <= 'Z') {
							break
						}
						lowerOK[i] = true
					}
				}
				switch t {
				case html.StartTagToken:
					inTag = true
				case html.StartTagCloseToken, html.StartTagVoidToken:
					inTag = false
				}
			}
			if isXML {
				t := xml.TokenType(tt)
				if t == xml.AttributeToken {
					if a, b, ok := subRange(arr, s.xmlL.AttrVal()); ok && b-a >= 2 && (P[a] == '"' || P[a] == '\'') {
						for i := a + 1; i < b; i++ {
							spaceOK[i] = true
						}
					}
				}
				switch t {
				case xml.StartTagToken, xml.StartTagPIToken:
					inTag = true
				case xml.StartTagCloseToken, xml.StartTagCloseVoidToken, xml.StartTagClosePIToken:
					inTag = false
				}
			}
			// appending to the token must not write into the input
			if len(tok) > 0 {
				before := arr[off]
				_ = append(tok, before^0x5a)
				if arr[off] != before {
					arr[off] = before
					c.Fail("append-overwrites", fmt.Sprintf("call %d: append(token, x) overwrote input byte %d (cap %d > len %d)", call, off, cap(tok), len(tok)))
					return
				}
			}
			// re-lex on its own (css, js; tokens before the first lexical error)
			if tt != 0 && !sawError {
				if isCSS {
					c02RelexCSS(c, css.TokenType(tt), tok)
				} else if isJS {
					c02RelexJS(c, js.TokenType(tt), tok)
				}
			}
			if tt == 0 {
				sawError = true
			}
			if isCSS && (css.TokenType(tt) == css.BadStringToken || css.TokenType(tt) == css.BadURLToken) {
				sawError = true // lexical error tokens of CSS
			}
			prevEnd = off
			obs = (obs ^ uint64(tt)) * 1099511628211
			obs = (obs ^ uint64(off)) * 1099511628211
			if call > limit {
				break // termination is C01's business
			}
		}
		c.Observe(obs)
		// bytes altered in place
		for i := 0; i < n; i++ {
			if in[i] == P[i] {
				continue
			}
			if isHTML && 'A' <= P[i] && P[i] <= 'Z' && in[i] == P[i]+'a'-'A' && lowerOK[i] {
				continue
			}
			if isXML && (P[i] == '\t' || P[i] == '\n' || P[i] == '\r') && in[i] == ' ' && spaceOK[i] {
				continue
			}
			c.Fail("input-altered", fmt.Sprintf("input byte %d changed from %q to %q outside the documented rewrites (tag/attribute-name case in HTML, tab/newline in quoted XML attribute values)", i, P[i], in[i]))
			return
		}
	}
}

func c02RelexCSS(c *engine.Ctx, tt css.TokenType, tok []byte) {
	b := append(make([]byte, 0, len(tok)+1), tok...)
	l := css.NewLexer(parse.NewInputBytes(b))
	t1, d1 := l.Next()
	t2, _ := l.Next()
	if t1 != tt || !bytes.Equal(d1, tok) || t2 != css.ErrorToken {
		c.Fail("relex", fmt.Sprintf("css token %s %q lexed on its own gives %s %q then %s", tt, tok, t1, d1, t2))
	}
}

func c02RelexJS(c *engine.Ctx, tt js.TokenType, tok []byte) {
	prefix := ""
	switch tt {
	case js.TemplateMiddleToken, js.TemplateEndToken:
		prefix = "`${" // the state that makes '}' resume a template
	case js.RegExpToken:
		return // recognised only through RegExp(); see C06
	}
	b := append(make([]byte, 0, len(prefix)+len(tok)+1), prefix...)
	b = append(b, tok...)
	l := js.NewLexer(parse.NewInputBytes(b))
	if prefix != "" {
		if t0, _ := l.Next(); t0 != js.TemplateStartToken {
			c.Fail("relex", fmt.Sprintf("harness: prefix %q did not lex as TemplateStart", prefix))
			return
		}
	}
	t1, d1 := l.Next()
	t2, _ := l.Next()
	// a template head/middle leaves the lexer inside a substitution: the
	// follow-up token then is the end of input as well
	if t1 != tt || !bytes.Equal(d1, tok) || t2 != js.ErrorToken {
		c.Fail("relex", fmt.Sprintf("js token %s %q lexed on its own gives %s %q then %s", tt, tok, t1, d1, t2))
	}
}

func c02Setup(c *engine.Ctx) {
	for _, sp := range c02Spaces {
		c.Register(&engine.Space{Name: sp, Run: c02Lex(sp)})
	}
}

func c02Work(c *engine.Ctx) {
	plans := []enumPlan{
		{alphaCSS, c.Pick(4, 4), []string{"css-lex"}},
		{alphaCSSCore, c.Pick(4, 5), []string{"css-lex"}},
		{alphaHTML, c.Pick(3, 4), []string{"html-lex"}},
		{alphaHTMLCore, c.Pick(4, 5), []string{"html-lex"}},
		{alphaXML, c.Pick(4, 5), []string{"xml-lex"}},
		{alphaJS, c.Pick(2, 3), []string{"js-lex"}},
		{alphaJSCore, c.Pick(4, 5), []string{"js-lex"}},
	}
	for pi, pl := range plans {
		al := engine.NewAlphabet(pl.alpha)
		cfgs := cfgsFor(pl.spaces)
		spaces := make([]*engine.Space, len(cfgs))
		for i, cf := range cfgs {
			spaces[i] = c.SpaceByName(cf.space)
		}
		tmp := make([]byte, 0, 128)
		lvl := c.EnumSeq(al, 0, pl.maxLen, func(in []byte, idx []int) {
			for i, cf := range cfgs {
				tmp = append(tmp[:0], in...)
				tmp = append(tmp, 0xEE)
				c.Exec(spaces[i], tmp[:len(in)], cf.args)
				c.Count("exec", 1)
			}
			if len(idx) >= 2 && al.Canonical(idx, in) {
				c.Count("distinct_nontrivial", 1)
			}
			if len(idx) == pl.maxLen && c.Counters["exec"]%40009 == 0 {
				c.Sample(fmt.Sprintf("%s: %q", pl.spaces[0], in))
			}
		})
		c.Count(fmt.Sprintf("min:level_plan%d_%s", pi, pl.spaces[0]), int64(lvl))
	}
	// edit balls around the seeds
	for _, pl := range seedPlans() {
		var sps []string
		for _, sp := range pl.spaces {
			if c.SpaceByName(sp) != nil {
				sps = append(sps, sp)
			}
		}
		if len(sps) == 0 {
			continue
		}
		cfgs := cfgsFor(sps)
		tmp := make([]byte, 0, 1024)
		for _, seed := range pl.seeds {
			seen := map[uint64]struct{}{}
			one := func(in []byte) {
				h := engine.Hash64(in)
				if _, dup := seen[h]; dup {
					return
				}
				seen[h] = struct{}{}
				c.Count("distinct_nontrivial", 1)
				for _, cf := range cfgs {
					tmp = append(tmp[:0], in...)
					tmp = append(tmp, 0xEE)
					c.Exec(c.SpaceByName(cf.space), tmp[:len(in)], cf.args)
					c.Count("exec", 1)
					c.Count("edit-ball-exec", 1)
				}
			}
			c.EditBall([]byte(seed), pl.alpha, one)
			c.ByteSweep([]byte(seed), true, one)
		}
	}
}

func init() {
	register(&engine.Check{
		ID: "C02", Level: "exploration",
		Rule:        "all atom sequences up to the per-alphabet bound and all single-edit neighbours/truncations of the seed catalogue through css.Lexer, js.Lexer×{Next only, RegExp() after / and /=} (valid UTF-8 only), html.Lexer×{plain, each delimiter pair}, xml.Lexer; after every Next: token == input[offset-len:offset] (pointer identity and content vs a pristine copy modulo the two documented rewrites), strictly increasing non-overlapping, non-empty, gap rules, accessors inside the token, append safety, single-token re-lex (css/js); after the run: the set of altered input bytes. distinct_nontrivial = canonical sequences of ≥2 atoms + distinct edit-ball members",
		Assumptions: []string{"JS template middle/tail tokens are re-lexed after the prefix `${ that recreates the lexer state in which they are tokens; RegExp tokens are covered by C06", "CSS BadString/BadURL count as lexical errors for the re-lex clause"},
		Setup:       c02Setup, Work: c02Work,
	})
}
