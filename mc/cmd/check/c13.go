package main

// C13 — buffer.StreamLexer: chunking-independent cursor, unfreed tokens
// intact, ShiftLen exact, bounded memory. Explicit-state, deviation-bounded
// search over operation histories and reader answers on the real object.

import (
	"bytes"
	"encoding/binary"
	"fmt"
	"io"
	"os"
	"reflect"
	"strconv"
	"strings"
	"unicode/utf8"
	"unsafe"

	"verifmc/engine"

	"github.com/tdewolff/parse/v2/buffer"
)

// ---- scripted reader (the environment) ----

const (
	ansDefault    = iota // as much as fits
	ansZero              // (0, nil)
	ansOne               // 1 byte
	ansTwo               // 2 bytes
	ansAllButOne         // one byte less than would fit
	ansEndWithErr        // if this read reaches the end of the data: deliver the bytes together with EOF / the failure
	numAnswers
)

var ansNames = []string{"fill", "zero", "1byte", "2bytes", "all-but-one", "err-with-last-bytes"}

type scriptReader struct {
	data    []byte // effective data (cut at the failure offset)
	fail    bool   // ends with errCustom instead of io.EOF
	off     int
	script  []byte
	calls   int
	failed  bool // the terminal error has been returned
	devs    int
	zeroRun int
	maxZero int
}

func (r *scriptReader) Read(p []byte) (int, error) {
	a := byte(ansDefault)
	if r.calls < len(r.script) {
		a = r.script[r.calls]
	}
	r.calls++
	endErr := error(io.EOF)
	if r.fail {
		endErr = errCustom
	}
	rem := len(r.data) - r.off
	if rem == 0 && a != ansZero {
		r.failed = true
		return 0, endErr
	}
	n := len(p)
	if n > rem {
		n = rem
	}
	switch a {
	case ansZero:
		n = 0
	case ansOne:
		if n > 1 {
			n = 1
		}
	case ansTwo:
		if n > 2 {
			n = 2
		}
	case ansAllButOne:
		if n > 1 {
			n--
		}
	}
	copy(p, r.data[r.off:r.off+n])
	r.off += n
	if a == ansEndWithErr && r.off == len(r.data) && n > 0 {
		r.failed = true
		return n, endErr
	}
	return n, nil
}

// maxBlindMoves bounds the moves over unpeeked bytes per history (set from the tier).
var maxBlindMoves = 1

// ---- operations ----

type slOp struct {
	k byte // 'p' Peek n, 'r' PeekRune(0), 'm' Move n, 'w' Rewind n, 's' Skip, 'h' Shift, 'l' Lexeme, 'n' ShiftLen, 'f' Free n
	n int
}

func (o slOp) String() string {
	switch o.k {
	case 'p':
		return "Peek(" + strconv.Itoa(o.n) + ")"
	case 'r':
		return "PeekRune(0)"
	case 'm':
		return "Move(" + strconv.Itoa(o.n) + ")"
	case 'w':
		return "Rewind(" + strconv.Itoa(o.n) + ")"
	case 's':
		return "Skip()"
	case 'h':
		return "Shift()"
	case 'l':
		return "Lexeme()"
	case 'n':
		return "ShiftLen()"
	case 'f':
		return "Free(" + strconv.Itoa(o.n) + ")"
	}
	return "?"
}

func encodeOps(ops []slOp) string {
	var sb strings.Builder
	for i, o := range ops {
		if i > 0 {
			sb.WriteByte(' ')
		}
		sb.WriteByte(o.k)
		sb.WriteString(strconv.Itoa(o.n))
	}
	return sb.String()
}

func decodeOps(s string) []slOp {
	var ops []slOp
	for _, f := range strings.Fields(s) {
		n, _ := strconv.Atoi(f[1:])
		ops = append(ops, slOp{f[0], n})
	}
	return ops
}

// ---- model + ledger ----

type ledgerEntry struct {
	sl   []byte
	want []byte
	end  int  // absolute offset of its end == bytes shifted up to its end
	lex  bool // returned by Lexeme() (bytes not yet shifted at that time)
}

type slModel struct {
	E      []byte // effective data
	start  int
	pos    int
	freed  int
	mark   int // start at the previous ShiftLen call
	peeked []bool
	ledger []ledgerEntry
	blind  int // moves over bytes that had not been peeked at (bounded like reader deviations)
}

type slRun struct {
	z  *buffer.StreamLexer
	rd *scriptReader
	m  *slModel
}

// slConfig is decoded from the case: input = data, args: size, fail (-1 none)
type slConfig struct {
	data []byte
	size int // -1: default constructor
	fail int
}

func newSLRun(cf slConfig, script []byte) *slRun {
	E := cf.data
	if cf.fail >= 0 && cf.fail <= len(cf.data) {
		E = cf.data[:cf.fail]
	}
	rd := &scriptReader{data: append([]byte{}, E...), fail: cf.fail >= 0, script: script}
	var z *buffer.StreamLexer
	if cf.size < 0 {
		z = buffer.NewStreamLexer(rd)
	} else {
		z = buffer.NewStreamLexerSize(rd, cf.size)
	}
	return &slRun{z: z, rd: rd, m: &slModel{E: E, peeked: make([]bool, len(E)+8)}}
}

// enabled reports whether the contract allows op in the model state.
func (m *slModel) enabled(o slOp) bool {
	switch o.k {
	case 'p':
		return m.pos+o.n <= len(m.E)+1 && (o.n == 0 || m.pos+o.n-1 < len(m.E) && m.peeked[m.pos+o.n-1])
	case 'r':
		if m.pos >= len(m.E) {
			return false
		}
		r, n := utf8.DecodeRune(m.E[m.pos:])
		return !(r == utf8.RuneError && n <= 1)
	case 'm':
		if o.n < 0 {
			return m.pos+o.n >= m.start
		}
		// moving over bytes that have not been peeked at yet is allowed (Shift, Lexeme and Skip fetch them), moving
		// past the end of the data is not; such blind moves are deviations from the canonical peek-then-move use
		// and are bounded per history
		if m.pos+o.n > len(m.E) {
			return false
		}
		for i := m.pos; i < m.pos+o.n; i++ {
			if !m.peeked[i] {
				return m.blind < maxBlindMoves
			}
		}
		return true
	case 'w':
		return o.n >= 0 && o.n <= m.pos-m.start
	case 'f':
		return o.n > 0 && o.n <= m.start-m.freed
	}
	return true
}

// step applies op to the implementation and the model and compares.
func (r *slRun) step(c *engine.Ctx, o slOp, ctxs func() string) bool {
	m, z := r.m, r.z
	fail := func(clause, f string, a ...interface{}) bool {
		c.Fail(clause, ctxs()+" then "+o.String()+": "+fmt.Sprintf(f, a...))
		return false
	}
	switch o.k {
	case 'p':
		got := z.Peek(o.n)
		var want byte
		if m.pos+o.n < len(m.E) {
			want = m.E[m.pos+o.n]
			m.peeked[m.pos+o.n] = true
		}
		if got != want {
			return fail("Peek", "got %q want %q (cursor over the complete data %q at %d)", got, want, m.E, m.pos)
		}
	case 'r':
		gr, gn := z.PeekRune(0)
		wr, wn := utf8.DecodeRune(m.E[m.pos:])
		for i := 0; i < wn; i++ {
			m.peeked[m.pos+i] = true
		}
		if gr != wr || gn != wn {
			return fail("PeekRune", "got (%U,%d) want (%U,%d)", gr, gn, wr, wn)
		}
	case 'm':
		for i := m.pos; i < m.pos+o.n; i++ {
			if !m.peeked[i] {
				m.blind++
				break
			}
		}
		z.Move(o.n)
		m.pos += o.n
	case 'w':
		z.Rewind(o.n)
		m.pos = m.start + o.n
	case 's':
		z.Skip()
		for i := m.start; i < m.pos; i++ {
			m.peeked[i] = true
		}
		m.start = m.pos
	case 'h':
		got := z.Shift()
		for i := m.start; i < m.pos; i++ {
			m.peeked[i] = true
		}
		want := m.E[m.start:m.pos]
		if !bytes.Equal(got, want) {
			return fail("Shift", "got %q want %q", got, want)
		}
		if len(got) > 0 {
			m.ledger = append(m.ledger, ledgerEntry{got, append([]byte{}, want...), m.pos, false})
		}
		m.start = m.pos
	case 'l':
		got := z.Lexeme()
		for i := m.start; i < m.pos; i++ {
			m.peeked[i] = true
		}
		want := m.E[m.start:m.pos]
		if !bytes.Equal(got, want) {
			return fail("Lexeme", "got %q want %q", got, want)
		}
		if len(got) > 0 {
			m.ledger = append(m.ledger, ledgerEntry{got, append([]byte{}, want...), m.pos, true})
		}
	case 'n':
		got := z.ShiftLen()
		want := m.start - m.mark
		m.mark = m.start
		if got != want {
			return fail("ShiftLen", "got %d want %d bytes shifted or skipped since the previous call", got, want)
		}
	case 'f':
		z.Free(o.n)
		m.freed += o.n
	}
	return r.observe(c, func() string { return ctxs() + " then " + o.String() })
}

// observe checks the pure observers and the ledger.
func (r *slRun) observe(c *engine.Ctx, ctxs func() string) bool {
	m, z := r.m, r.z
	if p := z.Pos(); p != m.pos-m.start {
		c.Fail("Pos", fmt.Sprintf("%s: Pos()=%d want %d", ctxs(), p, m.pos-m.start))
		return false
	}
	err := z.Err()
	switch {
	case err == nil:
	case err == io.EOF:
		if m.pos < len(m.E) || r.rd.fail {
			c.Fail("Err-early-EOF", fmt.Sprintf("%s: Err()=io.EOF at position %d of %d (failing reader: %v)", ctxs(), m.pos, len(m.E), r.rd.fail))
			return false
		}
	case err == errCustom:
		if !r.rd.failed {
			c.Fail("Err-unknown", fmt.Sprintf("%s: Err() reports the reader's failure before the reader failed", ctxs()))
			return false
		}
	default:
		c.Fail("Err-unknown", fmt.Sprintf("%s: Err()=%v", ctxs(), err))
		return false
	}
	if err != nil && m.pos < len(m.E) && !r.rd.failed {
		c.Fail("Err-while-data-remain", fmt.Sprintf("%s: Err()=%v while unread data remain (position %d of %d) and the reader has not failed", ctxs(), err, m.pos, len(m.E)))
		return false
	}
	for i := 0; i < len(m.ledger); i++ {
		e := m.ledger[i]
		if e.end > m.freed && !bytes.Equal(e.sl, e.want) {
			if e.lex {
				// known finding (see known_findings.txt): report, forget the slice, keep exploring
				c.Fail("lexeme-overwritten", fmt.Sprintf("%s: a slice returned earlier by Lexeme() (%q, ends at byte %d) now reads %q although only %d bytes have been freed", ctxs(), e.want, e.end, e.sl, m.freed))
				m.ledger = append(m.ledger[:i:i], m.ledger[i+1:]...)
				i--
				continue
			}
			c.Fail("token-overwritten", fmt.Sprintf("%s: a slice returned earlier by Shift() (%q, ends at byte %d) now reads %q although only %d bytes have been freed", ctxs(), e.want, e.end, e.sl, m.freed))
			return false
		}
	}
	return true
}

// key is the canonical state: private implementation state + reader + model + ledger placement.
func (r *slRun) key() string {
	b := make([]byte, 0, 96)
	put := func(v int) { b = binary.AppendVarint(b, int64(v)) }
	v := reflect.ValueOf(r.z).Elem()
	pool := v.FieldByName("pool")
	blocks := pool.FieldByName("pool")
	put(blocks.Len())
	type arr struct{ base, cap uintptr }
	var arrs []arr
	for i := 0; i < blocks.Len(); i++ {
		bl := blocks.Index(i)
		bf := bl.FieldByName("buf")
		put(bf.Len())
		put(bf.Cap())
		put(int(bl.FieldByName("next").Int()))
		if bl.FieldByName("active").Bool() {
			put(1)
		} else {
			put(0)
		}
		arrs = append(arrs, arr{bf.Pointer(), uintptr(bf.Cap())})
	}
	put(int(pool.FieldByName("head").Int()))
	put(int(pool.FieldByName("tail").Int()))
	put(int(pool.FieldByName("pos").Int()))
	bf := v.FieldByName("buf")
	put(bf.Len())
	put(bf.Cap())
	arrs = append(arrs, arr{bf.Pointer(), uintptr(bf.Cap())})
	put(int(v.FieldByName("start").Int()))
	put(int(v.FieldByName("pos").Int()))
	put(int(v.FieldByName("prevStart").Int()))
	put(int(v.FieldByName("free").Int()))
	if v.FieldByName("err").IsNil() {
		put(0)
	} else {
		put(1)
	}
	// reader
	put(r.rd.off)
	put(r.rd.devs)
	put(r.rd.zeroRun)
	if r.rd.failed {
		put(1)
	} else {
		put(0)
	}
	// model
	m := r.m
	put(m.start)
	put(m.pos)
	put(m.freed)
	put(m.mark)
	put(m.blind)
	for i := 0; i < len(m.E); i++ {
		if m.peeked[i] {
			b = append(b, 1)
		} else {
			b = append(b, 0)
		}
	}
	// ledger: live entries and where their memory lives
	for _, e := range m.ledger {
		if e.end <= m.freed {
			continue
		}
		put(e.end)
		put(len(e.sl))
		p := uintptr(unsafe.Pointer(unsafe.SliceData(e.sl)))
		where, off := -2, 0
		for i, a := range arrs {
			if a.cap > 0 && p >= a.base && p < a.base+a.cap {
				where, off = i, int(p-a.base)
			}
		}
		put(where)
		put(off)
	}
	return string(b)
}

func (r *slRun) capacity() int {
	v := reflect.ValueOf(r.z).Elem()
	blocks := v.FieldByName("pool").FieldByName("pool")
	t := v.FieldByName("buf").Cap()
	for i := 0; i < blocks.Len(); i++ {
		t += blocks.Index(i).FieldByName("buf").Cap()
	}
	return t
}

// ---- space "sl": one (config, prefix history, script) explored to depth ----

type slNode struct {
	ops    []slOp
	script []byte
	depth  int
}

func slConfigFrom(in []byte, args map[string]string) slConfig {
	size, _ := strconv.Atoi(args["size"])
	fail, _ := strconv.Atoi(args["fail"])
	return slConfig{data: append([]byte{}, in...), size: size, fail: fail}
}

// replay builds a fresh object and applies history; returns nil if an oracle failed.
func slReplay(c *engine.Ctx, cf slConfig, ops []slOp, script []byte, check bool) *slRun {
	r := newSLRun(cf, script)
	desc := func(i int) func() string {
		return func() string {
			return fmt.Sprintf("data=%q size=%d fail=%d reader-answers=%s ops=[%s]", cf.data, cf.size, cf.fail, scriptString(script), encodeOpsPretty(ops[:i]))
		}
	}
	for i, o := range ops {
		if !r.m.enabled(o) {
			return nil
		}
		if !r.step(c, o, desc(i)) {
			return nil
		}
	}
	return r
}

func scriptString(s []byte) string {
	var parts []string
	for _, a := range s {
		parts = append(parts, ansNames[a])
	}
	return "[" + strings.Join(parts, ",") + "]"
}

func encodeOpsPretty(ops []slOp) string {
	var parts []string
	for _, o := range ops {
		parts = append(parts, o.String())
	}
	return strings.Join(parts, " ")
}

func slMenu(m *slModel) []slOp {
	ops := []slOp{{'p', 0}, {'p', 1}, {'p', 2}, {'p', 3}, {'r', 0}, {'m', 1}, {'m', 2}, {'m', -1}, {'w', 0}}
	if m.pos-m.start >= 2 {
		ops = append(ops, slOp{'w', m.pos - m.start - 1})
	}
	ops = append(ops, slOp{'s', 0}, slOp{'h', 0}, slOp{'l', 0}, slOp{'n', 0})
	if out := m.start - m.freed; out > 0 {
		ops = append(ops, slOp{'f', out})
		if out > 1 {
			ops = append(ops, slOp{'f', 1})
		}
	}
	return ops
}

// c13Explore: args: size, fail, prefix (ops), depth, devs
func c13Explore(c *engine.Ctx, in []byte, args map[string]string) {
	cf := slConfigFrom(in, args)
	depth, _ := strconv.Atoi(args["depth"])
	maxDevs, _ := strconv.Atoi(args["devs"])
	if b, err := strconv.Atoi(args["blind"]); err == nil {
		maxBlindMoves = b
	}
	prefix := decodeOps(args["prefix"])
	if args["replay-ops"] != "" {
		// direct replay of one history (used by minimised counterexamples)
		slReplay(c, cf, decodeOps(args["replay-ops"]), []byte(args["replay-script"]), true)
		return
	}
	seen := map[string]bool{}
	queue := []slNode{{ops: prefix, script: nil, depth: 0}}
	for qi := 0; qi < len(queue); qi++ {
		nd := queue[qi]
		r := slReplay(c, cf, nd.ops, nd.script, true)
		if r == nil {
			if qi == 0 {
				c.Count("prefix-not-applicable", 1)
			}
			return
		}
		if qi == 0 {
			if !r.observe(c, func() string { return fmt.Sprintf("data=%q size=%d fail=%d after prefix", cf.data, cf.size, cf.fail) }) {
				return
			}
			seen[r.key()] = true
			c.Count("states", 1)
		}
		if nd.depth >= depth {
			continue
		}
		for _, o := range slMenu(r.m) {
			if !r.m.enabled(o) {
				continue
			}
			// run the op with the node's script; reads beyond the script take the default answer
			scripts := [][]byte{nd.script}
			for si := 0; si < len(scripts); si++ {
				sc := scripts[si]
				r2 := slReplay(c, cf, nd.ops, sc, false)
				if r2 == nil {
					return
				}
				before := r2.rd.calls
				nops := append(append([]slOp{}, nd.ops...), o)
				ok := r2.step(c, o, func() string {
					return fmt.Sprintf("data=%q size=%d fail=%d reader-answers=%s ops=[%s]", cf.data, cf.size, cf.fail, scriptString(sc), encodeOpsPretty(nd.ops))
				})
				c.Count("transitions", 1)
				if !ok {
					// make the failure replayable without the explorer
					return
				}
				after := r2.rd.calls
				// count deviations in the script actually consumed
				devs, zeroRun := 0, 0
				full := make([]byte, after)
				copy(full, sc)
				for i := 0; i < after; i++ {
					if full[i] != ansDefault {
						devs++
					}
					if full[i] == ansZero {
						zeroRun++
					} else {
						zeroRun = 0
					}
				}
				r2.rd.devs, r2.rd.zeroRun = devs, zeroRun
				// alternative answers for the reads this op performed beyond the script
				if si == 0 || len(sc) > len(nd.script) {
					for j := max(len(sc), before); j < after; j++ {
						if devs >= maxDevs {
							break
						}
						for a := byte(1); a < numAnswers; a++ {
							if a == ansZero {
								run := 0
								for i := j - 1; i >= 0 && full[i] == ansZero; i-- {
									run++
								}
								if run >= 2 {
									continue
								}
							}
							alt := make([]byte, j+1)
							copy(alt, full[:j])
							alt[j] = a
							scripts = append(scripts, alt)
						}
					}
				}
				k := r2.key()
				if !seen[k] {
					seen[k] = true
					c.Count("states", 1)
					queue = append(queue, slNode{ops: nops, script: full, depth: nd.depth + 1})
				}
			}
		}
	}
	c.Count("max:states_per_case", int64(len(seen)))
}

// c13Memory: periodic stream, capacity after 128 and 256 periods must be equal.
// input unused; args: tok, chunk, size, late
func c13Memory(c *engine.Ctx, in []byte, args map[string]string) {
	tok, _ := strconv.Atoi(args["tok"])
	chunk, _ := strconv.Atoi(args["chunk"])
	size, _ := strconv.Atoi(args["size"])
	late := args["late"] == "1"
	periods := 256
	data := bytes.Repeat([]byte("abcdefghijklmnopqrstuvwxyz0123456789"), (tok*periods)/36+2)[:tok*periods]
	rd := &chunkReader{data: data, chunk: chunk}
	z := buffer.NewStreamLexerSize(rd, size)
	caps := map[int]int{}
	run := &slRun{z: z}
	pending := 0
	for p := 0; p < periods; p++ {
		for i := 0; i < tok; i++ {
			if z.Peek(0) == 0 {
				c.Fail("memory-stream-short", fmt.Sprintf("tok=%d chunk=%d size=%d: Peek returned 0 inside the data at period %d", tok, chunk, size, p))
				return
			}
			z.Move(1)
		}
		got := z.Shift()
		if !bytes.Equal(got, data[p*tok:(p+1)*tok]) {
			c.Fail("memory-stream-token", fmt.Sprintf("tok=%d chunk=%d size=%d: token %d is %q want %q", tok, chunk, size, p, got, data[p*tok:(p+1)*tok]))
			return
		}
		n := z.ShiftLen()
		if late {
			z.Free(pending)
			pending = n
		} else {
			z.Free(n)
		}
		if p+1 == 64 || p+1 == 128 || p+1 == 256 {
			caps[p+1] = run.capacity()
		}
	}
	if caps[256] > caps[128] || caps[128] > caps[64] && caps[256] > caps[128] {
		c.Fail("memory-grows", fmt.Sprintf("tok=%d chunk=%d size=%d free-late=%v: capacity held after 64/128/256 tokens = %d/%d/%d bytes (grows with the stream although every token is freed)", tok, chunk, size, late, caps[64], caps[128], caps[256]))
	}
}

// c13Pool: token-level search for the buffer pool. Operations: shift one token of length L (peek and move over every
// byte, Shift, ShiftLen) for every L of the set, or release the oldest token that is still held with Free(len). All
// histories up to the depth are explored breadth-first on a long stream, de-duplicated on the structure of the private
// state (buffer and pool slot lengths, capacities, links, flags; the lengths of the tokens held) — not on stream offsets,
// so that equal pool shapes reached at different offsets are one state. After every operation every held token must be
// unchanged and the data in front of the cursor right. args: size, lens (comma separated), chunk, depth
func c13Pool(c *engine.Ctx, in []byte, args map[string]string) {
	size, _ := strconv.Atoi(args["size"])
	chunk, _ := strconv.Atoi(args["chunk"])
	depth, _ := strconv.Atoi(args["depth"])
	var lens []int
	for _, f := range strings.Split(args["lens"], ",") {
		n, _ := strconv.Atoi(f)
		lens = append(lens, n)
	}
	data := make([]byte, 4096)
	for i := range data {
		data[i] = byte(1 + (i*7+i/251)%255)
	}
	type held struct {
		got  []byte
		off  int
		size int
	}
	// an operation: >0 shift a token of that length, 0 free the oldest
	type node struct{ ops []int }
	build := func(ops []int) (z *buffer.StreamLexer, tokens []held, off int, msg string) {
		z = buffer.NewStreamLexerSize(&chunkReader{data: data, chunk: chunk}, size)
		for step, o := range ops {
			if o > 0 {
				for j := 0; j < o; j++ {
					if ch := z.Peek(0); ch != data[off+j] {
						return z, tokens, off, fmt.Sprintf("step %d: Peek(0) at stream offset %d = %#x want %#x", step, off+j, ch, data[off+j])
					}
					z.Move(1)
				}
				b := z.Shift()
				if !bytes.Equal(b, data[off:off+o]) {
					return z, tokens, off, fmt.Sprintf("step %d: Shift() = %x want %x", step, b, data[off:off+o])
				}
				if n := z.ShiftLen(); n != o {
					return z, tokens, off, fmt.Sprintf("step %d: ShiftLen() = %d want %d", step, n, o)
				}
				tokens = append(tokens, held{b, off, o})
				off += o
			} else {
				z.Free(tokens[0].size)
				tokens = tokens[1:]
			}
			for _, t := range tokens {
				if !bytes.Equal(t.got, data[t.off:t.off+t.size]) {
					return z, tokens, off, fmt.Sprintf("step %d: the token shifted at stream offset %d, which has not been freed, changed from %x to %x", step, t.off, data[t.off:t.off+t.size], t.got)
				}
			}
		}
		return z, tokens, off, ""
	}
	key := func(z *buffer.StreamLexer, tokens []held) string {
		b := make([]byte, 0, 96)
		put := func(v int) { b = binary.AppendVarint(b, int64(v)) }
		v := reflect.ValueOf(z).Elem()
		pool := v.FieldByName("pool")
		blocks := pool.FieldByName("pool")
		put(blocks.Len())
		for i := 0; i < blocks.Len(); i++ {
			bl := blocks.Index(i)
			put(bl.FieldByName("buf").Len())
			put(bl.FieldByName("buf").Cap())
			put(int(bl.FieldByName("next").Int()))
			if bl.FieldByName("active").Bool() {
				put(1)
			} else {
				put(0)
			}
		}
		for _, f := range []string{"head", "tail", "pos"} {
			put(int(pool.FieldByName(f).Int()))
		}
		put(v.FieldByName("buf").Len())
		put(v.FieldByName("buf").Cap())
		for _, f := range []string{"start", "pos", "prevStart", "free"} {
			put(int(v.FieldByName(f).Int()))
		}
		for _, t := range tokens {
			put(t.size)
		}
		return string(b)
	}
	seen := map[string]bool{}
	queue := []node{{nil}}
	for qi := 0; qi < len(queue); qi++ {
		nd := queue[qi]
		if len(nd.ops) >= depth {
			continue
		}
		_, tokens, _, _ := build(nd.ops)
		var next []int
		next = append(next, lens...)
		if len(tokens) > 0 {
			next = append(next, 0)
		}
		for _, o := range next {
			ops := append(append([]int{}, nd.ops...), o)
			z, toks, _, msg := build(ops)
			c.Count("transitions", 1)
			if msg != "" {
				c.Fail("pool-ledger", fmt.Sprintf("buffer size %d, reader chunks of %d bytes, operations %v (n: shift a token of n bytes, 0: free the oldest token held): %s", size, chunk, ops, msg))
				return
			}
			k := key(z, toks)
			if !seen[k] {
				seen[k] = true
				c.Count("states", 1)
				queue = append(queue, node{ops})
			}
		}
	}
	c.Count("max:pool_states_per_case", int64(len(seen)))
}

type chunkReader struct {
	data  []byte
	off   int
	chunk int
}

func (r *chunkReader) Read(p []byte) (int, error) {
	if r.off >= len(r.data) {
		return 0, io.EOF
	}
	n := len(p)
	if n > r.chunk {
		n = r.chunk
	}
	if n > len(r.data)-r.off {
		n = len(r.data) - r.off
	}
	copy(p, r.data[r.off:r.off+n])
	r.off += n
	return n, nil
}

func c13Setup(c *engine.Ctx) {
	c.Register(&engine.Space{Name: "sl", Run: c13Explore, NoMinimise: true})
	c.Register(&engine.Space{Name: "mem", Run: c13Memory, NoMinimise: true})
	c.Register(&engine.Space{Name: "pool", Run: c13Pool, NoMinimise: true})
}

// canonical token loop prefix for j tokens of length tl with Free(ShiftLen()) after each
func tokenLoopPrefix(j, tl int, free bool) []slOp {
	var ops []slOp
	for t := 0; t < j; t++ {
		for i := 0; i < tl; i++ {
			ops = append(ops, slOp{'p', 0}, slOp{'m', 1})
		}
		ops = append(ops, slOp{'h', 0}, slOp{'n', 0})
		if free {
			ops = append(ops, slOp{'f', tl})
		}
	}
	return ops
}

func c13Work(c *engine.Ctx) {
	sp := c.SpaceByName("sl")
	datas := []string{"", "a", "ab", "abc", "abcd", "abcdef", "abcdefgh", "abcdefghij", "abc\u00e9f", "ab\u2028f", "ab\u20acde", "a\U0001F600bc", "\u20ac\U0001F600", "a\u0800b\u0fff", "\u07ff\ud7ff\ue000"}
	sizes := []int{0, 1, 2, 3, 4, 5, 8, -1}
	// thorough: one more operation and one more deviation per history than quick; two blind moves only for the quick depth
	// (depth 9 with two blind moves needs tens of gigabytes for the states of one case)
	type bound struct{ depth, devs, blind int }
	bounds := []bound{{7, 2, 1}}
	if c.Thorough() {
		bounds = []bound{{8, 3, 1}, {7, 2, 2}}
	}
	if v := os.Getenv("C13_TUNE"); v != "" { // measuring aid, never set by the registered commands
		var b bound
		fmt.Sscanf(v, "%d,%d,%d", &b.depth, &b.devs, &b.blind)
		bounds = []bound{b}
	}
	if !c.Thorough() {
		datas = []string{"", "a", "abc", "abcdef", "abcdefghij", "abc\u00e9f", "ab\u20acde", "a\U0001F600bc", "a\u0800b\u0fff"}
		sizes = []int{0, 1, 2, 3, 4, 8, -1}
	}
	k := 0
	if os.Getenv("C13_ONLY") == "pool" { // measuring aid, never set by the registered commands
		bounds = nil
	}
	for _, bd := range bounds {
		depth, devs := bd.depth, bd.devs
		maxBlindMoves = bd.blind
		for _, d := range datas {
			for _, size := range sizes {
				fails := []int{-1}
				for f := 0; f <= len(d); f++ {
					if c.Thorough() || f == 0 || f == len(d)/2 || f == len(d) {
						fails = append(fails, f)
					}
				}
				for _, f := range fails {
					type pf struct {
						ops []slOp
					}
					prefixes := [][]slOp{nil}
					for j := 1; j <= 4; j++ {
						for _, tl := range []int{1, 2, 3} {
							if j*tl <= len(d) && (c.Thorough() || tl == 2 || j <= 2) {
								prefixes = append(prefixes, tokenLoopPrefix(j, tl, true))
								if j <= 2 {
									prefixes = append(prefixes, tokenLoopPrefix(j, tl, false))
								}
							}
						}
					}
					for _, p := range prefixes {
						k++
						if !c.Mine(k) {
							continue
						}
						args := map[string]string{"size": strconv.Itoa(size), "fail": strconv.Itoa(f), "prefix": encodeOps(p), "depth": strconv.Itoa(depth), "devs": strconv.Itoa(devs), "blind": strconv.Itoa(maxBlindMoves)}
						c.Exec(sp, []byte(d), args)
						c.Count("exec", 1)
						c.Count("distinct_nontrivial", 1)
						if k%97 == 0 {
							c.Sample(fmt.Sprintf("data=%q size=%d fail-at=%d prefix=[%s]: all histories of ≤%d further ops × reader answers within %d deviations", d, size, f, encodeOpsPretty(p), depth, devs))
						}
					}
				}
			}
		}
	}
	pool := c.SpaceByName("pool")
	for _, size := range []int{8, 16} {
		for _, lens := range []string{"1,2", "2,4,6", "4,8,12", "3,5", "4,12", "8,12", "6,10,14", "1,7"} {
			for _, chunk := range []int{1000, 3, 1} {
				k++
				if !c.Mine(k) {
					continue
				}
				if size == 8 && (lens == "4,8,12" || lens == "6,10,14" || lens == "8,12" || lens == "4,12") {
					// relative to the buffer: the same shapes at half the size
					lens = map[string]string{"4,8,12": "2,4,6", "6,10,14": "3,5,7", "8,12": "4,6", "4,12": "2,6"}[lens]
				}
				depth := c.Pick(10, 13)
				if strings.Count(lens, ",") >= 2 {
					depth = c.Pick(10, 11) // three token lengths: four operations to choose from at every step
				}
				c.Exec(pool, nil, map[string]string{"size": strconv.Itoa(size), "lens": lens, "chunk": strconv.Itoa(chunk), "depth": strconv.Itoa(depth)})
				c.Count("exec", 1)
				c.Count("distinct_nontrivial", 1)
			}
		}
	}
	mem := c.SpaceByName("mem")
	for _, size := range []int{4, 8, 16, 64} {
		for _, tok := range []int{1, 3, size/2 + 1, size + 1, 2*size + 3} {
			for _, chunk := range []int{1, tok, size, size + 1, 1000} {
				for late := 0; late <= 1; late++ {
					k++
					if !c.Mine(k) {
						continue
					}
					c.Exec(mem, nil, map[string]string{"tok": strconv.Itoa(tok), "chunk": strconv.Itoa(chunk), "size": strconv.Itoa(size), "late": strconv.Itoa(late)})
					c.Count("exec", 1)
					c.Count("memory-streams", 1)
				}
			}
		}
	}
}

func c13Finish(c *engine.Ctx, cov map[string]interface{}) string {
	cov["states"] = c.Counters["states"]
	cov["transitions"] = c.Counters["transitions"]
	cov["traces_validated_against_impl"] = c.Counters["transitions"]
	cov["state_definition"] = "reflective private state of the StreamLexer (pool blocks len/cap/active/next, head, tail, pos; buf len/cap; start,pos,prevStart,free; err) + reader position/deviations + model cursor + placement of every live returned slice"
	if c.Counters["states"] < 5000 {
		return "vacuous: fewer than 5000 states"
	}
	return ""
}

func init() {
	register(&engine.Check{
		ID: "C13", Level: "model_checking",
		Rule:        "per case (data prefix of abcdefghij or a multi-byte variant, initial size incl. 0 and the default constructor, reader failing at offset f or ending with EOF, start state = initial or after 1..4 iterations of the canonical token loop with/without Free): breadth-first search over all contract-respecting operation histories up to the depth bound × reader answers (fill / zero-length / 1 / 2 / all-but-one / error-or-EOF together with the last bytes) within the deviation bound, de-duplicated on a reflective state key; every step compared with a cursor over the complete data, the ledger of returned slices checked after every step; plus periodic streams for the memory clause and a token-level search of the buffer pool (all histories of ≤10 (thorough: 13 with two token lengths, 11 with three) operations (shift a token of one of 2-3 lengths / free the oldest token held) on a 4 kB stream for 2 buffer sizes × 8 length sets × 3 reader chunk sizes, de-duplicated on the structure of the private state; every token that is still held is compared after every operation). distinct_nontrivial = cases",
		Assumptions: []string{"contract: the position never moves past the end of the data or before start, at most what was shifted is freed; moves over bytes that were not peeked at are bounded deviations (quick: 1 per history at depth 7 with 2 reader deviations; thorough: 1 at depth 8 with 3 reader deviations and 2 at depth 7 with 2)", "a Lexeme() slice is held to the same lifetime rule as a Shift() slice (valid until bytes up to its end are freed)"},
		Setup:       c13Setup, Work: c13Work, Finish: c13Finish,
	})
}
