package main

// Reference CSS tokenizer: a transcription of "4. Tokenization" of CSS Syntax
// Module Level 3 (Candidate Recommendation 20 Feb 2014: the edition with
// unicode-range, match operators and the column token, in which url("x") is a
// single url token), with the two documented additions of the library:
// comments are returned as tokens and --x is a custom-property-name token.
// It works on code points of the *preprocessed* stream semantics (CR LF, CR
// and FF are newlines; CR LF counts as one) but reports byte offsets.
//
// It flags inputs it does not want to judge:
//   parseErr  – the spec raises a parse error (or the input is cut inside a construct)
//   ambiguous – editions of the spec disagree or the library documents a deviation

import (
	"unicode/utf8"

	"github.com/tdewolff/parse/v2/css"
)

type rcTok struct {
	tt         css.TokenType
	start, end int
}

type refCSS struct {
	b         []byte
	p         int
	toks      []rcTok
	parseErr  bool
	ambiguous bool
	quirkTok  int    // index of the token in which the quirk occurs
	quirk     string // the input contains a construct on which the library's own tests pin a deviation from the specification
	badString bool   // a raw newline ended a string
	badURL    bool
}

func (r *refCSS) setQuirk(name string) {
	if r.quirk == "" {
		r.quirkTok, r.quirk = len(r.toks), name
	}
}

func (r *refCSS) at(i int) int { // byte at p+i or -1 at EOF
	if r.p+i < len(r.b) {
		return int(r.b[r.p+i])
	}
	return -1
}

func isNL(c int) bool    { return c == '\n' || c == '\r' || c == '\f' }
func isWSc(c int) bool   { return isNL(c) || c == ' ' || c == '\t' }
func isDigit(c int) bool { return c >= '0' && c <= '9' }
func isHex(c int) bool   { return isDigit(c) || c >= 'a' && c <= 'f' || c >= 'A' && c <= 'F' }
func isNameStart(c int) bool {
	return c >= 'a' && c <= 'z' || c >= 'A' && c <= 'Z' || c == '_' || c >= 0x80
}
func isName(c int) bool { return isNameStart(c) || isDigit(c) || c == '-' }
func isNonPrintable(c int) bool {
	return c >= 0 && c <= 8 || c == 0x0B || c >= 0x0E && c <= 0x1F || c == 0x7F
}

func (r *refCSS) validEscapeAt(i int) bool {
	return r.at(i) == '\\' && !isNL(r.at(i+1))
}

func (r *refCSS) wouldStartIdentAt(i int) bool {
	c := r.at(i)
	switch {
	case c == '-':
		return isNameStart(r.at(i+1)) || r.validEscapeAt(i+1)
	case isNameStart(c):
		return true
	case c == '\\':
		return r.validEscapeAt(i)
	}
	return false
}

func (r *refCSS) startsNumberAt(i int) bool {
	c := r.at(i)
	switch {
	case c == '+' || c == '-':
		return isDigit(r.at(i+1)) || r.at(i+1) == '.' && isDigit(r.at(i+2))
	case c == '.':
		return isDigit(r.at(i + 1))
	}
	return isDigit(c)
}

// newline length at p (CR LF is one newline)
func (r *refCSS) nlLen(i int) int {
	if r.at(i) == '\r' && r.at(i+1) == '\n' {
		return 2
	}
	if isNL(r.at(i)) {
		return 1
	}
	return 0
}

func (r *refCSS) consumeRuneOrByte() {
	if r.p < len(r.b) && r.b[r.p] >= 0x80 {
		_, n := utf8.DecodeRune(r.b[r.p:])
		r.p += n
		return
	}
	r.p++
}

// consumeEscaped: p is just after the backslash of a valid escape.
func (r *refCSS) consumeEscaped() {
	c := r.at(0)
	if c == -1 {
		r.parseErr = true
		return
	}
	if isHex(c) {
		n := 0
		for n < 6 && isHex(r.at(0)) {
			r.p++
			n++
		}
		if l := r.nlLen(0); l > 0 {
			r.p += l
		} else if isWSc(r.at(0)) {
			r.p++
		}
		return
	}
	r.consumeRuneOrByte()
}

func (r *refCSS) consumeName() (hexEscape bool) {
	for {
		c := r.at(0)
		if isName(c) {
			r.consumeRuneOrByte()
		} else if r.validEscapeAt(0) {
			if isHex(r.at(1)) {
				hexEscape = true
			}
			r.p++
			r.consumeEscaped()
		} else {
			return
		}
	}
}

func (r *refCSS) consumeNumber() {
	if c := r.at(0); c == '+' || c == '-' {
		r.p++
	}
	for isDigit(r.at(0)) {
		r.p++
	}
	if r.at(0) == '.' && isDigit(r.at(1)) {
		r.p += 2
		for isDigit(r.at(0)) {
			r.p++
		}
	}
	if c := r.at(0); c == 'e' || c == 'E' {
		if isDigit(r.at(1)) {
			r.p += 2
		} else if (r.at(1) == '+' || r.at(1) == '-') && isDigit(r.at(2)) {
			r.p += 3
		} else {
			return
		}
		for isDigit(r.at(0)) {
			r.p++
		}
	}
}

func (r *refCSS) consumeNumeric() css.TokenType {
	r.consumeNumber()
	if r.at(0) == '-' && r.at(1) == '-' {
		r.ambiguous = true // 1--x: a dimension only since identifiers may start with --
	}
	if r.wouldStartIdentAt(0) {
		r.consumeName()
		return css.DimensionToken
	}
	if r.at(0) == '%' {
		r.p++
		return css.PercentageToken
	}
	return css.NumberToken
}

func (r *refCSS) consumeString(quote int) css.TokenType {
	r.p++ // opening quote
	for {
		c := r.at(0)
		switch {
		case c == quote:
			r.p++
			return css.StringToken
		case c == -1:
			r.parseErr = true
			return css.StringToken
		case isNL(c):
			r.parseErr = true
			r.badString = true
			return css.BadStringToken // newline not consumed
		case c == '\\':
			if r.at(1) == -1 {
				r.p++
				r.parseErr = true
			} else if l := r.nlLen(1); l > 0 {
				r.p += 1 + l
			} else {
				r.p++
				r.consumeEscaped()
			}
		default:
			r.consumeRuneOrByte()
		}
	}
}

func (r *refCSS) consumeBadURLRemnants() {
	for {
		c := r.at(0)
		if c == ')' {
			r.p++
			return
		}
		if c == -1 {
			return
		}
		if r.validEscapeAt(0) {
			r.p++
			r.consumeEscaped()
		} else {
			r.consumeRuneOrByte()
		}
	}
}

func (r *refCSS) skipWS() {
	for isWSc(r.at(0)) {
		r.p++
	}
}

func (r *refCSS) consumeURL() css.TokenType {
	r.skipWS()
	if r.at(0) == -1 {
		r.parseErr = true
		return css.URLToken
	}
	if c := r.at(0); c == '"' || c == '\'' {
		if r.consumeString(c) == css.BadStringToken {
			r.badURL = true
			r.consumeBadURLRemnants()
			return css.BadURLToken
		}
		r.skipWS()
		if r.at(0) == ')' {
			r.p++
			return css.URLToken
		}
		if r.at(0) == -1 {
			r.parseErr = true
			return css.URLToken
		}
		r.parseErr, r.badURL = true, true
		r.consumeBadURLRemnants()
		return css.BadURLToken
	}
	for {
		c := r.at(0)
		switch {
		case c == ')':
			r.p++
			return css.URLToken
		case c == -1:
			r.parseErr = true
			return css.URLToken
		case isWSc(c):
			r.skipWS()
			if r.at(0) == ')' {
				r.p++
				return css.URLToken
			}
			if r.at(0) == -1 {
				r.parseErr = true
				return css.URLToken
			}
			r.parseErr, r.badURL = true, true
			r.consumeBadURLRemnants()
			return css.BadURLToken
		case c == '"' || c == '\'' || c == '(' || isNonPrintable(c):
			r.parseErr, r.badURL = true, true
			r.consumeBadURLRemnants()
			return css.BadURLToken
		case c == '\\':
			if r.validEscapeAt(0) {
				r.p++
				r.consumeEscaped()
			} else {
				r.parseErr, r.badURL = true, true
				r.consumeBadURLRemnants()
				return css.BadURLToken
			}
		default:
			r.consumeRuneOrByte()
		}
	}
}

func (r *refCSS) consumeIdentLike() css.TokenType {
	start := r.p
	hexEsc := r.consumeName()
	if r.at(0) != '(' {
		return css.IdentToken
	}
	// name value (escapes of non-hex characters resolved by dropping the backslash)
	name := make([]byte, 0, 8)
	for _, c := range r.b[start:r.p] {
		if c != '\\' {
			name = append(name, c)
		}
	}
	isURL := len(name) == 3 && (name[0]|0x20) == 'u' && (name[1]|0x20) == 'r' && (name[2]|0x20) == 'l'
	if hexEsc {
		r.ambiguous = true // a hex escape may or may not spell "url"
	}
	r.p++
	if isURL {
		return r.consumeURL()
	}
	return css.FunctionToken
}

func (r *refCSS) consumeUnicodeRange() {
	r.p += 2 // U+
	n := 0
	for n < 6 && isHex(r.at(0)) {
		r.p++
		n++
	}
	q := 0
	for n+q < 6 && r.at(0) == '?' {
		r.p++
		q++
	}
	if isHex(r.at(0)) || r.at(0) == '?' {
		r.setQuirk("unicode-range:more-than-six") // the specification stops after six, the library does not see a range at all (TestTokens "U+ABCDEF?")
	}
	if q > 0 {
		return
	}
	if r.at(0) == '-' && !isHex(r.at(1)) {
		r.setQuirk("unicode-range:dangling-minus") // "U+1-": the specification ends the range before the minus, the library backs off completely (TestTokens "U+1-")
	}
	if r.at(0) == '-' && isHex(r.at(1)) {
		r.p++
		m := 0
		for m < 6 && isHex(r.at(0)) {
			r.p++
			m++
		}
		if isHex(r.at(0)) {
			r.setQuirk("unicode-range:more-than-six")
		}
	}
}

func refCSSLex(b []byte) *refCSS {
	r := &refCSS{b: b}
	if !utf8.Valid(b) {
		r.ambiguous = true
	}
	for _, c := range b {
		if c == 0 {
			r.ambiguous = true // the spec maps NUL to U+FFFD, the library documents that it does not
		}
	}
	for r.p < len(b) {
		start := r.p
		var tt css.TokenType
		c := r.at(0)
		switch {
		case c == '/' && r.at(1) == '*':
			r.p += 2
			for {
				if r.at(0) == -1 {
					r.parseErr = true
					break
				}
				if r.at(0) == '*' && r.at(1) == '/' {
					r.p += 2
					break
				}
				r.p++
			}
			tt = css.CommentToken
		case isWSc(c):
			r.skipWS()
			tt = css.WhitespaceToken
		case c == '"' || c == '\'':
			tt = r.consumeString(c)
		case c == '#':
			if isName(r.at(1)) || r.validEscapeAt(1) {
				r.p++
				r.consumeName()
				tt = css.HashToken
			} else {
				r.p++
				tt = css.DelimToken
			}
		case c == '$' || c == '*' || c == '^' || c == '~':
			if r.at(1) == '=' {
				r.p += 2
				tt = map[int]css.TokenType{'$': css.SuffixMatchToken, '*': css.SubstringMatchToken, '^': css.PrefixMatchToken, '~': css.IncludeMatchToken}[c]
			} else {
				r.p++
				tt = css.DelimToken
			}
		case c == '(':
			r.p++
			tt = css.LeftParenthesisToken
		case c == ')':
			r.p++
			tt = css.RightParenthesisToken
		case c == '[':
			r.p++
			tt = css.LeftBracketToken
		case c == ']':
			r.p++
			tt = css.RightBracketToken
		case c == '{':
			r.p++
			tt = css.LeftBraceToken
		case c == '}':
			r.p++
			tt = css.RightBraceToken
		case c == ',':
			r.p++
			tt = css.CommaToken
		case c == ':':
			r.p++
			tt = css.ColonToken
		case c == ';':
			r.p++
			tt = css.SemicolonToken
		case c == '+' || c == '.':
			if r.startsNumberAt(0) {
				tt = r.consumeNumeric()
			} else {
				r.p++
				tt = css.DelimToken
			}
		case c == '-':
			if r.startsNumberAt(0) {
				tt = r.consumeNumeric()
			} else if r.at(1) == '-' && r.at(2) == '>' {
				r.p += 3
				tt = css.CDCToken
			} else if r.at(1) == '-' {
				// documented addition: custom property name (css-variables)
				r.p += 2
				r.consumeName()
				tt = css.CustomPropertyNameToken
				if r.at(0) == '(' {
					// an identifier directly followed by '(' is a function token, also when it starts with two dashes
					r.p++
					tt = css.FunctionToken
				}
			} else if r.wouldStartIdentAt(0) {
				tt = r.consumeIdentLike()
			} else {
				r.p++
				tt = css.DelimToken
			}
		case c == '<':
			if r.at(1) == '!' && r.at(2) == '-' && r.at(3) == '-' {
				r.p += 4
				tt = css.CDOToken
			} else {
				r.p++
				tt = css.DelimToken
			}
		case c == '@':
			if r.wouldStartIdentAt(1) {
				r.p++
				r.consumeName()
				tt = css.AtKeywordToken
			} else {
				if r.at(1) == '-' && r.at(2) == '-' {
					r.ambiguous = true // @--x
				}
				r.p++
				tt = css.DelimToken
			}
		case c == '\\':
			if r.validEscapeAt(0) {
				if r.at(1) == -1 {
					r.parseErr = true
				}
				tt = r.consumeIdentLike()
			} else {
				r.parseErr = true
				r.p++
				tt = css.DelimToken
			}
		case isDigit(c):
			tt = r.consumeNumeric()
		case (c == 'u' || c == 'U') && r.at(1) == '+' && (isHex(r.at(2)) || r.at(2) == '?'):
			r.consumeUnicodeRange()
			tt = css.UnicodeRangeToken
		case isNameStart(c):
			tt = r.consumeIdentLike()
		case c == '|':
			if r.at(1) == '=' {
				r.p += 2
				tt = css.DashMatchToken
			} else if r.at(1) == '|' {
				r.p += 2
				tt = css.ColumnToken
			} else {
				r.p++
				tt = css.DelimToken
			}
		default:
			r.consumeRuneOrByte()
			tt = css.DelimToken
		}
		if r.p > len(b) {
			r.p = len(b)
		}
		if r.p == start { // defensive: never loop
			r.p++
			r.ambiguous = true
		}
		r.toks = append(r.toks, rcTok{tt, start, r.p})
		if tt == css.HashToken && start+1 < len(b) && b[start+1] == '-' && start+2 < len(b) && b[start+2] == '-' {
			// fine: name code points
		}
	}
	return r
}
