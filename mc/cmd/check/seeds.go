package main

// Seed catalogue: one or more inputs per construct; edit balls around them put
// the scanners into deep modes and explore every way of leaving them.

var seedsJS = []string{
	"var a = 1, b;", "let [a, {b, c: [d = 1]}, ...e] = f;", "const {a, b: {c}, ...d} = e;",
	"function f(a, b = 1, {c}, [d], ...e) { return a + b; }", "async function f() { await g(); }",
	"function* g() { yield 1; yield* h(); }", "async function* ag() { for await (const x of y) yield x; }",
	"class A extends B { constructor() { super(); } static #p = 1; get x() { return this.#p; } set x(v) {} static { a = 1; } async *m() {} [k]() {} 'str'() {} 1() {} f = 2; static async g() {} }",
	"x = class { static a; b = 1; #c; };",
	"if (a) b; else if (c) d; else { e }", "for (var i = 0, n = 1; i < n; i++) { continue; }",
	"for (const k in o) if (k) break;", "for (let [a, b] of m) {}", "for (a in b) c;", "for (;;) {}",
	"while (a) { b(); }", "do a++; while (b)", "do { x } while (y);",
	"switch (a) { case 1: b; break; case 2: { c } default: d }", "l1: for (;;) { l2: while (1) { continue l1; } break l1; }",
	"try { a } catch (e) { b } finally { c }", "try { a } catch { b }", "try {} finally {}", "throw new Error('x');",
	"with (a) b;", "debugger;", ";", "{ a; { b } }", "return", "'use strict'; a;",
	"import a, { b as c, default as d } from 'm';", "import * as ns from \"m\";", "import 'm';", "import a from 'm';",
	"export { a as b, c };", "export * from 'm';", "export * as n from 'm';", "export default function () {}", "export default class {}",
	"export default a + b;", "export const x = 1, y = 2;", "export function f() {}", "export class C {}", "export { a } from 'm';",
	"a = b ? c : d ? e : f;", "a ||= b && c ?? d;", "a = (b ?? c) || d;", "x = a ** b ** c;", "x = (-a) ** b;", "x = a?.b?.[c]?.(d);",
	"x = new A;", "x = new A(b).c;", "x = new new A()();", "x = new.target;", "x = import.meta.url;", "x = import('m');",
	"x = a.b.c[d](e, ...f)`t${g}u`;", "x = `a${b}c${`d${e}f`}g`;", "x = `\\`${'}'}\\${`;", "x = tag`a\nb`;",
	"x = /ab+c/gi.test(s);", "x = /[/]\\//; y = a / b / c;", "x = a++ + ++b - -c + +d;", "x = typeof void delete a.b;", "x = !~a;",
	"x = a < b > c <= d >= e == f != g === h !== i;", "x = a << b >> c >>> d & e | f ^ g;", "x = a in b instanceof c;",
	"x = (a, b);", "x = [a, , b, ...c];", "x = {a, b: c, [d]: e, f() {}, get g() {}, set h(v) {}, async i() {}, *j() {}, async *k() {}, ...l, 'm': 1, 2: 3};",
	"x = function () {};", "x = function f() {};", "x = async function () {};", "x = function* () {};",
	"x = a => b;", "x = (a, b) => { return c; };", "x = async a => b;", "x = async (a, b) => c;", "x = ({a}, [b], c = 1, ...d) => e;", "x = () => ({});",
	"x = async () => { await a; };", "x = (a) => (b) => c;", "x = a ? (b) : (c) => d;",
	"x = 0x1F + 0b11 + 0o17 + 1e3 + .5 + 1. + 1_000 + 10n;", "x = 'a\\'b\\\nc' + \"d\\\"e\";", "x = '\\u{1F600}\\x41\\101';",
	"a\nb\n++c", "a = b\n(c)", "a = b\n/c/g", "return\na", "x\n=>y", "let\na", "yield\na", "async\nfunction f(){}",
	"x = a /* c1 */ + /* c2\n */ b // c3\n", "<!-- c\nx = 1\n--> d\n", "#!/usr/bin/env node\nx",
	"if (a) function f() {}", "x = {if: 1, class: 2}.if;", "x = a.class.new;", "label: function f() {}", "var let, async, of, get, set, static, yield, await;",
	"x = y = z", "[a, b] = [b, a];", "({a, b} = c);", "({a = 1} = b);", "[a = 1, [b], {c}] = d;", "for ([a, b] of c);", "for ({a} in b);",
	"let a; { let a; function f() { var a; } }", "function f(a) { var a; function a() {} }", "x = function f() { f; }; y = class C { m() { C; } };",
	"(function () {})();", "(() => {})();", "!function () {}();", "new (foo())();", "x = (a)(b);", "x = ((a));", "(a, b) => c;", "async (a) => b;",
	"x = a\n++\nb", "x = a\n?.b", "if (a) ; else ;", "for (let in o);", "for (let of of x);", "for (async of => 1;;);", "x = async\n(a) => b",
	"x = {async: 1, get: 2, set: 3, static: 4}", "x = {get() {}, set() {}, async() {}, static() {}}", "class A { get; set; static; async; static static() {} }",
	"x = a ? b : c, d;", "x = a = b ? c : d;", "x = () => a ? b : c;", "a || b && c | d ^ e & f == g < h << i + j * k ** l;",
	"`${a}${b}`", "`${{}}`", "`${`${`${a}`}`}`", "x = `${a /* } */}`", "x = `${'`'}`;",
	// rest elements and initialisers in what may be arrow parameters; computed keys; chains of else-if
	"({...a=1})=>a", "([{...a=1}])=>a", "({b:{...a=1}})=>a", "async({...a=1})=>a", "({...a})=>a", "({...a.b})=>a", "({...[a]})=>a", "({a=1,...b})=>a", "([...a=1])=>a", "([a,...b=1])=>0",
	"({[[x]]:a})=>a", "({[{x:1}.x]:b})=>b", "x={...a=1}", "[...a=1]=b", "({...a=1}=b)", "(a=1,{b=2},[c=3])=>0", "(...a=1)=>0", "(a,...[b=1])=>0",
	"if (a) b; else if (c) d; else if (e) f; else if (g) h; else i", "if (a) {} else if (b) {} else if (c) {}", "if (a) if (b) c; else if (d) e; else if (f) g; else h; else i",
	"x = a + b + c + d; y = a - (b - c) - d; z = a * b + c * d - e", "x = a && b && c || d || e ?? f",
	"function* g(){ f = async x => yield (x); h = async (y) => yield (y); k = z => yield (z); yield (1) }", "async function a(){ f = x => await (x); g = function(){ await (1) } }",
	"function f(a=b,...c){var b} class A{m(p=q){var q} static{var x}} x={m(p=q){let q}}", "x = async (a, b) => a + b; async(a, b); var async",
}

var seedsCSS = []string{
	"a{color:red}", "a , b > c + d ~ e f{margin:0 auto;padding:1px 2em 3% 4.5e-1pt}", "@import url(\"a.css\") screen;", "@import 'a.css';",
	"@charset \"utf-8\";", "@media screen and (min-width:100px){a{b:c}@media print{d{e:f}}}", "@font-face{font-family:\"A\";src:url(a.woff)}",
	"@page :first{margin:1in}", "@keyframes k{from{a:b}50%{c:d}to{e:f}}", "@supports (display:grid) and (not (a:b)){c{d:e}}",
	"@namespace svg url(http://www.w3.org/2000/svg);", "@unknown foo bar;", "@unknown{a:b;c{d:e}}", "@-webkit-keyframes k{0%{a:b}}",
	"a{--x: {a;b} [c] (d);--y:;z:1}", "a{b:c!important;d:e ! important}", "a{*zoom:1;_height:1px;filter:progid:DXImageTransform.Microsoft.gradient(startColorstr='#80000000')}",
	"a[b=\"c\"],a[d~=e],a[f|=g],a[h^=i],a[j$=k],a[l*=m]{n:o}", "a:not(.b,#c)::before{content:\"\\201C\";x:'\\''}", "a{b:url( c ) url(\"d\") url(e\\)f) url(g h)}",
	"a{b:calc(1px + (2em * 3)) rgb(0 0 0 / 50%)}", "a{b:U+26,u+0-7F,U+4??}", "<!-- a{b:c} -->", "/* c */a/* d */{/* e */b/* f */:/* g */c/* h */}/* i */",
	"a{b:c;;d:e;}", "a{b:c}}d{e:f}", "a{b:(c;d:e}", "a{b:c;{d:e}f:g}", "a{&:hover{b:c}.d &{e:f}g:h}", "a{b:1e3 1e+3 1e-3 1.5e3 +.5 -.5 1. 1e 1ex}",
	"a{b:\\31 23 \\000031 \\\n}", "@media{", "a{b:\"c\nd\"}", "a{b:'c", "a{b:url(c", "a{b:url(c\"d)e}", "a{b:c /*", "color:red;margin:0", "color:red;{a:b}c:d", "@media print{a:b}c:d",
	".a\\:b #c\\.d -e --f -\\-g{h:i}", "a||b{c:d}", "a{b:c(d(e(f)))[g[h]]{i{j}}}", "@a(b{c}d;e", "a{b:c}@d e{f:g}h{i:j}",
}

var seedsHTML = []string{
	"<p></P Class=X Data-Y=\"Z\" >",
	"<!DOCTYPE html><html><head><title>a<b</title></head><body class=a id='b' data-x=\"c\" hidden>t</body></html>",
	"<a b=c d = e f='g h' i=\"j>k\" l/>m</a>", "<br/><img src=a.png /><input disabled>", "<!-- c --><!--><!---><!--a--!>b", "<?php x ?><!x></ y><//>",
	"<script>if (a < b && c > d) x = '</s' + 'cript>';</script>z", "<script><!-- x = '<script>' + '</script>'; --></script>y",
	"<script><!--<script></script>--></script>", "<SCRIPT TYPE=a>b</ScRiPt>c", "<style>a > b { c: '</styl' }</style>d", "<title>a<b>c</title>d",
	"<textarea><p></textarea>x", "<xmp><b></xmp>", "<iframe><a></iframe>", "<plaintext><a></plaintext>", "<script>a</script x>b", "<script>a</scriptx>b</script>",
	"<svg width=1><path d=\"M0 0</svg>\"/><svg></svg></svg>a", "<math><mi>x</mi><math></math></math>b", "<![CDATA[a<b]]>c", "<svg><![CDATA[</svg>]]></svg>",
	"<a b=\"c\"d='e'f=g>", "<a =b c==d e=>", "<a b='c", "<a b=\"c", "<a b=c", "<a b", "<a", "</a", "</a b=c>", "<a/b/c=d/>", "<a\tb\n=\r\nc\f>",
	"a<b c=d>e</b>f<g/>h", "<p>a&amp;b&lt;c</p>", "<a b={{c}} {{d}}={{e}} f=\"{{g \"h\" }}\">{{i}}<{{j}}>", "<a b=<%c%> <%d%>>e<%= f %>", "<a b=<?c?> <?d ?>>e<?php f ?>",
	"{{ \"}}\" }}a{{ '\\'}}' }}", "<% \"%>\" %>a", "<script>{{a}}</script>{{b}}", "<title>{{a}}</title>", "a{{b", "<a {{b", "<a b=\"{{c", "x\x00y<a\x00b=\x00>",
	"<DIV Class=x><svg>\x00</svg>", "<P>\n<MATH A=b>\x00", "<svg><svg/><svg></svg></svg>a<svg/>b", "<!-- {{ \"-->\" }} --></P{{.N}}><svg>{{a}}</svg>",
}

var seedsXML = []string{
	"<?xml version=\"1.0\" encoding='UTF-8'?><a b=\"c\" d='e'><f/>g<!-- h --><![CDATA[i]]></a>", "<!DOCTYPE a [<!ENTITY b \"c>d\"><!ELEMENT e (f)>]><a/>",
	"<!DOCTYPE a SYSTEM \"b>c\" [ <!-- ] --> ]><a/>", "<a:b c:d=\"e\" xmlns:a='f'/>", "<a b=\"c'd\" e='f\"g' h=\"i>j\" k='l/m?n'/>", "<a b=\"c\td\ne\rf\"/>",
	"<?a b?><?c?><?d e='f'?>", "<a><![CDATA[b]]c]>d]]]>e</a>", "<a><!-- b -- c ---></a>", "<a >b</a >", "<a\n\tb = 'c'\n/>", "<a b='c'/><d e=\"f\"></d>",
	"<a b", "<a b=", "<a b='c", "<!-- a", "<![CDATA[a", "<?a", "<!DOCTYPE a [", "</a", "a<b>c&amp;d</b>e", "<a>\x00</a>", "<a b=\"\x00\"/>", "<?xml?><a/>",
	"<?php echo 1 > 0; ?><r/>", "<r><?pi a=\"?>\"?></r>", "<?pi a>b?><r c='d'/>", "<r><?pi a/>b?>c</r>",
}

var seedsJSON = []string{
	"{\"a\":[1,-2.5e+3,true,false,null,\"b\\\"c\\\\\",{\"d\":{}}],\"e\":[]}", " [ 1 , 2 , { \"a\" : \"b\" } ] ", "\"a\\u00e9\\n\"", "-0.0e-0", "[[[[]]]]", "{\"a\":{\"b\":{\"c\":{}}}}",
	"[1,]", "{\"a\":1,}", "{a:1}", "[1 2]", "{\"a\" 1}", "[1}", "{\"a\":1]", "]", "}", "{\"a\"}", "{1:2}", "\"a", "[\"a\\", "tru", "nul", "-", "1.", "1e", "1e+", "01", "{\"a\":}", "[,1]", "{,}", "\x00", "[1,\x002]",
}
