package main

// C19 — BinaryReader/Writer round trip on every backend; io contracts of
// Read/ReadAt/Seek; Bitmap reader/writer.

import (
	"bytes"
	"encoding/binary"
	"fmt"
	"io"
	"math"
	"os"
	"path/filepath"
	"strconv"
	"strings"

	"verifmc/engine"

	parse "github.com/tdewolff/parse/v2"
)

type wop struct {
	kind string // u8 u16 u24 u32 u64 i8 i16 i24 i32 i64 b
	u    uint64
	i    int64
	b    string
}

func (o wop) String() string {
	switch o.kind[0] {
	case 'u':
		return fmt.Sprintf("%s(%#x)", o.kind, o.u)
	case 'i':
		return fmt.Sprintf("%s(%d)", o.kind, o.i)
	}
	return fmt.Sprintf("bytes(%q)", o.b)
}

func (o wop) width() int {
	switch o.kind {
	case "u8", "i8":
		return 1
	case "u16", "i16":
		return 2
	case "u24", "i24":
		return 3
	case "u32", "i32":
		return 4
	case "u64", "i64":
		return 8
	}
	return len(o.b)
}

var c19Ops = []wop{
	{kind: "u8", u: 0}, {kind: "u8", u: 0xFF}, {kind: "u8", u: 0x7F},
	{kind: "u16", u: 0x0102}, {kind: "u16", u: 0xFFFE},
	{kind: "u24", u: 0x010203}, {kind: "u24", u: 0xFFFEFD},
	{kind: "u32", u: 0x01020304}, {kind: "u32", u: 0xFFFEFDFC},
	{kind: "u64", u: 0x0102030405060708}, {kind: "u64", u: 0xFFFEFDFCFBFAF9F8},
	{kind: "i8", i: -1}, {kind: "i8", i: -128}, {kind: "i8", i: 127},
	{kind: "i16", i: -2}, {kind: "i16", i: 0x7FFF},
	{kind: "i24", i: -1}, {kind: "i24", i: -8388608}, {kind: "i24", i: 8388607}, {kind: "i24", i: 0x010203},
	{kind: "i32", i: -2}, {kind: "i32", i: math.MinInt32},
	{kind: "i64", i: -2}, {kind: "i64", i: math.MinInt64},
	{kind: "b", b: ""}, {kind: "b", b: "a"}, {kind: "b", b: "abc"},
}

func c19Write(w *parse.BinaryWriter, o wop) {
	switch o.kind {
	case "u8":
		w.WriteUint8(uint8(o.u))
	case "u16":
		w.WriteUint16(uint16(o.u))
	case "u24":
		w.WriteUint24(uint32(o.u))
	case "u32":
		w.WriteUint32(uint32(o.u))
	case "u64":
		w.WriteUint64(o.u)
	case "i8":
		w.WriteInt8(int8(o.i))
	case "i16":
		w.WriteInt16(int16(o.i))
	case "i24":
		w.WriteInt24(int32(o.i))
	case "i32":
		w.WriteInt32(int32(o.i))
	case "i64":
		w.WriteInt64(o.i)
	case "b":
		w.WriteBytes([]byte(o.b))
	}
}

// refEncode is the encoding/binary reference for one op.
func refEncode(buf []byte, o wop, little bool) []byte {
	var bo binary.AppendByteOrder = binary.BigEndian
	if little {
		bo = binary.LittleEndian
	}
	v := o.u
	if o.kind[0] == 'i' {
		v = uint64(o.i)
	}
	switch o.width() {
	case 1:
		if o.kind != "b" {
			return append(buf, byte(v))
		}
	case 2:
		if o.kind != "b" {
			return bo.AppendUint16(buf, uint16(v))
		}
	case 3:
		if o.kind != "b" {
			if little {
				return append(buf, byte(v), byte(v>>8), byte(v>>16))
			}
			return append(buf, byte(v>>16), byte(v>>8), byte(v))
		}
	case 4:
		return bo.AppendUint32(buf, uint32(v))
	case 8:
		return bo.AppendUint64(buf, v)
	}
	return append(buf, o.b...)
}

// c19Read performs the typed read matching o and renders the value.
func c19Read(r *parse.BinaryReader, o wop) string {
	switch o.kind {
	case "u8":
		return strconv.FormatUint(uint64(r.ReadUint8()), 10)
	case "u16":
		return strconv.FormatUint(uint64(r.ReadUint16()), 10)
	case "u24":
		return strconv.FormatUint(uint64(r.ReadUint24()), 10)
	case "u32":
		return strconv.FormatUint(uint64(r.ReadUint32()), 10)
	case "u64":
		return strconv.FormatUint(r.ReadUint64(), 10)
	case "i8":
		return strconv.FormatInt(int64(r.ReadInt8()), 10)
	case "i16":
		return strconv.FormatInt(int64(r.ReadInt16()), 10)
	case "i24":
		return strconv.FormatInt(int64(r.ReadInt24()), 10)
	case "i32":
		return strconv.FormatInt(int64(r.ReadInt32()), 10)
	case "i64":
		return strconv.FormatInt(r.ReadInt64(), 10)
	}
	return "b:" + string(r.ReadBytes(int64(len(o.b))))
}

func wantValue(o wop) string {
	switch o.kind[0] {
	case 'u':
		return strconv.FormatUint(o.u, 10)
	case 'i':
		return strconv.FormatInt(o.i, 10)
	}
	return "b:" + o.b
}

// ---- environment: wrapped readers ----

type envReader struct {
	data    []byte
	off     int
	chunk   int  // max bytes per Read (0 = unlimited)
	eofWith bool // io.EOF together with the last bytes
}

func (r *envReader) Read(p []byte) (int, error) {
	if r.off >= len(r.data) {
		return 0, io.EOF
	}
	n := len(p)
	if r.chunk > 0 && n > r.chunk {
		n = r.chunk
	}
	if n > len(r.data)-r.off {
		n = len(r.data) - r.off
	}
	copy(p, r.data[r.off:r.off+n])
	r.off += n
	if r.eofWith && r.off >= len(r.data) && n > 0 {
		return n, io.EOF
	}
	return n, nil
}

type envSeeker struct{ envReader }

func (r *envSeeker) Seek(off int64, whence int) (int64, error) {
	var t int64
	switch whence {
	case 0:
		t = off
	case 1:
		t = int64(r.off) + off
	case 2:
		t = int64(len(r.data)) + off
	default:
		return 0, fmt.Errorf("bad whence")
	}
	if t < 0 {
		return 0, fmt.Errorf("negative position")
	}
	r.off = int(t)
	return t, nil
}

type envReaderAt struct {
	envReader
	eofExact bool // ReadAt returns io.EOF also when the read exactly reaches the end (legal)
}

func (r *envReaderAt) ReadAt(p []byte, off int64) (int, error) {
	if off < 0 {
		return 0, fmt.Errorf("negative offset")
	}
	if off >= int64(len(r.data)) {
		return 0, io.EOF
	}
	n := copy(p, r.data[off:])
	if n < len(p) || (r.eofExact && int(off)+n == len(r.data)) {
		return n, io.EOF
	}
	return n, nil
}

type bytesHolder struct{ b []byte }

func (h *bytesHolder) Read(p []byte) (int, error) { return 0, io.EOF }
func (h *bytesHolder) Bytes() []byte              { return h.b }

var c19Backends = []string{"bytes", "reader-Bytes()", "seeker-n", "seeker-n<0", "seeker-chunk1", "seeker-eof-with-data", "readerat", "readerat-eof-on-exact-fit",
	"reader-n<0", "reader-n", "reader-n-chunk1", "reader-n-eof-with-data", "file", "mmap-path", "mmap-file", "reader-n<0-eof-with-data", "reader-n<0-chunk1-eof-with-data"}

const c19FirstFile = 12

var c19TmpDir string

func c19Open(backend int, data []byte) (*parse.BinaryReader, func(), bool) {
	d := append([]byte{}, data...)
	n := int64(len(d))
	var r *parse.BinaryReader
	var err error
	cleanup := func() {}
	random := true // supports Seek/ReadAt
	switch backend {
	case 0:
		r = parse.NewBinaryReaderBytes(d)
	case 1:
		r, err = parse.NewBinaryReaderReader(&bytesHolder{d}, -1)
	case 2:
		r, err = parse.NewBinaryReaderReader(&envSeeker{envReader{data: d}}, n)
	case 3:
		r, err = parse.NewBinaryReaderReader(&envSeeker{envReader{data: d}}, -1)
	case 4:
		r, err = parse.NewBinaryReaderReader(&envSeeker{envReader{data: d, chunk: 1}}, n)
	case 5:
		r, err = parse.NewBinaryReaderReader(&envSeeker{envReader{data: d, eofWith: true}}, n)
	case 6:
		if n == 0 {
			return nil, cleanup, false // n must be positive for the ReaderAt backend to be chosen
		}
		r, err = parse.NewBinaryReaderReader(&envReaderAt{envReader: envReader{data: d}}, n)
	case 7:
		if n == 0 {
			return nil, cleanup, false
		}
		r, err = parse.NewBinaryReaderReader(&envReaderAt{envReader: envReader{data: d}, eofExact: true}, n)
	case 8:
		r, err = parse.NewBinaryReaderReader(&envReader{data: d, chunk: 2}, -1)
	case 9:
		r, err = parse.NewBinaryReaderReader(&envReader{data: d}, n)
		random = false
	case 10:
		r, err = parse.NewBinaryReaderReader(&envReader{data: d, chunk: 1}, n)
		random = false
	case 11:
		r, err = parse.NewBinaryReaderReader(&envReader{data: d, eofWith: true}, n)
		random = false
	case 15:
		r, err = parse.NewBinaryReaderReader(&envReader{data: d, eofWith: true}, -1)
	case 16:
		r, err = parse.NewBinaryReaderReader(&envReader{data: d, chunk: 1, eofWith: true}, -1)
	case 12, 13, 14:
		if c19TmpDir == "" {
			c19TmpDir, _ = os.MkdirTemp("", "verifmc-c19-")
		}
		p := filepath.Join(c19TmpDir, "f"+strconv.Itoa(os.Getpid()))
		if os.WriteFile(p, d, 0o600) != nil {
			return nil, cleanup, false
		}
		switch backend {
		case 12:
			r, err = parse.NewBinaryReaderPath(p)
		case 13:
			r, err = parse.NewBinaryReaderMmapPath(p)
		case 14:
			var f *os.File
			f, err = os.Open(p)
			if err == nil {
				r, err = parse.NewBinaryReaderMmapFile(f)
				cleanup = func() { f.Close() }
			}
		}
	}
	if err != nil || r == nil {
		return nil, cleanup, false
	}
	old := cleanup
	return r, func() { r.Close(); old() }, random
}

// ---- space "rw": write history, read back on one backend at one truncation ----
// input: op indices as bytes; args: le=0/1, backend, trunc
func c19RW(c *engine.Ctx, in []byte, args map[string]string) {
	little := args["le"] == "1"
	backend, _ := strconv.Atoi(args["backend"])
	ops := make([]wop, len(in))
	for i, b := range in {
		ops[i] = c19Ops[int(b)%len(c19Ops)]
	}
	prefix := []byte("PRE")
	w := parse.NewBinaryWriter(append([]byte{}, prefix...))
	if little {
		w.ByteOrder = binary.LittleEndian
	}
	ref := append([]byte{}, prefix...)
	for _, o := range ops {
		c19Write(w, o)
		ref = refEncode(ref, o, little)
	}
	if !bytes.Equal(w.Bytes(), ref) || w.Len() != int64(len(ref)) {
		c.Fail("writer-bytes", fmt.Sprintf("BinaryWriter produced %x (Len %d), encoding/binary gives %x for %v little=%v", w.Bytes(), w.Len(), ref, ops, little))
		return
	}
	// the writer from an empty state, with every byte string handed over as a piece of one source buffer that has room
	// behind it: the output is the same and the source buffer is not written to
	for _, initCap := range []int{-1, 0, 2, 64} {
		var w2 *parse.BinaryWriter
		if initCap < 0 {
			w2 = parse.NewBinaryWriter(nil)
		} else {
			w2 = parse.NewBinaryWriter(make([]byte, 0, initCap))
		}
		if little {
			w2.ByteOrder = binary.LittleEndian
		}
		src := bytes.Repeat([]byte{0xEE}, 32)
		off := 0
		var ref2 []byte
		for _, o := range ops {
			if o.kind == "b" {
				copy(src[off:], o.b)
				w2.WriteBytes(src[off : off+len(o.b)])
				off += len(o.b)
			} else {
				c19Write(w2, o)
			}
			ref2 = refEncode(ref2, o, little)
		}
		want := bytes.Repeat([]byte{0xEE}, 32)
		n := 0
		for _, o := range ops {
			if o.kind == "b" {
				n += copy(want[n:], o.b)
			}
		}
		if !bytes.Equal(w2.Bytes(), ref2) || !bytes.Equal(src, want) {
			c.Fail("writer-aliases-argument", fmt.Sprintf("BinaryWriter (initial capacity %d) with byte strings taken from one source buffer: produced %x want %x; the source buffer is %x want %x, for %v little=%v", initCap, w2.Bytes(), ref2, src, want, ops, little))
			return
		}
	}
	full := ref[len(prefix):]
	truncs := []int{len(full)}
	if ts, ok := args["trunc"]; ok {
		t, _ := strconv.Atoi(ts)
		truncs = []int{t}
	} else {
		truncs = truncs[:0]
		for t := len(full); t >= 0; t-- {
			truncs = append(truncs, t)
		}
	}
	for _, t := range truncs {
		if t > len(full) {
			continue
		}
		data := full[:t]
		r, done, _ := c19Open(backend, data)
		if r == nil {
			continue
		}
		if little {
			r.ByteOrder = binary.LittleEndian
		}
		c.Count("transitions", int64(len(ops)))
		desc := func(i int) string {
			return fmt.Sprintf("backend=%s little=%v data=%x (truncated to %d of %d) reads=%v, at read %d", c19Backends[backend], little, data, t, len(full), ops, i)
		}
		pos := 0
		over := false
		overran := false
		var held [][]byte // byte strings returned earlier must keep their value
		var heldWant []string
		for i, o := range ops {
			var got string
			var gotBytes []byte
			if o.kind == "b" {
				gotBytes = r.ReadBytes(int64(len(o.b)))
				got = "b:" + string(gotBytes)
			} else {
				got = c19Read(r, o)
			}
			wd := o.width()
			if !over && pos+wd <= t {
				pos += wd
				if got != wantValue(o) {
					c.Fail("round-trip", fmt.Sprintf("%s: read %s, written %s", desc(i), got, wantValue(o)))
					done()
					return
				}
				if r.Err() != nil {
					c.Fail("err-before-overrun", fmt.Sprintf("%s: Err()=%v although the read fits in the data", desc(i), r.Err()))
					done()
					return
				}
				if o.kind == "b" && len(gotBytes) > 0 {
					held = append(held, gotBytes)
					heldWant = append(heldWant, o.b)
				}
			} else {
				over = true
				pos = t
				zero := "0"
				if o.kind == "b" {
					if !strings.HasPrefix("b:"+string(data[min(len(data), pos-0):]), "b:") || len(gotBytes) > wd {
						zero = got
					} else {
						zero = got // any prefix of the remaining bytes
					}
					if wd > 0 && len(gotBytes) >= wd {
						c.Fail("overrun-value", fmt.Sprintf("%s: ReadBytes(%d) past the end returned %d bytes", desc(i), wd, len(gotBytes)))
					}
				}
				if got != zero {
					c.Fail("overrun-value", fmt.Sprintf("%s: read past the end returned %s, want the zero value", desc(i), got))
					done()
					return
				}
				if wd > 0 && r.Err() != io.EOF {
					c.Fail("overrun-err", fmt.Sprintf("%s: Err()=%v after reading past the end, want io.EOF", desc(i), r.Err()))
					done()
					return
				}
				if wd > 0 {
					overran = true
				}
			}
			if overran && r.Err() != io.EOF {
				// the first failure is latched: later reads, also of zero bytes, do not clear it
				c.Fail("error-not-latched", fmt.Sprintf("%s: Err()=%v after an earlier read had run past the end (want io.EOF to stay)", desc(i), r.Err()))
				done()
				return
			}
			if r.Pos() != int64(pos) || r.Len() != int64(t-pos) {
				c.Fail("pos-len", fmt.Sprintf("%s: Pos()=%d Len()=%d, want %d and %d", desc(i), r.Pos(), r.Len(), pos, t-pos))
				done()
				return
			}
		}
		if overran {
			b0, s0 := r.ReadBytes(0), r.ReadString(0)
			if len(b0) != 0 || s0 != "" || r.Err() != io.EOF {
				c.Fail("error-not-latched", fmt.Sprintf("%s: after the over-run ReadBytes(0)/ReadString(0) give %q %q and Err()=%v (want io.EOF to stay)", desc(len(ops)), b0, s0, r.Err()))
				done()
				return
			}
		}
		for k, h := range held {
			if string(h) != heldWant[k] {
				c.Fail("held-bytes", fmt.Sprintf("%s: a byte string returned earlier changed from %q to %q after later reads", desc(len(ops)), heldWant[k], h))
			}
		}
		done()
	}
}

// ---- space "seek": io contracts on L bytes ----
// input: L as a single byte; args: backend
func c19Seek(c *engine.Ctx, in []byte, args map[string]string) {
	backend, _ := strconv.Atoi(args["backend"])
	L := int(in[0]) % 8
	data := make([]byte, L)
	for i := range data {
		data[i] = byte('A' + i)
	}
	open := func() (*parse.BinaryReader, func()) {
		r, done, random := c19Open(backend, data)
		if r == nil || !random {
			if r != nil {
				done()
			}
			return nil, nil
		}
		return r, done
	}
	if r, done := open(); r == nil {
		// a backend that can only be read in sequence: ReadAt may refuse, but it must not take bytes away from the
		// reads that follow (io.ReaderAt: "ReadAt should not affect nor be affected by the underlying seek offset")
		if r, done, _ := c19Open(backend, data); r != nil {
			done()
			name := c19Backends[backend]
			for pos := 0; pos <= L; pos++ {
				for off := 0; off <= L; off++ {
					for n := 0; n <= L+1-off; n++ {
						r, done, _ := c19Open(backend, data)
						head := r.ReadBytes(int64(pos))
						p := bytes.Repeat([]byte{'.'}, n)
						m, err := r.ReadAt(p, int64(off))
						c.Count("transitions", 3)
						d := fmt.Sprintf("%s L=%d: ReadBytes(%d) then ReadAt(len %d, off %d) = (%d, %v) %q Pos()=%d", name, L, pos, n, off, m, err, p, r.Pos())
						if string(head) != string(data[:pos]) || r.Pos() != int64(pos) {
							c.Fail("io.ReaderAt-sequential", d+" (position moved)")
						} else if m < 0 || m > n || off+m > L || !bytes.Equal(p[:m], data[off:off+m]) || (m < n && err == nil) {
							c.Fail("io.ReaderAt-sequential", d+" (neither refused nor the right bytes)")
						} else if rest := r.ReadBytes(int64(L - pos)); string(rest) != string(data[pos:]) || r.Err() != nil {
							c.Fail("io.ReaderAt-sequential", fmt.Sprintf("%s; the following ReadBytes(%d) gives %q err=%v want %q", d, L-pos, rest, r.Err(), data[pos:]))
						}
						done()
					}
				}
			}
		}
		return
	} else {
		done()
	}
	name := c19Backends[backend]
	for pos := 0; pos <= L; pos++ {
		// Seek
		for whence := 0; whence <= 3; whence++ {
			for off := -L - 1; off <= L+1; off++ {
				r, done := open()
				if p0, err := r.Seek(int64(pos), io.SeekStart); err != nil || p0 != int64(pos) {
					c.Fail("seek-start", fmt.Sprintf("%s L=%d: Seek(%d, SeekStart) = (%d, %v)", name, L, pos, p0, err))
					done()
					return
				}
				br := bytes.NewReader(data)
				br.Seek(int64(pos), io.SeekStart)
				wantPos, wantErr := br.Seek(int64(off), whence)
				got, err := r.Seek(int64(off), whence)
				c.Count("transitions", 1)
				d := fmt.Sprintf("%s L=%d from pos %d: Seek(%d, %d) = (%d, %v), Pos()=%d; bytes.Reader gives (%d, %v)", name, L, pos, off, whence, got, err, r.Pos(), wantPos, wantErr)
				switch {
				case wantErr == nil && wantPos >= 0 && wantPos <= int64(L):
					if err != nil || got != wantPos || r.Pos() != wantPos {
						c.Fail("seek", d)
					}
				case wantErr != nil:
					if err == nil {
						c.Fail("seek-accepts-invalid", d)
					} else if r.Pos() != int64(pos) {
						c.Fail("seek-error-moves", d)
					}
				default: // beyond the end: error (position kept) or accepted at that position
					if err == nil && (got != wantPos || r.Pos() != wantPos) {
						c.Fail("seek", d)
					} else if err != nil && r.Pos() != int64(pos) {
						c.Fail("seek-error-moves", d)
					}
				}
				// after a successful Seek inside the data the next byte read is the right one
				if err == nil && got >= 0 && got < int64(L) {
					if b := r.ReadUint8(); b != data[got] || r.Err() != nil {
						c.Fail("seek-then-read", fmt.Sprintf("%s; ReadUint8 then gives %q err=%v want %q", d, b, r.Err(), data[got]))
					}
				}
				done()
			}
		}
		// Read and ReadAt
		for n := 0; n <= L+1; n++ {
			r, done := open()
			r.Seek(int64(pos), io.SeekStart)
			p := bytes.Repeat([]byte{'.'}, n)
			m, err := r.Read(p)
			c.Count("transitions", 2)
			avail := L - pos
			wantN := n
			if wantN > avail {
				wantN = avail
			}
			d := fmt.Sprintf("%s L=%d pos=%d: Read(len %d) = (%d, %v) %q Pos()=%d", name, L, pos, n, m, err, p, r.Pos())
			if m != wantN || !bytes.Equal(p[:max(m, 0)], data[pos:pos+wantN]) || (err != nil && err != io.EOF) || (n > 0 && m == 0 && err != io.EOF) || r.Pos() != int64(pos+wantN) {
				c.Fail("io.Reader", d)
			} else if n > 0 && wantN == n && pos+n < L && err != nil {
				c.Fail("io.Reader", d+" (error although more data follow)")
			}
			if !bytes.Equal(p[wantN:], bytes.Repeat([]byte{'.'}, n-wantN)) {
				c.Fail("io.Reader", d+" (wrote beyond n)")
			}
			done()
			// a second Read at the same place after an over-long one
			r, done = open()
			big := make([]byte, L+2)
			r.ReadAt(big, int64(pos))
			p = bytes.Repeat([]byte{'.'}, n)
			m, err = r.ReadAt(p, int64(pos))
			d = fmt.Sprintf("%s L=%d: ReadAt(len %d, off %d) = (%d, %v) %q Pos()=%d (after an over-long ReadAt at the same offset)", name, L, n, pos, m, err, p, r.Pos())
			if m != wantN || !bytes.Equal(p[:max(m, 0)], data[pos:pos+wantN]) || (m < n && err == nil) || (err != nil && err != io.EOF) || r.Pos() != 0 {
				c.Fail("io.ReaderAt", d)
			} else if wantN == n && pos+n < L && err != nil {
				c.Fail("io.ReaderAt", d+" (error although the read fits)")
			}
			done()
		}
	}
}

// ---- space "bitmap" ----
// input: args kind=write: bit string as bytes '0'/'1'; kind=read: raw buffer
func c19Bitmap(c *engine.Ctx, in []byte, args map[string]string) {
	if args["kind"] == "write" {
		// the destination: nil, or an empty slice of a scratch array that still holds old data in its spare capacity
		var dst []byte
		var scratch []byte
		switch args["dst"] {
		case "dirty":
			scratch = bytes.Repeat([]byte{0xFF}, 2)
			dst = scratch[:0]
		case "dirty-large":
			scratch = bytes.Repeat([]byte{0xAA}, 8)
			dst = scratch[:0]
		case "filled":
			// a buffer with a length: the bits are written from its first bit on, over whatever it holds
			dst = bytes.Repeat([]byte{0xFF}, 2)
		case "filled-large":
			dst = bytes.Repeat([]byte{0x55}, 4)
		}
		w := parse.NewBitmapWriter(dst)
		for _, b := range in {
			w.Write(b == '1')
		}
		buf := w.Bytes()
		if int64(len(buf)) != w.Len() {
			c.Fail("bitmap-writer-len", fmt.Sprintf("Len()=%d len(Bytes())=%d", w.Len(), len(buf)))
		}
		if len(buf)*8 < len(in) {
			c.Fail("bitmap-writer-short", fmt.Sprintf("%d bits written but Bytes() has %d bytes", len(in), len(buf)))
			return
		}
		r := parse.NewBitmapReader(buf)
		for i, b := range in {
			bit := r.Read()
			if r.EOF() || bit != (b == '1') {
				c.Fail("bitmap-round-trip", fmt.Sprintf("bits %s: bit %d read back as %v eof=%v (buffer %08b)", in, i, bit, r.EOF(), buf))
				return
			}
		}
		for i := len(in); i < len(buf)*8 && !strings.HasPrefix(args["dst"], "filled"); i++ {
			if r.Read() || r.EOF() {
				c.Fail("bitmap-padding", fmt.Sprintf("bits %s: padding bit %d is set or EOF came early (buffer %08b)", in, i, buf))
				return
			}
		}
		return
	}
	buf := append([]byte{}, in...)
	r := parse.NewBitmapReader(buf)
	for i := 0; i < 8*len(buf); i++ {
		bit := r.Read()
		want := buf[i/8]&(0x80>>(uint(i)%8)) != 0
		if r.EOF() {
			c.Fail("bitmap-reader-early-eof", fmt.Sprintf("buffer %08b: EOF reported at bit %d of %d", buf, i, 8*len(buf)))
			return
		}
		if bit != want || r.Pos() != uint32(i+1) {
			c.Fail("bitmap-reader-bit", fmt.Sprintf("buffer %08b: bit %d = %v want %v, Pos()=%d", buf, i, bit, want, r.Pos()))
			return
		}
	}
	if r.EOF() {
		c.Fail("bitmap-reader-early-eof", fmt.Sprintf("buffer %08b: EOF() true before reading past the last bit", buf))
	}
	if r.Read() || !r.EOF() {
		c.Fail("bitmap-reader-eof", fmt.Sprintf("buffer %08b: reading past the last bit must return false and set EOF", buf))
	}
}

func c19Setup(c *engine.Ctx) {
	c.Register(&engine.Space{Name: "rw", Run: c19RW, Minimise: func(in []byte) [][]byte {
		var r [][]byte
		for i := range in {
			r = append(r, append(append([]byte{}, in[:i]...), in[i+1:]...))
		}
		return r
	}})
	c.Register(&engine.Space{Name: "seek", Run: c19Seek, NoMinimise: true})
	c.Register(&engine.Space{Name: "bitmap", Run: c19Bitmap})
}

func c19Work(c *engine.Ctx) {
	defer func() {
		if c19TmpDir != "" {
			os.RemoveAll(c19TmpDir)
		}
	}()
	rw := c.SpaceByName("rw")
	maxOps := c.Pick(4, 5)
	atoms := make([][]byte, len(c19Ops))
	for i := range atoms {
		atoms[i] = []byte{byte(i)}
	}
	al := engine.NewAlphabet(atoms)
	states := map[string]struct{}{}
	lvl := c.EnumSeq(al, 1, maxOps, func(in []byte, idx []int) {
		if len(idx) == maxOps {
			// the longest histories: only from the 12-op core (one per kind + a second byte string)
			for _, i := range idx {
				k := c19Ops[i]
				if !(k.u == 0x7F || k.u == 0xFFFE || k.u == 0xFFFEFD || k.u == 0xFFFEFDFC || k.u == 0xFFFEFDFCFBFAF9F8 || k.i == -128 || k.i == -2 && k.kind == "i16" || k.i == -8388608 || k.i == math.MinInt32 || k.i == math.MinInt64 || k.b == "a" || k.b == "abc") {
					return
				}
			}
		}
		for le := 0; le <= 1; le++ {
			for b := range c19Backends {
				if b >= c19FirstFile && len(idx) > 2 {
					continue // file-backed backends: histories of ≤2 writes (every truncation)
				}
				args := map[string]string{"le": strconv.Itoa(le), "backend": strconv.Itoa(b)}
				c.Exec(rw, append([]byte{}, in...), args)
				c.Count("exec", 1)
			}
		}
		if len(idx) >= 2 {
			c.Count("distinct_nontrivial", 1)
		}
		if len(idx) == 3 && idx[0] == 6 && idx[1] == 17 && idx[2] == 26 {
			c.Sample(fmt.Sprintf("writes %v %v %v, both byte orders, read back on %d backends at every truncation", c19Ops[idx[0]], c19Ops[idx[1]], c19Ops[idx[2]], len(c19Backends)))
		}
	})
	c.Count("min:completed_history_length", int64(lvl))
	_ = states
	sk := c.SpaceByName("seek")
	k := 0
	for L := 0; L <= c.Pick(6, 8); L++ {
		for b := range c19Backends {
			k++
			if !c.Mine(k) {
				continue
			}
			c.Exec(sk, []byte{byte(L)}, map[string]string{"backend": strconv.Itoa(b)})
			c.Count("exec", 1)
			c.Count("distinct_nontrivial", 1)
		}
	}
	bm := c.SpaceByName("bitmap")
	bits := engine.NewAlphabet(engine.Atoms("0", "1"))
	c.EnumSeq(bits, 0, c.Pick(17, 21), func(in []byte, idx []int) {
		c.Exec(bm, in, map[string]string{"kind": "write"})
		c.Count("exec", 1)
		c.Count("transitions", int64(len(in)))
		if len(in) <= 17 {
			for _, dst := range []string{"dirty", "dirty-large", "filled", "filled-large"} {
				c.Exec(bm, in, map[string]string{"kind": "write", "dst": dst})
				c.Count("exec", 1)
				c.Count("transitions", int64(len(in)))
			}
		}
	})
	for v := 0; v < 65536+256+1; v++ {
		if !c.Mine(v) {
			continue
		}
		var buf []byte
		switch {
		case v == 0:
		case v <= 256:
			buf = []byte{byte(v - 1)}
		default:
			buf = []byte{byte((v - 257) >> 8), byte(v - 257)}
		}
		c.Exec(bm, buf, map[string]string{"kind": "read"})
		c.Count("exec", 1)
		c.Count("transitions", int64(8*len(buf)+1))
		c.Count("distinct_nontrivial", 1)
	}
}

func c19Finish(c *engine.Ctx, cov map[string]interface{}) string {
	cov["transitions"] = c.Counters["transitions"]
	cov["states"] = c.Counters["exec"]
	cov["traces_validated_against_impl"] = c.Counters["exec"]
	cov["backends"] = c19Backends
	cov["state_definition"] = "one state per explored (history, byte order, backend, truncation|seek origin); transitions = typed reads / Seek / Read / ReadAt / bit operations compared with the reference"
	if c.Counters["transitions"] < 100000 {
		return "vacuous: fewer than 100000 compared operations"
	}
	return ""
}

func init() {
	register(&engine.Check{
		ID: "C19", Level: "model_checking",
		Rule:        "all write histories of ≤3 (thorough 4) typed writes (27 op/value pairs: every width, signed and unsigned boundary values, byte strings of 0,1,3 bytes) plus all histories of 4 (thorough 5) writes over a 12-op core × {big, little} endian: writer bytes vs encoding/binary (also from an empty writer of four capacities with the byte strings passed as pieces of one source buffer, which must stay as it is), then read back on 17 backends/environment behaviours (memory, Bytes() reader, ReadSeeker n/-1/1-byte chunks/EOF-with-data, ReaderAt with nil or EOF on exact fit, plain reader -1/n/chunked/EOF-with-data (also with unknown length), *os.File, mmap path, mmap file) with the data truncated at every byte; Seek from every position × every offset in [-L-1,L+1] × whence 0..3 and Read/ReadAt for every (pos,len) on L≤6 bytes vs bytes.Reader and the io contracts (on the sequential-only backends: ReadAt at every (pos, off, len) either refuses or returns the right bytes and leaves the following reads intact); every bit string ≤17 bits through BitmapWriter→BitmapReader (destination nil, an empty slice whose spare capacity holds old data, or a buffer that is filled with other bits) and every buffer ≤2 bytes through BitmapReader",
		Assumptions: []string{"a reader may legally deliver io.EOF together with the last bytes, and a ReaderAt may return io.EOF or nil when a read ends exactly at the end", "Seek targets outside [0,Len] may be rejected (position unchanged) or accepted"},
		Setup:       c19Setup, Work: c19Work, Finish: c19Finish,
	})
}
