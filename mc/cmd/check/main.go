// Command check runs the bounded-exhaustive model-checking harness of one
// property against the parse library as found in /repo's working tree.
package main

import "verifmc/engine"

var checks = map[string]*engine.Check{}

func register(c *engine.Check) { checks[c.ID] = c }

func main() { engine.Main(checks) }
